package multi

import (
	"bytes"
	"errors"
	"io"
	"io/ioutil"

	"github.com/CloudyKit/jet/v6"
)

// stubLoader honours the Loader contract for a single path: it has the path or not.
type stubLoader struct {
	has     bool
	content string
	opened  int
}

func (s *stubLoader) Exists(p string) bool { return s.has && p == "/t.jet" }
func (s *stubLoader) Open(p string) (io.ReadCloser, error) {
	s.opened++
	if s.has && p == "/t.jet" {
		return ioutil.NopCloser(bytes.NewReader([]byte(s.content))), nil
	}
	return nil, errors.New("missing")
}

// H_C19_multi: a stack of up to 3 loaders with symbolic has-flags and distinct contents,
// built by NewLoader and AddLoaders in a symbolic split: Exists is true iff some loader
// has the path, and Open returns the content of the FIRST loader (construction order)
// that has it.
//
//gosym:reach found,none
func H_C19_multi() {
	n := ndChoice("n", 4)
	split := ndChoice("split", n+1)
	var ls []jet.Loader
	var stubs []*stubLoader
	for i := 0; i < n; i++ {
		s := &stubLoader{has: ndBool("has" + ndItoa(i)), content: "c" + ndItoa(i)}
		stubs = append(stubs, s)
		ls = append(ls, s)
	}
	m := NewLoader(ls[:split]...)
	m.AddLoaders(ls[split:]...)
	first := -1
	for i := 0; i < n; i++ {
		if stubs[i].has {
			first = i
			break
		}
	}
	ex := m.Exists("/t.jet")
	vfAssert(ex == (first >= 0), "Exists iff some loader has the path")
	f, err := m.Open("/t.jet")
	if first >= 0 {
		vfReach("found")
		vfAssert(err == nil, "Open succeeds when a loader has the path")
		if err == nil {
			b, _ := ioutil.ReadAll(f)
			vfAssert(string(b) == "c"+ndItoa(first), "Open answers from the first loader that has the path")
		}
	} else {
		vfReach("none")
		vfAssert(err != nil, "Open fails when no loader has the path")
	}
	vfAssert(!m.Exists("/other"), "unknown path does not exist")
	m.ClearLoaders()
	vfAssert(!m.Exists("/t.jet"), "cleared stack has nothing")
}

// H_C19_multiShared: two Multi loaders built from the same slice of loaders; one of them
// is cleared and refilled (symbolic sequence of ClearLoaders / AddLoaders): the other keeps
// answering from its own loaders in construction order.
//
//gosym:reach checked
func H_C19_multiShared() {
	a := &stubLoader{has: true, content: "a"}
	b := &stubLoader{has: true, content: "b"}
	c := &stubLoader{has: true, content: "c"}
	stack := []jet.Loader{a, b}
	m1 := NewLoader(stack...)
	m2 := NewLoader(stack...)
	steps := ndChoice("steps", 3)
	for k := 0; k <= steps; k++ {
		switch ndChoice("op"+ndItoa(k), 3) {
		case 0:
			m1.ClearLoaders()
		case 1:
			m1.AddLoaders(c)
		default:
			m1.AddLoaders(c, b)
		}
	}
	vfReach("checked")
	f, err := m2.Open("/t.jet")
	vfAssert(err == nil, "the untouched stack still finds the file")
	if err == nil {
		data, _ := ioutil.ReadAll(f)
		vfAssert(string(data) == "a", "the untouched stack still answers from its own first loader")
	}
	vfAssert(len(stack) == 2 && stack[0] == jet.Loader(a) && stack[1] == jet.Loader(b), "the caller's slice is not modified")
}

// H_C19_multiReal: stacks that contain a real directory-rooted loader (the OS loader over
// /repo/testData/resolve) next to an in-memory loader, in both orders, queried with files,
// directories ("/sub", "/"), nested files and missing entries: Exists is true exactly when
// some loader of the stack has the path as a template (a directory never is one), and then
// Open yields the content of the first loader that has it.
//
//gosym:reach found,none,directory
func H_C19_multiReal() {
	vfOSRoot("/repo", "/repo")
	paths := []string{"/simple.jet", "/sub", "/", "/sub/extend", "/nope.jet", "/mem.jet", "/sub/", "/simple"}
	p := paths[ndChoice("path", len(paths))]
	osFirst := ndBool("osFirst")
	mem := jet.NewInMemLoader()
	mem.Set("/mem.jet", "MEM")
	memHasSimple := ndBool("memHasSimple")
	if memHasSimple {
		mem.Set("/simple.jet", "MEMSIMPLE")
	}
	osl := jet.NewOSFileSystemLoader("/repo/testData/resolve")
	var m *Multi
	if osFirst {
		m = NewLoader(osl, mem)
	} else {
		m = NewLoader(mem, osl)
	}
	inOS := osl.Exists(p)
	inMem := mem.Exists(p)
	got := m.Exists(p)
	if p == "/sub" || p == "/" || p == "/sub/" {
		vfReach("directory")
		vfAssert(!got, "a directory is never reported as an existing template")
	}
	vfAssert(got == (inOS || inMem), "Exists is true iff some loader of the stack has the path")
	if !got {
		vfReach("none")
		return
	}
	vfReach("found")
	f, err := m.Open(p)
	vfAssert(err == nil, "whenever Exists(p) is true, Open(p) succeeds")
	if err != nil {
		return
	}
	b, rerr := ioutil.ReadAll(f)
	f.Close()
	vfAssert(rerr == nil, "... and the content is readable")
	first := mem
	var want string
	if (osFirst && inOS) || !inMem {
		want = vfFileContent("/repo/testData/resolve" + p)
	} else {
		ff, _ := first.Open(p)
		wb, _ := ioutil.ReadAll(ff)
		want = string(wb)
	}
	vfNote(string(b))
	vfAssert(string(b) == want, "Open yields the content of the first loader that has the path")
}

// H_C19_multiHistory: a stack of two in-memory loaders under histories of three steps -
// either loader gains, changes or loses the path, the stack is cleared and rebuilt in the
// other order - with Exists and Open asked after every step: the multi loader always
// answers from the first loader, in the CURRENT construction order, that has the path at
// that moment (nothing about earlier answers is remembered), and an empty stack has nothing.
//
//gosym:reach found,none
func H_C19_multiHistory() {
	a, b := jet.NewInMemLoader(), jet.NewInMemLoader()
	m := NewLoader(a, b)
	order := []*jet.InMemLoader{a, b}
	content := map[*jet.InMemLoader]string{}
	has := map[*jet.InMemLoader]bool{}
	const p = "/page.jet"
	for s := 0; s < 3; s++ {
		tag := "s" + ndItoa(s)
		switch ndChoice(tag+".op", 7) {
		case 0:
			a.Set(p, "A"+tag)
			has[a], content[a] = true, "A"+tag
		case 1:
			b.Set(p, "B"+tag)
			has[b], content[b] = true, "B"+tag
		case 2:
			a.Delete(p)
			has[a] = false
		case 3:
			b.Delete(p)
			has[b] = false
		case 4:
			m.ClearLoaders()
			m.AddLoaders(b, a)
			order = []*jet.InMemLoader{b, a}
		case 5:
			m.ClearLoaders()
			order = nil
		default: // no change: just another query
		}
		want, found := "", false
		for _, l := range order {
			if has[l] {
				want, found = content[l], true
				break
			}
		}
		got := m.Exists(p)
		vfAssert(got == found, "Exists is true iff a loader of the current stack has the path now")
		f, err := m.Open(p)
		if !found {
			vfReach("none")
			vfAssert(err != nil, "Open fails when no loader of the current stack has the path")
			continue
		}
		vfReach("found")
		vfAssert(err == nil, "whenever Exists(p) is true, Open(p) succeeds")
		if err == nil {
			bts, _ := ioutil.ReadAll(f)
			f.Close()
			vfAssert(string(bts) == want, "Open yields the content of the first loader, in the current order, that has the path")
		}
	}
}

// H_C19_multiNested: a stack whose first element is itself a Multi loader (over in-memory
// loader a) followed by in-memory loader b, under histories of three steps that edit the
// files, add a third loader c to the NESTED stack, or clear it: the outer stack answers
// from the first loader - in the nested stack's current order, then b - that has the path
// now.
//
//gosym:reach found,none
func H_C19_multiNested() {
	a, b, c := jet.NewInMemLoader(), jet.NewInMemLoader(), jet.NewInMemLoader()
	inner := NewLoader(a)
	m := NewLoader(inner, b)
	innerOrder := []*jet.InMemLoader{a}
	content := map[*jet.InMemLoader]string{}
	has := map[*jet.InMemLoader]bool{}
	const p = "/page.jet"
	for s := 0; s < 3; s++ {
		tag := "s" + ndItoa(s)
		switch ndChoice(tag+".op", 7) {
		case 0:
			a.Set(p, "A"+tag)
			has[a], content[a] = true, "A"+tag
		case 1:
			b.Set(p, "B"+tag)
			has[b], content[b] = true, "B"+tag
		case 2:
			c.Set(p, "C"+tag)
			has[c], content[c] = true, "C"+tag
		case 3:
			a.Delete(p)
			has[a] = false
		case 4:
			inner.AddLoaders(c)
			innerOrder = append(innerOrder, c)
		case 5:
			inner.ClearLoaders()
			innerOrder = nil
		default: // no change: just another query
		}
		want, found := "", false
		for _, l := range append(append([]*jet.InMemLoader{}, innerOrder...), b) {
			if has[l] {
				want, found = content[l], true
				break
			}
		}
		got := m.Exists(p)
		vfAssert(got == found, "Exists is true iff a loader of the current (nested) stack has the path now")
		f, err := m.Open(p)
		if !found {
			vfReach("none")
			vfAssert(err != nil, "Open fails when no loader of the current stack has the path")
			continue
		}
		vfReach("found")
		vfAssert(err == nil, "whenever Exists(p) is true, Open(p) succeeds")
		if err == nil {
			bts, _ := ioutil.ReadAll(f)
			f.Close()
			vfAssert(string(bts) == want, "Open yields the content of the first loader, in the current order, that has the path")
		}
	}
}
