package httpfs

import (
	"bytes"
	"errors"
	"io/fs"
	"io/ioutil"
	"net/http"
	"time"
)

// stubFS is an http.FileSystem with one entry whose kind is symbolic.
type stubFS struct {
	kind    int // 0 missing, 1 regular file, 2 directory
	content string
	asked   []string
	closed  int
}

type stubInfo struct{ dir bool }

func (s stubInfo) Name() string       { return "e" }
func (s stubInfo) Size() int64        { return 0 }
func (s stubInfo) Mode() fs.FileMode  { return 0 }
func (s stubInfo) ModTime() time.Time { return time.Time{} }
func (s stubInfo) IsDir() bool        { return s.dir }
func (s stubInfo) Sys() interface{}   { return nil }

type stubFile struct {
	*bytes.Reader
	fs  *stubFS
	dir bool
}

func (f *stubFile) Close() error                             { f.fs.closed++; return nil }
func (f *stubFile) Readdir(count int) ([]fs.FileInfo, error) { return nil, nil }
func (f *stubFile) Stat() (fs.FileInfo, error)               { return stubInfo{f.dir}, nil }

func (s *stubFS) Open(name string) (http.File, error) {
	s.asked = append(s.asked, name)
	if name != "/sub/e" || s.kind == 0 {
		return nil, errors.New("not found")
	}
	return &stubFile{Reader: bytes.NewReader([]byte(s.content)), fs: s, dir: s.kind == 2}, nil
}

// H_C19_httpfs: the http.FileSystem loader over a file system whose entry at the queried
// clean absolute path is (symbolically) missing, a regular file or a directory: Exists is
// true exactly for the regular file, Open is given exactly the path Exists was given and
// yields the stored content, and every file opened by Exists is closed again.
//
//gosym:reach missing,file,dir
func H_C19_httpfs() {
	s := &stubFS{kind: ndChoice("kind", 3), content: ndString("content", 2)}
	l, err := NewLoader(s)
	vfAssert(err == nil, "loader constructed")
	if err != nil {
		return
	}
	ex := l.Exists("/sub/e")
	for _, a := range s.asked {
		vfAssert(a == "/sub/e", "the file system is asked for exactly the given path")
	}
	opened := len(s.asked)
	vfAssert(s.closed == opened || s.kind == 0, "files opened by Exists are closed")
	switch s.kind {
	case 0:
		vfReach("missing")
		vfAssert(!ex, "a missing entry does not exist")
	case 1:
		vfReach("file")
		vfAssert(ex, "a regular file exists")
		f, err := l.Open("/sub/e")
		vfAssert(err == nil, "Open succeeds")
		if err == nil {
			b, _ := ioutil.ReadAll(f)
			vfAssert(string(b) == s.content, "Open yields exactly the stored content")
		}
	default:
		vfReach("dir")
		vfAssert(!ex, "a directory is never reported as a template")
	}
	vfAssert(!l.Exists("/nope"), "unknown path does not exist")
}

// H_C19_httpfs_nil: NewLoader(nil) is rejected.
func H_C19_httpfs_nil() {
	l, err := NewLoader(nil)
	vfAssert(err != nil && l == nil, "nil file system rejected")
}

// H_C19_httpfs_history: one loader over a file system that changes between queries: the
// entry's kind (missing, regular file, directory) takes three symbolic values in turn, with
// a query after each change: every answer reflects the file system as it is at the time of
// the query, whatever was answered before.
//
//gosym:reach checked
func H_C19_httpfs_history() {
	s := &stubFS{content: "c"}
	l, err := NewLoader(s)
	vfAssert(err == nil, "loader constructed")
	if err != nil {
		return
	}
	for step := 0; step < 3; step++ {
		s.kind = ndChoice("kind"+string(rune('0'+step)), 3)
		ex := l.Exists("/sub/e")
		vfAssert(ex == (s.kind == 1), "Exists reports the entry as it is now: true exactly for a regular file")
		if ex {
			f, err := l.Open("/sub/e")
			vfAssert(err == nil, "whenever Exists is true, Open succeeds")
			if err == nil {
				b, _ := ioutil.ReadAll(f)
				vfAssert(string(b) == "c", "and yields the content")
			}
		}
	}
	vfReach("checked")
}
