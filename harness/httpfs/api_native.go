package httpfs

import (
	"encoding/json"
	"math"
	"os"
	"path/filepath"
	"runtime"
	"sort"
	"time"
)

// vfListTree lists the directory tree below root as it is on disk: slash-separated paths
// relative to root with a leading "/", directories with a trailing "/" (the root itself
// is "/"). Inside the engine the same listing is produced by the engine (not by the os
// model), so it is an independent reference for what a file-system loader should report.
func vfListTree(root string) []string {
	// links are listed as what they lead to: a link to a file as a file, a link to a
	// directory as a directory (and descended into), a dangling link not at all
	out := []string{"/"}
	var rec func(dir, rel string, links int)
	rec = func(dir, rel string, links int) {
		ents, err := os.ReadDir(dir)
		if err != nil {
			return
		}
		for _, de := range ents {
			p, r := filepath.Join(dir, de.Name()), rel+"/"+de.Name()
			info, err := os.Stat(p)
			if err != nil {
				continue
			}
			if !info.IsDir() {
				out = append(out, r)
				continue
			}
			out = append(out, r+"/")
			l := links
			if de.Type()&os.ModeSymlink != 0 {
				l++
			}
			if l <= 2 {
				rec(p, r, l)
			}
		}
	}
	if info, err := os.Stat(root); err != nil || !info.IsDir() {
		return nil
	}
	rec(root, "", 0)
	sort.Strings(out)
	return out
}

// vfFileContent returns the bytes of a file on disk (reference for Open).
func vfFileContent(p string) string {
	b, _ := os.ReadFile(p)
	return string(b)
}

func ndLiveGoroutines() int {
	for k := 0; k < 20; k++ {
		runtime.Gosched()
		if runtime.NumGoroutine() <= vfBaseGoroutines+1 {
			break
		}
		time.Sleep(5 * time.Millisecond)
	}
	n := runtime.NumGoroutine() - vfBaseGoroutines - 1
	if n < 0 {
		n = 0
	}
	return n
}

var ndModelMap map[string]uint64

func ndModel(name string) uint64 {
	if ndModelMap == nil {
		ndModelMap = map[string]uint64{}
		if p := os.Getenv("GOSYM_MODEL"); p != "" {
			b, err := os.ReadFile(p)
			if err == nil {
				var raw struct {
					Model map[string]uint64 `json:"model"`
				}
				if json.Unmarshal(b, &raw) == nil && raw.Model != nil {
					ndModelMap = raw.Model
				}
			}
		}
	}
	return ndModelMap[name]
}

func ndFloatFromBits(b uint64) float64 { return math.Float64frombits(b) }
