package utils

import (
	"reflect"

	"github.com/CloudyKit/jet/v6"
)

// ---- C20: utils.Walk visits every statement and expression node once and never panics ----

// c20Fragments: template fragments covering every statement and expression form the
// grammar produces, including the optional parts the parser leaves nil.
var c20Fragments = []string{
	`text`,
	`{{ x }}`,
	`{{ .Field.Sub }}`,
	`{{ a.b.c }}`,
	`{{ f(1, "s", true, nil) }}`,
	`{{ x | f: 1 | raw }}`,
	`{{ x | f(1, _) }}`,
	`{{ a := 1 }}{{ a, b = 1, 2 }}{{ _ := f() }}`,
	`{{ v, ok := m["k"] }}`,
	`{{ if a }}A{{ end }}`,
	`{{ if x := 1; x }}A{{ else if b }}B{{ else }}C{{ end }}`,
	`{{ range s }}x{{ end }}`,
	`{{ range i, v := s }}{{ i }}{{ else }}E{{ end }}`,
	`{{ range v = s }}{{ end }}`,
	`{{ block b(p, q=1) ctx }}body{{ content }}default{{ end }}`,
	`{{ block c() }}{{ yield content }}{{ end }}`,
	`{{ yield b(q=2) }}`,
	`{{ yield b(p=1) ctx content }}cc{{ yield content ctx }}{{ end }}`,
	`{{ include "x.jet" }}`,
	`{{ include "x.jet" ctx }}`,
	`{{ try }}{{ f() }}{{ end }}`,
	`{{ try }}{{ f() }}{{ catch }}c{{ end }}`,
	`{{ try }}{{ f() }}{{ catch e }}{{ e }}{{ end }}`,
	`{{ return x + 1 }}`,
	`{{ a + b * c - d / e % g }}`,
	`{{ -a }}{{ +a }}`,
	`{{ a < b && c >= d || !e }}`,
	`{{ a == b != c }}`,
	`{{ a ? b : c ? d : e }}`,
	`{{ s[1] }}{{ m["k"].f }}`,
	`{{ s[1:2] }}{{ s[:2] }}{{ s[1:] }}{{ s[:] }}`,
	`{{ not a and b or c }}`,
	`{{ (a + b) * c }}`,
	`{{ isset(a.b[0]) }}`,
	`{{ 'c' }}{{ 1.5 }}{{ "q" }}`,
	// clauses outside their construct: whatever the parser accepts, Walk must handle
	`{{ catch }}a{{ end }}`,
	`{{ if a }}{{ catch e }}a{{ end }}{{ end }}`,
	`{{ if a }}x{{ else }}y{{ else }}z{{ end }}`,
	`{{ if a }}{{ content }}{{ end }}`,
	`{{ range s }}{{ content }}{{ end }}`,
}

// c20Children is the reference: the direct child nodes of n, from the AST's exported
// fields (catch clauses are flattened into their try statement; nil fields skipped).
func c20Children(n jet.Node) []jet.Node {
	var out []jet.Node
	add := func(c jet.Node) {
		if c != nil && !reflect.ValueOf(c).IsNil() {
			out = append(out, c)
		}
	}
	params := func(l *jet.BlockParameterList) {
		if l != nil {
			for _, p := range l.List {
				if p.Expression != nil {
					add(p.Expression)
				}
			}
		}
	}
	bin := func(l, r jet.Expression) { add(l); add(r) }
	switch n := n.(type) {
	case *jet.ListNode:
		for _, c := range n.Nodes {
			add(c)
		}
	case *jet.ActionNode:
		if n.Set != nil {
			add(n.Set)
		}
		if n.Pipe != nil {
			add(n.Pipe)
		}
	case *jet.PipeNode:
		for _, c := range n.Cmds {
			add(c)
		}
	case *jet.CommandNode:
		add(n.BaseExpr)
		for _, c := range n.Exprs {
			add(c)
		}
	case *jet.ChainNode:
		add(n.Node)
	case *jet.SetNode:
		for _, c := range n.Left {
			add(c)
		}
		for _, c := range n.Right {
			add(c)
		}
	case *jet.IfNode:
		if n.Set != nil {
			add(n.Set)
		}
		add(n.Expression)
		add(n.List)
		if n.ElseList != nil {
			add(n.ElseList)
		}
	case *jet.RangeNode:
		if n.Set != nil {
			add(n.Set)
		}
		add(n.Expression)
		add(n.List)
		if n.ElseList != nil {
			add(n.ElseList)
		}
	case *jet.BlockNode:
		params(n.Parameters)
		add(n.Expression)
		add(n.List)
		if n.Content != nil {
			add(n.Content)
		}
	case *jet.YieldNode:
		params(n.Parameters)
		add(n.Expression)
		if n.Content != nil {
			add(n.Content)
		}
	case *jet.IncludeNode:
		add(n.Name)
		add(n.Context)
	case *jet.TryNode:
		add(n.List)
		if n.Catch != nil {
			if n.Catch.Err != nil {
				add(n.Catch.Err)
			}
			if n.Catch.List != nil {
				add(n.Catch.List)
			}
		}
	case *jet.ReturnNode:
		add(n.Value)
	case *jet.AdditiveExprNode:
		bin(n.Left, n.Right)
	case *jet.MultiplicativeExprNode:
		bin(n.Left, n.Right)
	case *jet.ComparativeExprNode:
		bin(n.Left, n.Right)
	case *jet.NumericComparativeExprNode:
		bin(n.Left, n.Right)
	case *jet.LogicalExprNode:
		bin(n.Left, n.Right)
	case *jet.NotExprNode:
		add(n.Expr)
	case *jet.TernaryExprNode:
		add(n.Boolean)
		add(n.Left)
		add(n.Right)
	case *jet.CallExprNode:
		add(n.BaseExpr)
		for _, c := range n.Exprs {
			add(c)
		}
	case *jet.IndexExprNode:
		add(n.Base)
		add(n.Index)
	case *jet.SliceExprNode:
		add(n.Base)
		add(n.Index)
		add(n.EndIndex)
	}
	return out
}

func c20All(n jet.Node, acc *[]jet.Node) {
	*acc = append(*acc, n)
	for _, c := range c20Children(n) {
		c20All(c, acc)
	}
}

type c20Visitor struct {
	seen   []jet.Node
	nils   int
	budget int
}

func (v *c20Visitor) Visit(vc VisitorContext, n jet.Node) {
	if n == nil || reflect.ValueOf(n).IsNil() {
		v.nils++
		return
	}
	v.budget--
	if v.budget < 0 {
		panic("Walk does not terminate")
	}
	v.seen = append(v.seen, n)
	vc.Visit(n)
}

// H_C20_mutated: every fragment with one byte replaced by an arbitrary byte at every offset
// (quick: the first 12 fragments; thorough: all, and also nested in a range body):
// whatever the parser accepts, Walk handles - same assertions as H_C20_walk.
//
//gosym:reach walked,rejected
//gosym:opts maxpaths=600000
func H_C20_mutated() {
	nf := 12
	if vfTier() == 1 {
		nf = len(c20Fragments)
	}
	fi := ndChoice("frag", nf+1)
	if fi == nf {
		// (quick: plus the ternary fragment, whose operands are single bytes)
		for k, fr := range c20Fragments {
			if fr == "{{ a ? b : c ? d : e }}" {
				fi = k
			}
		}
		vfAssume(fi < len(c20Fragments))
	}
	f := c20Fragments[fi]
	k := ndChoice("at", len(f))
	src := f[:k] + ndString("m", 1) + f[k+1:]
	if vfTier() == 1 && ndChoice("nest", 2) == 1 {
		src = `{{ range r }}` + src + `{{ end }}`
	}
	l := jet.NewInMemLoader()
	l.Set("/x.jet", "x")
	set := jet.NewSet(l)
	t, err := set.Parse("/t.jet", src)
	if err != nil {
		vfReach("rejected")
		return
	}
	c20Check(t)
}

// H_C20_walk: for every pair of fragments (symbolic choice), concatenated and also nested
// (the second inside an if body inside a range body), Walk with a visitor that descends
// through VisitorContext.Visit: no panic, terminates, never hands the visitor a nil node,
// and the visited nodes are exactly the nodes of the tree (reference traversal over the
// exported AST fields), each once.
//
//gosym:reach walked
func H_C20_walk() {
	a := ndChoice("a", len(c20Fragments))
	b := ndChoice("b", len(c20Fragments))
	nest := ndChoice("nest", 2+2*vfTier())
	src := c20Fragments[a] + c20Fragments[b]
	switch nest {
	case 1:
		src = c20Fragments[a] + `{{ range r }}{{ if c }}` + c20Fragments[b] + `{{ end }}{{ end }}`
	case 2: // thorough: inside a block body and its default content
		src = `{{ block z(p=1) ctx }}` + c20Fragments[a] + `{{ content }}` + c20Fragments[b] + `{{ end }}`
	case 3: // thorough: inside try and catch bodies, below an else branch
		src = `{{ if c }}x{{ else }}{{ try }}` + c20Fragments[a] + `{{ catch e }}` + c20Fragments[b] + `{{ end }}{{ end }}`
	}
	l := jet.NewInMemLoader()
	l.Set("/x.jet", "x")
	set := jet.NewSet(l)
	t, err := set.Parse("/t.jet", src)
	if err != nil {
		// the last five fragments are structural mistakes the parser may reject; a block
		// definition inside a block body, or a {{content}} fragment in a position where the
		// enclosing construct does not take one, likewise
		vfAssert(nest >= 2 || a >= len(c20Fragments)-5 || b >= len(c20Fragments)-5, "fragment parses")
		return
	}
	c20Check(t)
}

// c20Check: Walk over a parsed template against the reference traversal.
func c20Check(t *jet.Template) {
	v := &c20Visitor{budget: 5000}
	Walk(t, v)
	vfReach("walked")
	vfAssert(v.nils == 0, "the visitor is never handed a nil node")
	var want []jet.Node
	c20All(t.Root, &want)
	for i := range v.seen {
		for j := 0; j < i; j++ {
			vfAssert(v.seen[i] != v.seen[j], "no node is visited twice (a node is one place of the tree)")
		}
	}
	vfAssert(len(v.seen) == len(want), "every node is visited exactly once")
	if len(v.seen) == len(want) {
		for i := range want {
			vfAssert(v.seen[i] == want[i], "nodes are visited in tree order")
		}
	}
}

// H_C20_deep: trees far deeper and wider than the fragments': a sum / a logical chain of N
// operands (left-nested N deep), N nested if / range / block bodies, N nested parentheses
// and index expressions, a pipeline of N stages and a list of N sibling actions, for N up
// to 150 (200 in the thorough tier): every node is still visited, once, in tree order.
//
//gosym:reach walked
func H_C20_deep() {
	ns := []int{3, 99, 100, 101, 150}
	if vfTier() == 1 {
		ns = append(ns, 200)
	}
	n := ns[ndChoice("n", len(ns))]
	shape := ndChoice("shape", 8)
	rep := func(s string, k int) string {
		out := ""
		for i := 0; i < k; i++ {
			out += s
		}
		return out
	}
	var src string
	switch shape {
	case 0:
		src = `{{ a0` + rep(` + b`, n) + ` }}`
	case 1:
		src = `{{ a0` + rep(` && b`, n) + ` }}`
	case 2:
		src = rep(`{{ if c }}x`, n) + `{{ leaf }}` + rep(`{{ end }}`, n)
	case 3:
		src = rep(`{{ range r }}`, n) + `{{ leaf }}` + rep(`{{ end }}`, n)
	case 4:
		src = `{{ ` + rep(`(`, n) + `leaf` + rep(`)`, n) + ` }}`
	case 5:
		src = `{{ leaf` + rep(`[i]`, n) + ` }}`
	case 6:
		src = `{{ leaf` + rep(` | f`, n) + ` }}`
	default:
		src = rep(`{{ s }}t`, n)
	}
	l := jet.NewInMemLoader()
	set := jet.NewSet(l)
	t, err := set.Parse("/t.jet", src)
	vfAssert(err == nil, "parses")
	if err != nil {
		return
	}
	v := &c20Visitor{budget: 20*n + 100}
	Walk(t, v)
	vfReach("walked")
	var want []jet.Node
	c20All(t.Root, &want)
	vfAssert(v.nils == 0, "the visitor is never handed a nil node")
	vfAssert(len(v.seen) == len(want), "every node is visited exactly once")
	if len(v.seen) == len(want) {
		same := true
		for i := range want {
			if v.seen[i] != want[i] {
				same = false
			}
		}
		vfAssert(same, "nodes are visited in tree order")
	}
}

// H_C20_nearGrammar: spellings just outside the grammar - an operand, argument, bound or
// clause left out where one is required - as a lenient parser might come to accept them:
// whatever IS accepted must be walked like everything else (no nil node handed to the
// visitor, no panic, every node once); what is rejected is not claimed.
//
//gosym:reach rejected
func H_C20_nearGrammar() {
	near := []string{
		`{{ a ?: c }}`, `{{ a ? : c }}`, `{{ a ? b : }}`, `{{ a ? b }}`, `{{ f(a ?: c, d) }}`, `{{ a || }}`, `{{ && a }}`,
		`{{ f(a,) }}`, `{{ f(,a) }}`, `{{ a[] }}`, `{{ a[:] }}`, `{{ a | }}`, `{{ | a }}`, `{{ a. }}`, `{{ x := }}`, `{{ x, y := a }}`,
		`{{ if }}x{{ end }}`, `{{ range }}x{{ end }}`, `{{ range k, := a }}x{{ end }}`, `{{ if a }}x{{ else if }}y{{ end }}`,
		`{{ yield }}`, `{{ yield b }}`, `{{ yield b( }}`, `{{ yield b(a=) }}`, `{{ block b(a=) }}x{{ end }}`, `{{ block }}x{{ end }}`,
		`{{ include }}`, `{{ return }}`, `{{ try }}x{{ catch e f }}y{{ end }}`, `{{ - }}`, `{{ ! }}`, `{{ () }}`, `{{ a ? b : c : d }}`,
	}
	c := ndChoice("case", len(near))
	nest := ndBool("nested")
	src := near[c]
	if nest {
		src = `{{ range r }}{{ if c }}` + src + `{{ end }}{{ end }}`
	}
	l := jet.NewInMemLoader()
	set := jet.NewSet(l)
	t, err := set.Parse("/t.jet", src)
	if err != nil {
		vfReach("rejected")
		return
	}
	c20Check(t)
}
