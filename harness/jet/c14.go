package jet

import (
	"reflect"
	"strings"
)

// ---- C14: pipelines, prefix calls and piped-argument slots are equivalent to plain calls ----

func c14Join3(a, b, c string) string         { return "f(" + a + "," + b + "," + c + ")" }
func c14Join2(a, b string) string            { return "g(" + a + "," + b + ")" }
func c14Join1(a string) string               { return "h(" + a + ")" }
func c14Var(a string, rest ...string) string { return "v(" + a + ";" + strings.Join(rest, ",") + ")" }

type c14Recv struct{ tag string }

func (r c14Recv) M(a, b string) string   { return r.tag + ".M(" + a + "," + b + ")" }
func (r *c14Recv) PM(a, b string) string { return r.tag + ".PM(" + a + "," + b + ")" }

// c14JetFunc records what Arguments.Get / NumOfArguments / IsSet present.
func c14JetFunc(a Arguments) reflect.Value {
	n := a.NumOfArguments()
	s := "j" + ndItoa(n) + "("
	for i := 0; i < n; i++ {
		if i > 0 {
			s += ","
		}
		v := a.Get(i)
		if v.IsValid() && v.Kind() == reflect.String {
			s += v.String()
		} else {
			s += "?"
		}
		if !a.IsSet(i) {
			s += "!"
		}
	}
	// out-of-range accesses are invalid / unset
	if a.Get(n).IsValid() || a.IsSet(n) || a.Get(-1).IsValid() || a.IsSet(-1) {
		s += "#oob"
	}
	return reflect.ValueOf(s + ")")
}

// c14Pairs: each row is a call written in a surface form and the equivalent plain call.
var c14Pairs = [][2]string{
	{`{{ x | h }}`, `{{ h(x) }}`},
	{`{{ x | f: a, b }}`, `{{ f(x, a, b) }}`},
	{`{{ x | f(a, b) }}`, `{{ f(x, a, b) }}`},
	{`{{ x | g(a, _) }}`, `{{ g(a, x) }}`},
	{`{{ x | g(_, a) }}`, `{{ g(x, a) }}`},
	{`{{ x | f(a, _, b) }}`, `{{ f(a, x, b) }}`},
	{`{{ f: x, a, b }}`, `{{ f(x, a, b) }}`},
	{`{{ x | v }}`, `{{ v(x) }}`},
	{`{{ x | v: a, b }}`, `{{ v(x, a, b) }}`},
	{`{{ x | v(a, _, b) }}`, `{{ v(a, x, b) }}`},
	{`{{ x | r.M: a }}`, `{{ r.M(x, a) }}`},
	{`{{ x | r.M(a, _) }}`, `{{ r.M(a, x) }}`},
	{`{{ x | p.PM(a) }}`, `{{ p.PM(x, a) }}`},
	{`{{ x | j }}`, `{{ j(x) }}`},
	{`{{ x | j: a, b }}`, `{{ j(x, a, b) }}`},
	{`{{ x | j(a, _) }}`, `{{ j(a, x) }}`},
	{`{{ x | j(_, a, b) }}`, `{{ j(x, a, b) }}`},
	{`{{ j: x, a }}`, `{{ j(x, a) }}`},
	{`{{ x | h | g: a }}`, `{{ g(h(x), a) }}`},
	{`{{ x | h | g(a, _) | h }}`, `{{ h(g(a, h(x))) }}`},
	{`{{ x | js(undef, _, a) }}`, `{{ js(undef, x, a) }}`},
	{`{{ x | js(a, undef, _) }}`, `{{ js(a, undef, x) }}`},
	{`{{ x | js: undef, a }}`, `{{ js(x, undef, a) }}`},
	{`{{ x | pf }}`, `{{ pf(x) }}`},
	{`{{ x | pf: a }}`, `{{ pf(x, a) }}`},
	{`{{ x | vv }}`, `{{ vv(x) }}`},
	// user functions that shadow built-in names resolve the same way in every position
	{`{{ x | lower }}`, `{{ lower(x) }}`},
	{`{{ x | replace: a, b }}`, `{{ replace(x, a, b) }}`},
	{`{{ x | h | lower }}`, `{{ lower(h(x)) }}`},
	{`{{ a | replace(x, _, b) }}`, `{{ replace(x, a, b) }}`},
}

func c14Vars(x, a, b string) VarMap {
	vars := make(VarMap)
	vars.Set("x", x)
	vars.Set("a", a)
	vars.Set("b", b)
	vars.Set("f", c14Join3)
	vars.Set("g", c14Join2)
	vars.Set("h", c14Join1)
	vars.Set("v", c14Var)
	vars.Set("r", c14Recv{"r"})
	vars.Set("p", &c14Recv{"p"})
	vars.SetFunc("j", c14JetFunc)
	vars.SetFunc("js", c18IsSetPattern)
	vars.Set("pf", func(format string, rest ...interface{}) string { return "pf(" + format + ";" + ndItoa(len(rest)) + ")" })
	vars.Set("vv", func(rest ...string) string { return "vv(" + strings.Join(rest, ",") + ")" })
	vars.Set("lower", func(s string) string { return "myLower(" + s + ")" })
	vars.Set("replace", func(s, a, b string) string { return "myReplace(" + s + "," + a + "," + b + ")" })
	return vars
}

// H_C14_forms: 20 surface forms (piped, prefix-colon, piped with the slot in every
// position, chained) over Go functions (fixed and variadic), methods on values and on
// pointers, and a jet.Func that reports what Arguments presents: each renders exactly what
// the equivalent plain call renders, for symbolic 1-byte argument strings.
//
//gosym:reach rendered
func H_C14_forms() {
	p := ndChoice("pair", len(c14Pairs))
	x, a, b := ndString("x", 1), ndString("a", 1), ndString("b", 1)
	set := hxSet([]Option{WithSafeWriter(nil)}, "/s.jet", c14Pairs[p][0], "/p.jet", c14Pairs[p][1])
	o1, e1 := hxExec(set, "/s.jet", c14Vars(x, a, b), nil)
	o2, e2 := hxExec(set, "/p.jet", c14Vars(x, a, b), nil)
	vfReach("rendered")
	vfAssert(e1 == nil && e2 == nil, "both forms evaluate")
	vfNote(o1)
	vfAssert(o1 == o2, "the surface form is equivalent to the plain call")
	if !hxContains(c14Pairs[p][0], "js") {
		vfAssert(hxContains(o2, x), "the piped value reaches the function")
	}
}

// H_C14_errors: a wrong argument count, an invalid value, two slots, or a slot without a
// piped value is an error (never a panic).
//
//gosym:reach failed
func H_C14_errors() {
	bad := []string{
		`{{ x | f: a }}`, `{{ x | f(a, b, a) }}`, `{{ f(a) }}`, `{{ g(a, nilv) }}`, `{{ nilv | h }}`,
		`{{ x | g(_, _) }}`, `{{ g(a, _) }}`, `{{ r.M(a) }}`, `{{ v() }}`, `{{ x | h(a) }}`,
		`{{ nilv | v(a, _) }}`, `{{ nilv | vv(_) }}`, `{{ mp | vv(a, _) }}`, `{{ nilv | vv }}`, `{{ vv(a, nilv) }}`,
	}
	c := ndChoice("case", len(bad))
	set := hxSet(nil, "/m.jet", bad[c])
	vars := c14Vars("x", "a", "b")
	vars.Set("nilv", nil)
	vars.Set("mp", map[string]int{})
	_, err := hxExec(set, "/m.jet", vars, nil)
	vfReach("failed")
	vfAssert(err != nil, "a malformed call is an error")
}

// H_C14_conversion: arguments are converted to the Go parameter types, variadic tails
// included: int -> float64, int -> int32 (wrapping), float64 -> int (truncating), for
// symbolic argument values; the function records what it received.
//
//gosym:reach called
func H_C14_conversion() {
	n := ndInt64("n")
	fv := ndFloat64("f")
	vfAssume(fv > -1e15 && fv < 1e15)
	var gotF float64
	var gotI32 int32
	var gotI int
	var gotTail []float64
	vars := make(VarMap)
	vars.Set("n", n)
	vars.Set("fv", fv)
	vars.Set("wantF", func(f float64) string { gotF = f; return "" })
	vars.Set("wantI32", func(i int32) string { gotI32 = i; return "" })
	vars.Set("wantI", func(i int) string { gotI = i; return "" })
	vars.Set("wantTail", func(s string, fs ...float64) string { gotTail = fs; return "" })
	// the piped value in a slot is converted like an argument written there, in the
	// variadic tail as well
	var slotTail, slotTail2 []float64
	var slotInts []int
	vars.Set("slotTail", func(s string, fs ...float64) string { slotTail = fs; return "" })
	vars.Set("slotTail2", func(fs ...float64) string { slotTail2 = fs; return "" })
	vars.Set("slotInts", func(is ...int) string { slotInts = is; return "" })
	vars.Set("i8", int8(3))
	set := hxSet(nil, "/m.jet", `{{ wantF(n) }}{{ wantI32(n) }}{{ wantI(fv) }}{{ wantTail("s", n, fv) }}{{ n | wantF }}`+
		`{{ n | slotTail("s", _, fv) }}{{ n | slotTail2(_) }}{{ 3 | slotInts(1, _, i8) }}`)
	_, err := hxExec(set, "/m.jet", vars, nil)
	vfReach("called")
	vfAssert(err == nil, "calls succeed")
	vfAssert(len(slotTail) == 2 && slotTail[0] == float64(n) && len(slotTail2) == 1 && slotTail2[0] == float64(n), "a slot in the variadic tail is converted element-wise")
	vfAssert(len(slotInts) == 3 && slotInts[0] == 1 && slotInts[1] == 3 && slotInts[2] == 3, "number literals and small integers in the tail are converted to the element type")
	vfAssert(gotF == float64(n), "int converted to float64")
	vfAssert(gotI32 == int32(n), "int64 converted to int32")
	vfAssert(gotI == int(fv), "float64 converted to int (truncation)")
	vfAssert(len(gotTail) == 2 && gotTail[0] == float64(n) && (gotTail[1] == fv || fv != fv), "variadic tail converted element-wise")
}

type c14Level int
type c14Name string

// H_C14_namedTypes: a value of a defined type (type Level int, type Name string) given to
// a function whose parameter has the underlying type (same kind, not assignable) is
// converted in every surface form - plain, piped, piped with arguments, prefix colon, slot
// - and all forms agree with the plain call; a pointer to the wrong struct type is an
// error (never a panic) in every form.
//
//gosym:reach rendered,rejected
func H_C14_namedTypes() {
	lv := c14Level(ndInt("lv"))
	nm := c14Name(ndString("nm", 1))
	forms := [][2]string{
		{`{{ lvl | describe }}`, `{{ describe(lvl) }}`},
		{`{{ lvl | describe() }}`, `{{ describe(lvl) }}`},
		{`{{ lvl | pair("a") }}`, `{{ pair(lvl, "a") }}`},
		{`{{ lvl | pair: "a" }}`, `{{ pair(lvl, "a") }}`},
		{`{{ "a" | pairR(_, lvl) }}`, `{{ pairR("a", lvl) }}`},
		{`{{ who | up }}`, `{{ up(who) }}`},
		{`{{ who | up | rep: 2 }}`, `{{ rep(up(who), 2) }}`},
		{`{{ who | rep(2) }}`, `{{ rep(who, 2) }}`},
		{`{{ describe: lvl }}`, `{{ describe(lvl) }}`},
		// typed nil values (nil slice, nil map, nil pointer) are valid arguments when piped too
		{`{{ nilSlice | joinN("-") }}`, `{{ joinN(nilSlice, "-") }}`},
		{`{{ nilSlice | joinN: "-" }}`, `{{ joinN(nilSlice, "-") }}`},
		{`{{ nilMap | sizeM }}`, `{{ sizeM(nilMap) }}`},
		{`{{ nilPtr | descP("n:") }}`, `{{ descP(nilPtr, "n:") }}`},
		{`{{ nilSlice | joinN("-") | up }}`, `{{ up(joinN(nilSlice, "-")) }}`},
		{`{{ pa | takesB }}`, `{{ takesB(pa) }}`},
	}
	f := ndChoice("form", len(forms))
	mk := func() VarMap {
		vars := make(VarMap)
		vars.Set("lvl", lv)
		vars.Set("who", nm)
		vars.Set("pa", &c14Recv{"a"})
		vars.Set("describe", func(i int) string { return "L" + ndItoa(i&7) })
		vars.Set("pair", func(i int, s string) string { return "P" + ndItoa(i&7) + s })
		vars.Set("pairR", func(s string, i int) string { return "R" + s + ndItoa(i&7) })
		vars.Set("up", func(s string) string { return "U" + s })
		vars.Set("rep", func(s string, n int) string { return s + "x" + ndItoa(n) })
		vars.Set("takesB", func(p *c06Inner) string { return "B" })
		var ns []string
		var nm map[string]int
		var np *c14Recv
		vars.Set("nilSlice", ns)
		vars.Set("nilMap", nm)
		vars.Set("nilPtr", np)
		vars.Set("joinN", func(parts []string, sep string) string { return "[" + strings.Join(parts, sep) + "]" })
		vars.Set("sizeM", func(m map[string]int) string { return "S" + ndItoa(len(m)) })
		vars.Set("descP", func(p *c14Recv, pre string) string {
			if p == nil {
				return pre + "nil"
			}
			return pre + p.tag
		})
		return vars
	}
	set := hxSet([]Option{WithSafeWriter(nil)}, "/s.jet", forms[f][0], "/p.jet", forms[f][1])
	o1, e1 := hxExec(set, "/s.jet", mk(), nil)
	o2, e2 := hxExec(set, "/p.jet", mk(), nil)
	if f == len(forms)-1 {
		vfReach("rejected")
		vfAssert(e1 != nil && e2 != nil, "an argument that cannot be converted is an error in every form")
		return
	}
	vfReach("rendered")
	vfAssert(e1 == nil && e2 == nil, "a value of a defined type is converted to the parameter's underlying type in every form")
	vfNote(o1)
	vfAssert(o1 == o2, "the surface form is equivalent to the plain call")
}

// H_C14_once: a pipeline is evaluated left to right and calls each stage exactly once;
// when a stage fails (symbolic position) the earlier ones ran once and the later ones not
// at all.
//
//gosym:reach ran
func H_C14_once() {
	failAt := ndChoice("failAt", 5) // 0..3: that stage fails, 4: none
	log := &hxLog{}
	mk := func(name string, k int) Func {
		return func(a Arguments) reflect.Value {
			log.add(name)
			if failAt == k {
				panic(hxErr{"stage " + name})
			}
			return reflect.ValueOf(name)
		}
	}
	set := hxSet(nil, "/m.jet", `{{ s0() | s1 | s2: arg() | s3(arg2(), _) }}`)
	vars := make(VarMap)
	vars.SetFunc("s0", mk("s0", 0))
	vars.SetFunc("s1", mk("s1", 1))
	vars.SetFunc("s2", mk("s2", 2))
	vars.SetFunc("s3", mk("s3", 3))
	vars.SetFunc("arg", mk("arg", 9))
	vars.SetFunc("arg2", mk("arg2", 9))
	_, err := hxExec(set, "/m.jet", vars, nil)
	vfReach("ran")
	// jet.Func stages fetch their arguments lazily (only if they call Get), so only the
	// stage order and multiplicity are asserted
	want := []string{"s0", "s0,s1", "s0,s1,s2", "s0,s1,s2,s3", "s0,s1,s2,s3"}
	vfAssert((err != nil) == (failAt < 4), "error iff a stage failed")
	vfAssert(log.String() == want[failAt], "each stage exactly once, left to right, none after the failing one")
}

// H_C14_builtins: each documented built-in computes what the Go function it exposes
// computes, on symbolic ASCII input.
//
//gosym:reach rendered
func H_C14_builtins() {
	s := ndString("s", 2)
	for i := 0; i < len(s); i++ {
		vfAssume(s[i] < 0x80 && s[i] >= 0x20)
	}
	cases := []string{"lower", "upper", "hasPrefix", "hasSuffix", "repeat", "replace", "split", "trimSpace", "len", "ints", "map", "slice", "array", "html", "url"}
	c := ndChoice("builtin", len(cases))
	var src, want string
	tf := func(b bool) string {
		if b {
			return "true"
		}
		return "false"
	}
	switch cases[c] {
	case "lower":
		src, want = `{{ lower(s) }}`, strings.ToLower(s)
	case "upper":
		src, want = `{{ upper(s) }}`, strings.ToUpper(s)
	case "hasPrefix":
		src, want = `{{ hasPrefix(s, "a") }}`, tf(strings.HasPrefix(s, "a"))
	case "hasSuffix":
		src, want = `{{ hasSuffix(s, "a") }}`, tf(strings.HasSuffix(s, "a"))
	case "repeat":
		src, want = `{{ repeat(s, 2) }}`, strings.Repeat(s, 2)
	case "replace":
		src, want = `{{ replace(s, "a", "bc", -1) }}`, strings.Replace(s, "a", "bc", -1)
	case "split":
		src, want = `{{ range p := split(s, "a") }}[{{ . }}]{{ end }}`, ""
		for _, p := range strings.Split(s, "a") {
			want += "[" + p + "]"
		}
	case "trimSpace":
		src, want = `<{{ trimSpace(s) }}>`, "<"+strings.TrimSpace(s)+">"
	case "len":
		src, want = `{{ len(s) }}{{ len(sl) }}{{ len(m) }}{{ len(pickI()) }}{{ 0 | pickI | len }}{{ len(ptrSl) }}{{ len(str5()) }}`, "2212225"
	case "ints":
		src, want = `{{ range ints(2, 5) }}{{ . }}{{ end }}`, "234"
	case "map":
		src, want = `{{ m2 := map("k", s) }}{{ m2.k }}{{ len(m2) }}`, s+"1"
	case "slice":
		src, want = `{{ s2 := slice(s, "z") }}{{ s2[0] }}{{ s2[1] }}{{ len(s2) }}`, s+"z2"
	case "array":
		src, want = `{{ s2 := array(s, "z") }}{{ s2[0] }}{{ s2[1] }}{{ len(s2) }}`, s+"z2"
	case "html":
		// any ASCII byte, control characters and NUL included: only the five special ones change
		h := ndString("h", 2)
		for i := 0; i < len(h); i++ {
			vfAssume(h[i] < 0x80)
		}
		s = h
		src, want = `{{ html(s) | raw }}|{{ s | html | raw }}`, string(refEscNoNul([]byte(h)))+"|"+string(refEscNoNul([]byte(h)))
	default:
		src, want = `{{ url("a b&c") }}`, "a+b%26c"
	}
	set := hxSet([]Option{WithSafeWriter(nil)}, "/m.jet", src)
	vars := make(VarMap)
	vars.Set("s", s)
	vars.Set("sl", []int{1, 2})
	vars.Set("m", map[string]int{"a": 1})
	vars.Set("pickI", func(...int) interface{} { return []int{7, 8} })
	vars.Set("ptrSl", &[]int{1, 2})
	vars.Set("str5", func() interface{} { return "hello" })
	out, err := hxExec(set, "/m.jet", vars, nil)
	vfReach("rendered")
	vfAssert(err == nil, "renders")
	vfNote(out)
	vfAssert(out == want, "the built-in computes what the Go function it exposes computes")
}

// refEscNoNul: html.EscapeString escapes <, >, &, ' and " (as &#39; and &#34;).
func refEscNoNul(b []byte) []byte {
	var out []byte
	for _, c := range b {
		switch c {
		case '"':
			out = append(out, "&#34;"...)
		case '\'':
			out = append(out, "&#39;"...)
		case '&':
			out = append(out, "&amp;"...)
		case '<':
			out = append(out, "&lt;"...)
		case '>':
			out = append(out, "&gt;"...)
		default:
			out = append(out, c)
		}
	}
	return out
}

// H_C14_argCount: a jet.Func that declares its argument count through
// Arguments.RequireNumOfArguments(min, max) (symbolic small bounds, -1 = unbounded) called
// with 0..3 arguments in plain, piped and slot form: an error exactly when the count
// (piped value included) is outside [min, max].
//
//gosym:reach ok,rejected
func H_C14_argCount() {
	min := ndChoice("min", 4) - 1
	max := ndChoice("max", 5) - 1
	calls := []struct {
		src string
		n   int
	}{
		{`{{ f() }}`, 0}, {`{{ f(1) }}`, 1}, {`{{ f(1, 2) }}`, 2}, {`{{ f: 1, 2, 3 }}`, 3},
		{`{{ 1 | f }}`, 1}, {`{{ 1 | f: 2 }}`, 2}, {`{{ 1 | f(_) }}`, 1}, {`{{ 1 | f(2, _) }}`, 2}, {`{{ 1 | f(2, _, 3) }}`, 3},
	}
	c := ndChoice("call", len(calls))
	set := hxSet(nil, "/m.jet", calls[c].src)
	vars := make(VarMap)
	vars.SetFunc("f", func(a Arguments) reflect.Value {
		a.RequireNumOfArguments("f", min, max)
		return reflect.ValueOf("ok")
	})
	_, err := hxExec(set, "/m.jet", vars, nil)
	n := calls[c].n
	bad := (min >= 0 && n < min) || (max >= 0 && n > max)
	if bad {
		vfReach("rejected")
		vfAssert(err != nil, "a wrong argument count is an error")
	} else {
		vfReach("ok")
		vfAssert(err == nil, "an argument count within the declared range is accepted")
	}
}

// H_C14_writerLast: a SafeWriter stage may only come last (shares the harness of C01).
//
//gosym:reach rejected
func H_C14_writerLast() { H_C01_writerNotLast() }

// c14JSONString is an independent rendering of a printable-ASCII string as encoding/json
// does by default: quoted, '"' and '\\' backslash-escaped, '<', '>' and '&' as \u00XX.
func c14JSONString(s string) string {
	out := `"`
	for i := 0; i < len(s); i++ {
		switch c := s[i]; c {
		case '"':
			out += `\"`
		case '\\':
			out += `\\`
		case '<':
			out += `\u003c`
		case '>':
			out += `\u003e`
		case '&':
			out += `\u0026`
		default:
			out += string([]byte{c})
		}
	}
	return out + `"`
}

// H_C14_json: the json and writeJson built-ins produce what encoding/json produces for a
// string, a slice, a map (keys sorted) and a struct with a tag, in call and piped form, for
// every printable ASCII byte in the data (the operand is handed to the real encoding/json
// by the engine; the reference encoder above is independent of it).
//
//gosym:reach rendered
func H_C14_json() {
	s := ndString("s", 1) + "x"
	vfAssume(s[0] < 0x7f && s[0] >= 0x20)
	q := c14JSONString(s)
	type rec struct {
		Name string
		N    int `json:"n"`
		skip int
	}
	cases := [][2]string{
		{`{{ json(s) }}`, q},
		{`{{ s | json }}`, q},
		{`{{ json(sl) }}`, `[` + q + `,"z"]`},
		{`{{ json(m) }}`, `{"a":2,"b":` + q + `}`},
		{`{{ writeJson(st) }}`, `{"Name":` + q + `,"n":3}` + "\n"},
		{`{{ st | writeJson }}|`, `{"Name":` + q + `,"n":3}` + "\n|"},
		{`{{ json(nilv) }}`, `null`},
	}
	c := ndChoice("form", len(cases))
	set := hxSet([]Option{WithSafeWriter(nil)}, "/j.jet", cases[c][0])
	vars := make(VarMap)
	vars.Set("s", s)
	vars.Set("sl", []string{s, "z"})
	vars.Set("m", map[string]interface{}{"b": s, "a": 2})
	vars.Set("st", rec{s, 3, 9})
	var np *rec
	vars.Set("nilv", np)
	out, err := hxExec(set, "/j.jet", vars, nil)
	vfReach("rendered")
	vfAssert(err == nil, "renders")
	vfNote(out)
	vfAssert(out == cases[c][1], "json / writeJson produce encoding/json's rendering")
}

// H_C14_generated (thorough): pipelines of 1..3 stages generated from the grammar of call
// forms - each stage one of six callees (Go functions of arity 1, 2, 3, a variadic one, a
// value method, a jet.Func) in one of its surface forms (bare, prefix colon with the
// remaining arguments, parenthesised with the piped value implicit first, parenthesised
// with the slot at each argument position) - together with the nested plain call it stands
// for, built alongside: both render the same for symbolic 1-byte argument strings.
//
//gosym:reach rendered
//gosym:thorough-only
//gosym:opts maxpaths=400000 wall=1500
func H_C14_generated() {
	type callee struct {
		name  string
		arity int // number of arguments including the piped one; 0 = variadic (1..3 used)
	}
	callees := []callee{{"h", 1}, {"g", 2}, {"f", 3}, {"v", 0}, {"r.M", 2}, {"j", 0}}
	extras := []string{"a", "b"}
	n := 1 + ndChoice("stages", 3)
	ncallees := len(callees)
	piped, plain := "x", "x"
	for s := 0; s < n; s++ {
		tag := "s" + ndItoa(s)
		c := callees[ndChoice(tag+".callee", ncallees)]
		ar := c.arity
		if ar == 0 {
			ar = 1 + ndChoice(tag+".nargs", 3)
		}
		// argument list of the plain call with the piped value at position pos
		form := ndChoice(tag+".form", 3) // 0 colon / bare, 1 parenthesised implicit, 2 slot
		pos := 0
		if form == 2 {
			pos = ndChoice(tag+".slot", ar)
		}
		var plainArgs, surfArgs []string
		e := 0
		for k := 0; k < ar; k++ {
			if k == pos {
				plainArgs = append(plainArgs, plain)
				if form == 2 {
					surfArgs = append(surfArgs, "_")
				}
				continue
			}
			plainArgs = append(plainArgs, extras[e%2])
			surfArgs = append(surfArgs, extras[e%2])
			e++
		}
		plain = c.name + "(" + strings.Join(plainArgs, ", ") + ")"
		switch {
		case form == 0 && len(surfArgs) == 0:
			piped += " | " + c.name
		case form == 0:
			piped += " | " + c.name + ": " + strings.Join(surfArgs, ", ")
		default:
			piped += " | " + c.name + "(" + strings.Join(surfArgs, ", ") + ")"
		}
	}
	x, a, b := ndString("x", 1), ndString("a", 1), ndString("b", 1)
	set := hxSet([]Option{WithSafeWriter(nil)}, "/s.jet", "{{ "+piped+" }}", "/p.jet", "{{ "+plain+" }}")
	o1, e1 := hxExec(set, "/s.jet", c14Vars(x, a, b), nil)
	o2, e2 := hxExec(set, "/p.jet", c14Vars(x, a, b), nil)
	vfReach("rendered")
	vfNote(piped)
	vfAssert(e1 == nil && e2 == nil, "both forms evaluate")
	vfNote(o1)
	vfAssert(o1 == o2, "the surface form is equivalent to the plain call")
}

// H_C14_parseInto: a jet.Func that reads its arguments with Arguments.ParseInto (as the
// ints built-in does) sees the piped value like any other argument: in every surface form
// (piped with and without a slot, prefix-colon, chained) it computes what the plain call
// computes, for symbolic integer arguments.
//
//gosym:reach rendered
func H_C14_parseInto() {
	x, y := ndInt64("x"), ndInt64("y")
	vfAssume(x > -1000 && x < 1000 && y > -1000 && y < 1000)
	forms := []string{
		`{{ sub(x, y) }}`, `{{ x | sub(y) }}`, `{{ x | sub: y }}`, `{{ y | sub(x, _) }}`, `{{ x | sub(_, y) }}`,
		`{{ sub: x, y }}`, `{{ x | id | sub(y) }}`, `{{ x | sub(y) | id }}`, `{{ x | sub3(y, y) }}`, `{{ x | sub3: y, y }}`,
	}
	f := ndChoice("form", len(forms))
	var got []int64
	vars := make(VarMap)
	vars.Set("x", x)
	vars.Set("y", y)
	vars.SetFunc("sub", func(a Arguments) reflect.Value {
		var p, q int64
		if err := a.ParseInto(&p, &q); err != nil {
			panic(err)
		}
		got = append(got, p, q)
		return reflect.ValueOf("")
	})
	vars.SetFunc("sub3", func(a Arguments) reflect.Value {
		var p, q, r int64
		if err := a.ParseInto(&p, &q, &r); err != nil {
			panic(err)
		}
		got = append(got, p, q+r-y)
		return reflect.ValueOf("")
	})
	vars.Set("id", func(v interface{}) interface{} { return v })
	_, err := hxExec(hxSet(nil, "/m.jet", forms[f]), "/m.jet", vars, nil)
	vfReach("rendered")
	vfAssert(err == nil, "evaluates")
	vfAssert(len(got) == 2 && got[0] == x && got[1] == y, "ParseInto presents the piped value in its position, every argument parsed")
}

// H_C14_rebound: the same parsed pipeline stage is evaluated again with its name bound to
// another function - in a later execution of the cached template (Execute variables), and
// in the next iteration of a range whose variable holds a function: the piped form calls
// the function the name denotes NOW, exactly like the plain call next to it.
//
//gosym:reach rendered
func H_C14_rebound() {
	k1, k2 := ndChoice("first", 3), ndChoice("second", 3)
	fns := []interface{}{
		func(s string) string { return "de:" + s },
		func(s string) string { return "fr:" + s },
		func(s string, more ...string) string { return "v:" + s + strings.Join(more, "") },
	}
	tags := []string{"de:", "fr:", "v:"}
	set := hxSet([]Option{WithSafeWriter(nil)},
		"/m.jet", `{{ "a" | f }}/{{ f("a") }}/{{ "a" | id | f }}/{{ "a" | f | id }}`,
		"/loop.jet", `{{ range i, g := fs }}{{ "a" | g }}={{ g("a") }};{{ end }}`)
	run := func(k int) string {
		vars := make(VarMap)
		vars.Set("f", fns[k])
		vars.Set("id", func(s string) string { return s })
		out, err := hxExec(set, "/m.jet", vars, nil)
		if err != nil {
			return "<error>"
		}
		return out
	}
	o1, o2 := run(k1), run(k2)
	vfReach("rendered")
	w := func(k int) string { t := tags[k] + "a"; return t + "/" + t + "/" + t + "/" + t }
	vfNote(o2)
	vfAssert(o1 == w(k1) && o2 == w(k2), "a later execution calls the function the name is bound to then")
	vars := make(VarMap)
	vars.Set("fs", []interface{}{fns[k1], fns[k2], fns[k1]})
	out, err := hxExec(set, "/loop.jet", vars, nil)
	e := func(k int) string { return tags[k] + "a=" + tags[k] + "a;" }
	vfAssert(err == nil && out == e(k1)+e(k2)+e(k1), "each iteration calls the function the loop variable holds")
}
