package jet

import (
	"reflect"
)

// ---- C04: expressions follow the documented C-like precedence, associativity and typing ----

// c04Capture returns a jet.Func that stores its first argument (as evaluated by jet).
func c04Capture(dst *reflect.Value) Func {
	return func(a Arguments) reflect.Value {
		*dst = a.Get(0)
		return reflect.ValueOf("")
	}
}

// c04EqF is float equality that also holds when both sides are NaN (so that two
// identical symbolic terms compare equal syntactically).
func c04EqF(x, y float64) bool { return vfSameFloat(x, y) }

func c04Int(v reflect.Value) (int64, bool) {
	if v.IsValid() && v.Kind() >= reflect.Int && v.Kind() <= reflect.Int64 {
		return v.Int(), true
	}
	return 0, false
}

func c04Bool(v reflect.Value) (bool, bool) {
	if v.IsValid() && v.Kind() == reflect.Bool {
		return v.Bool(), true
	}
	return false, false
}

// c04IntExprs: integer-valued expressions over int variables a, b, c (and their reference
// in Go, which has the documented C-like grouping).
var c04IntExprs = []struct {
	src string
	ref func(a, b, c int64) int64
	div bool // b or c used as a divisor
}{
	{"a + b * c", func(a, b, c int64) int64 { return a + b*c }, false},
	{"a * b + c", func(a, b, c int64) int64 { return a*b + c }, false},
	{"a - b - c", func(a, b, c int64) int64 { return a - b - c }, false},
	{"a - b + c", func(a, b, c int64) int64 { return a - b + c }, false},
	{"a / b / c", func(a, b, c int64) int64 { return a / b / c }, true},
	{"a / b * c", func(a, b, c int64) int64 { return a / b * c }, true},
	{"a * b / c", func(a, b, c int64) int64 { return a * b / c }, true},
	{"a % b * c", func(a, b, c int64) int64 { return a % b * c }, true},
	{"a - b * c", func(a, b, c int64) int64 { return a - b*c }, false},
	{"a * b - c", func(a, b, c int64) int64 { return a*b - c }, false},
	{"a + b % c", func(a, b, c int64) int64 { return a + b%c }, true},
	{"a % b + c", func(a, b, c int64) int64 { return a%b + c }, true},
	{"-a * b", func(a, b, c int64) int64 { return -a * b }, false},
	{"-a + b", func(a, b, c int64) int64 { return -a + b }, false},
	{"a - -b", func(a, b, c int64) int64 { return a - -b }, false},
	{"a * -b", func(a, b, c int64) int64 { return a * -b }, false},
	{"-a - b * c", func(a, b, c int64) int64 { return -a - b*c }, false},
	{"(a + b) * c", func(a, b, c int64) int64 { return (a + b) * c }, false},
	{"a * (b + c)", func(a, b, c int64) int64 { return a * (b + c) }, false},
	{"a - (b - c)", func(a, b, c int64) int64 { return a - (b - c) }, false},
	{"((a)) + (b)", func(a, b, c int64) int64 { return a + b }, false},
	{"a-b", func(a, b, c int64) int64 { return a - b }, false},
	{"a+b", func(a, b, c int64) int64 { return a + b }, false},
	{"a*b-c", func(a, b, c int64) int64 { return a*b - c }, false},
	{"(a)-b", func(a, b, c int64) int64 { return a - b }, false},
	{"id(a)-b", func(a, b, c int64) int64 { return a - b }, false},
	{"s[0]-b", func(a, b, c int64) int64 { return a - b }, false},
	{"a < b ? a : b", func(a, b, c int64) int64 {
		if a < b {
			return a
		}
		return b
	}, false},
	{"a < b ? a + c : b * c", func(a, b, c int64) int64 {
		if a < b {
			return a + c
		}
		return b * c
	}, false},
	{"a < b ? a : b < c ? b : c", func(a, b, c int64) int64 {
		if a < b {
			return a
		}
		if b < c {
			return b
		}
		return c
	}, false},
	{"a == b ? a < c ? c + a : b : c", func(a, b, c int64) int64 {
		if a == b {
			if a < c {
				return c + a
			}
			return b
		}
		return c
	}, false},
}

// H_C04_intExprs: 31 integer expressions over symbolic int64 variables (all operator
// pairs of the arithmetic levels, unary minus, parentheses, operators without spaces after
// an identifier / call / index / parenthesis, nested ternaries): the value jet computes
// equals Go's value of the same expression (integral arithmetic, truncating / and %,
// wrap-around) for ALL values of a, b, c.
//
//gosym:reach evaluated
func H_C04_intExprs() {
	e := ndChoice("expr", len(c04IntExprs))
	a, b, c := ndInt64("a"), ndInt64("b"), ndInt64("c")
	ex := c04IntExprs[e]
	if ex.div {
		vfAssume(b != 0 && c != 0)
		// keep the divide kernels small enough for the solver: 16-bit operands
		vfAssume(a > -30000 && a < 30000 && b > -30000 && b < 30000 && c > -30000 && c < 30000)
	}
	var got reflect.Value
	set := hxSet(nil, "/m.jet", `{{ cap(`+ex.src+`) }}`)
	vars := make(VarMap)
	vars.Set("a", a)
	vars.Set("b", b)
	vars.Set("c", c)
	vars.Set("s", []int64{a})
	vars.Set("id", func(x int64) int64 { return x })
	vars.SetFunc("cap", c04Capture(&got))
	_, err := hxExec(set, "/m.jet", vars, nil)
	vfReach("evaluated")
	vfAssert(err == nil, "the expression parses and evaluates")
	if err != nil {
		return
	}
	// the ternary with literal operands yields floats for the literal arms: compare as int
	gi, ok := c04Int(got)
	if !ok && got.IsValid() && got.Kind() == reflect.Float64 {
		vfAssert(c04EqF(got.Float(), float64(ex.ref(a, b, c))), "value equals Go's value (float arm)")
		return
	}
	vfAssert(ok, "two integers combine integrally")
	vfAssert(gi == ex.ref(a, b, c), "value equals Go's value of the same expression")
}

var c04BoolExprs = []struct {
	src string
	ref func(a, b, c int64, p, q, r bool) bool
}{
	{"a + b < c", func(a, b, c int64, p, q, r bool) bool { return a+b < c }},
	{"a < b + c", func(a, b, c int64, p, q, r bool) bool { return a < b+c }},
	{"a * b >= c", func(a, b, c int64, p, q, r bool) bool { return a*b >= c }},
	{"a <= b - c", func(a, b, c int64, p, q, r bool) bool { return a <= b-c }},
	{"a > b", func(a, b, c int64, p, q, r bool) bool { return a > b }},
	{"a >= b", func(a, b, c int64, p, q, r bool) bool { return a >= b }},
	{"a < b", func(a, b, c int64, p, q, r bool) bool { return a < b }},
	{"a <= b", func(a, b, c int64, p, q, r bool) bool { return a <= b }},
	{"a == b", func(a, b, c int64, p, q, r bool) bool { return a == b }},
	{"a != b", func(a, b, c int64, p, q, r bool) bool { return a != b }},
	{"a + b == c", func(a, b, c int64, p, q, r bool) bool { return a+b == c }},
	{"a == b + c", func(a, b, c int64, p, q, r bool) bool { return a == b+c }},
	{"a < b == p", func(a, b, c int64, p, q, r bool) bool { return (a < b) == p }},
	{"p == a < b", func(a, b, c int64, p, q, r bool) bool { return p == (a < b) }},
	{"a < b != q", func(a, b, c int64, p, q, r bool) bool { return (a < b) != q }},
	{"p && q || r", func(a, b, c int64, p, q, r bool) bool { return p && q || r }},
	{"p || q && r", func(a, b, c int64, p, q, r bool) bool { return (p || q) && r }}, // jet: && and || share one level, left-assoc
	{"p and q or r", func(a, b, c int64, p, q, r bool) bool { return p && q || r }},
	{"a == b && b == c", func(a, b, c int64, p, q, r bool) bool { return a == b && b == c }},
	{"a < b || b < c", func(a, b, c int64, p, q, r bool) bool { return a < b || b < c }},
	{"a == b || p && q", func(a, b, c int64, p, q, r bool) bool { return (a == b || p) && q }},
	{"!p && q", func(a, b, c int64, p, q, r bool) bool { return !p && q }},
	{"not p or q", func(a, b, c int64, p, q, r bool) bool { return !p || q }},
	{"!p || !q", func(a, b, c int64, p, q, r bool) bool { return !p || !q }},
	{"(p || q) && r", func(a, b, c int64, p, q, r bool) bool { return (p || q) && r }},
	{"p || (q && r)", func(a, b, c int64, p, q, r bool) bool { return p || (q && r) }},
	{"p ? q : r", func(a, b, c int64, p, q, r bool) bool {
		if p {
			return q
		}
		return r
	}},
	{"p && q ? a < b : b < c", func(a, b, c int64, p, q, r bool) bool {
		if p && q {
			return a < b
		}
		return b < c
	}},
	{"a<b", func(a, b, c int64, p, q, r bool) bool { return a < b }},
	{"a==b&&p", func(a, b, c int64, p, q, r bool) bool { return a == b && p }},
}

// H_C04_boolExprs: 30 boolean expressions mixing arithmetic, relational, equality, logical
// (both spellings), not and ternary operators over symbolic ints and bools: comparisons and
// logical operators yield a bool equal to Go's value of the documented grouping
// (arithmetic > relational > equality > logical > ?:; one logical level, left-associative).
//
//gosym:reach evaluated
func H_C04_boolExprs() {
	e := ndChoice("expr", len(c04BoolExprs))
	a, b, c := ndInt64("a"), ndInt64("b"), ndInt64("c")
	p, q, r := ndBool("p"), ndBool("q"), ndBool("r")
	ex := c04BoolExprs[e]
	var got reflect.Value
	set := hxSet(nil, "/m.jet", `{{ cap(`+ex.src+`) }}`)
	vars := make(VarMap)
	vars.Set("a", a)
	vars.Set("b", b)
	vars.Set("c", c)
	vars.Set("p", p)
	vars.Set("q", q)
	vars.Set("r", r)
	vars.SetFunc("cap", c04Capture(&got))
	_, err := hxExec(set, "/m.jet", vars, nil)
	vfReach("evaluated")
	vfAssert(err == nil, "the expression parses and evaluates")
	if err != nil {
		return
	}
	gb, ok := c04Bool(got)
	vfAssert(ok, "comparisons and logical operators yield true or false")
	vfAssert(gb == ex.ref(a, b, c, p, q, r), "value equals Go's value of the documented grouping")
}

// H_C04_typing: typing rules on symbolic operands: int op int is integral; any float
// operand (every numeric literal is one) makes the operation floating point, with the
// integer promoted; string + x concatenates; comparisons across int/float promote.
//
//gosym:reach evaluated
func H_C04_typing() {
	a, b := ndInt64("a"), ndInt64("b")
	f := ndFloat64("f")
	u := ndUint64("u")
	vfAssume(a > -1000000 && a < 1000000 && b > -1000000 && b < 1000000 && u < 1000000)
	cases := []struct {
		src   string
		kind  reflect.Kind
		check func(v reflect.Value) bool
	}{
		{"a + b", reflect.Int64, func(v reflect.Value) bool { return v.Int() == a+b }},
		{"a * b", reflect.Int64, func(v reflect.Value) bool { return v.Int() == a*b }},
		{"a + f", reflect.Float64, func(v reflect.Value) bool { return c04EqF(v.Float(), float64(a)+f) }},
		{"f + a", reflect.Float64, func(v reflect.Value) bool { return c04EqF(v.Float(), f+float64(a)) }},
		{"a * f", reflect.Float64, func(v reflect.Value) bool { return c04EqF(v.Float(), float64(a)*f) }},
		{"a - f", reflect.Float64, func(v reflect.Value) bool { return c04EqF(v.Float(), float64(a)-f) }},
		{"a / f", reflect.Float64, func(v reflect.Value) bool { return c04EqF(v.Float(), float64(a)/f) }},
		{"u + f", reflect.Float64, func(v reflect.Value) bool { return c04EqF(v.Float(), float64(u)+f) }},
		{"u * f", reflect.Float64, func(v reflect.Value) bool { return c04EqF(v.Float(), float64(u)*f) }},
		{"a + 1", reflect.Float64, func(v reflect.Value) bool { return c04EqF(v.Float(), float64(a)+1) }},
		{"a * 2", reflect.Float64, func(v reflect.Value) bool { return c04EqF(v.Float(), float64(a)*2) }},
		{"a / 2", reflect.Float64, func(v reflect.Value) bool { return c04EqF(v.Float(), float64(a)/2) }},
		{"7 / 2", reflect.Float64, func(v reflect.Value) bool { return c04EqF(v.Float(), 3.5) }},
		{"1", reflect.Float64, func(v reflect.Value) bool { return c04EqF(v.Float(), 1) }},
		{"a < f", reflect.Bool, func(v reflect.Value) bool { return v.Bool() == (float64(a) < f) }},
		{"a <= f", reflect.Bool, func(v reflect.Value) bool { return v.Bool() == (float64(a) <= f) }},
		{"a > f", reflect.Bool, func(v reflect.Value) bool { return v.Bool() == (float64(a) > f) }},
		{"a >= f", reflect.Bool, func(v reflect.Value) bool { return v.Bool() == (float64(a) >= f) }},
		{"f < a", reflect.Bool, func(v reflect.Value) bool { return v.Bool() == (f < float64(a)) }},
		{"u < f", reflect.Bool, func(v reflect.Value) bool { return v.Bool() == (float64(u) < f) }},
		{"u >= f", reflect.Bool, func(v reflect.Value) bool { return v.Bool() == (float64(u) >= f) }},
		{"a < 3", reflect.Bool, func(v reflect.Value) bool { return v.Bool() == (float64(a) < 3) }},
		{"a <= b", reflect.Bool, func(v reflect.Value) bool { return v.Bool() == (a <= b) }},
		// any floating-point operand - float32 included, on either side - makes it floating point
		{"a * f32", reflect.Float64, func(v reflect.Value) bool { return c04EqF(v.Float(), float64(a)*1.5) }},
		{"a / f32", reflect.Float64, func(v reflect.Value) bool { return c04EqF(v.Float(), float64(a)/1.5) }},
		{"u * f32", reflect.Float64, func(v reflect.Value) bool { return c04EqF(v.Float(), float64(u)*1.5) }},
		{"f32 * a", reflect.Float64, func(v reflect.Value) bool { return c04EqF(v.Float(), 1.5*float64(a)) }},
		{"a + f32", reflect.Float64, func(v reflect.Value) bool { return c04EqF(v.Float(), float64(a)+1.5) }},
		{"a - f32", reflect.Float64, func(v reflect.Value) bool { return c04EqF(v.Float(), float64(a)-1.5) }},
		{"a < f32", reflect.Bool, func(v reflect.Value) bool { return v.Bool() == (float64(a) < 1.5) }},
		{"i8 * a", reflect.Int64, func(v reflect.Value) bool { return v.Int() == 3*a }},
		{"a * u8", reflect.Int64, func(v reflect.Value) bool { return v.Int() == a*5 }},
		{`"s" + "t"`, reflect.String, func(v reflect.Value) bool { return v.String() == "st" }},
		{`str + "t"`, reflect.String, func(v reflect.Value) bool { return v.String() == "xyt" }},
		{`str + 7`, reflect.String, func(v reflect.Value) bool { return v.String() == "xy7" }},
		{`str + true`, reflect.String, func(v reflect.Value) bool { return v.String() == "xytrue" }},
		// an empty string on the left still concatenates: the result is a string, and the
		// next + (left-associative) concatenates again
		{`estr + i8`, reflect.String, func(v reflect.Value) bool { return v.String() == "3" }},
		{`"" + i8`, reflect.String, func(v reflect.Value) bool { return v.String() == "3" }},
		{`estr + i8 + u8`, reflect.String, func(v reflect.Value) bool { return v.String() == "35" }},
		{`"" + 1 + 2`, reflect.String, func(v reflect.Value) bool { return v.String() == "12" }},
		{`estr + true`, reflect.String, func(v reflect.Value) bool { return v.String() == "true" }},
		{`(p ? "" : "-") + i8 + u8`, reflect.String, func(v reflect.Value) bool { return v.String() == "35" }},
		// logical operators yield a bool whatever their operands are (truthiness as in C05)
		{`a && true`, reflect.Bool, func(v reflect.Value) bool { return v.Bool() == (a != 0) }},
		{`a || false`, reflect.Bool, func(v reflect.Value) bool { return v.Bool() == (a != 0) }},
		{`a && b`, reflect.Bool, func(v reflect.Value) bool { return v.Bool() == (a != 0 && b != 0) }},
		{`a || b`, reflect.Bool, func(v reflect.Value) bool { return v.Bool() == (a != 0 || b != 0) }},
		{`u || false`, reflect.Bool, func(v reflect.Value) bool { return v.Bool() == (u != 0) }},
		{`str || false`, reflect.Bool, func(v reflect.Value) bool { return v.Bool() }},
		{`estr && true`, reflect.Bool, func(v reflect.Value) bool { return !v.Bool() }},
		{`estr || str`, reflect.Bool, func(v reflect.Value) bool { return v.Bool() }},
		{`(a || false) == true`, reflect.Bool, func(v reflect.Value) bool { return v.Bool() == (a != 0) }},
		{`"r=" + (a || false)`, reflect.String, func(v reflect.Value) bool {
			if a != 0 {
				return v.String() == "r=true"
			}
			return v.String() == "r=false"
		}},
		{`!a`, reflect.Bool, func(v reflect.Value) bool { return v.Bool() == (a == 0) }},
		// integer literals beyond int64 (decimal and hex) are numbers like any other
		{`9223372036854775808`, reflect.Float64, func(v reflect.Value) bool { return c04EqF(v.Float(), 9223372036854775808.0) }},
		{`18446744073709551615`, reflect.Float64, func(v reflect.Value) bool { return c04EqF(v.Float(), 18446744073709551615.0) }},
		{`0xFFFFFFFFFFFFFFFF`, reflect.Float64, func(v reflect.Value) bool { return c04EqF(v.Float(), 18446744073709551615.0) }},
		{`9223372036854775807`, reflect.Float64, func(v reflect.Value) bool { return c04EqF(v.Float(), 9223372036854775807.0) }},
		{`9223372036854775808 > a`, reflect.Bool, func(v reflect.Value) bool { return v.Bool() }},
		{`18446744073709551615 / 2 > 9000000000000000000`, reflect.Bool, func(v reflect.Value) bool { return v.Bool() }},
		{`9223372036854775808 ? 1 : 0`, reflect.Float64, func(v reflect.Value) bool { return c04EqF(v.Float(), 1) }},
		// operators written without spaces after identifiers and fields
		{`a<b`, reflect.Bool, func(v reflect.Value) bool { return v.Bool() == (a < b) }},
		{`a<=b`, reflect.Bool, func(v reflect.Value) bool { return v.Bool() == (a <= b) }},
		{`a>b`, reflect.Bool, func(v reflect.Value) bool { return v.Bool() == (a > b) }},
		{`a>=b`, reflect.Bool, func(v reflect.Value) bool { return v.Bool() == (a >= b) }},
		{`a==b`, reflect.Bool, func(v reflect.Value) bool { return v.Bool() == (a == b) }},
		{`a!=b`, reflect.Bool, func(v reflect.Value) bool { return v.Bool() == (a != b) }},
		{`a+b`, reflect.Int64, func(v reflect.Value) bool { return v.Int() == a+b }},
		{`a-b`, reflect.Int64, func(v reflect.Value) bool { return v.Int() == a-b }},
		{`a*b`, reflect.Int64, func(v reflect.Value) bool { return v.Int() == a*b }},
		{`a%i8`, reflect.Int64, func(v reflect.Value) bool { return v.Int() == a%3 }},
		{`a/i8`, reflect.Int64, func(v reflect.Value) bool { return v.Int() == a/3 }},
		{`p&&a<b`, reflect.Bool, func(v reflect.Value) bool { return v.Bool() == (a < b) }},
		{`p||a<b`, reflect.Bool, func(v reflect.Value) bool { return v.Bool() }},
		{`.A<b`, reflect.Bool, func(v reflect.Value) bool { return v.Bool() == (7 < b) }},
		{`.A<=b&&b>=.A`, reflect.Bool, func(v reflect.Value) bool { return v.Bool() == (7 <= b) }},
		{`p?a:b`, reflect.Int64, func(v reflect.Value) bool { return v.Int() == a }},
	}
	c := ndChoice("case", len(cases))
	var got reflect.Value
	set := hxSet(nil, "/m.jet", `{{ cap(`+cases[c].src+`) }}`)
	vars := make(VarMap)
	vars.Set("a", a)
	vars.Set("b", b)
	vars.Set("f", f)
	vars.Set("u", u)
	vars.Set("str", "xy")
	vars.Set("estr", "")
	vars.Set("p", true)
	vars.Set("f32", float32(1.5))
	vars.Set("i8", int8(3))
	vars.Set("u8", uint8(5))
	vars.SetFunc("cap", c04Capture(&got))
	_, err := hxExec(set, "/m.jet", vars, struct{ A int64 }{7})
	vfReach("evaluated")
	vfAssert(err == nil, "evaluates")
	if err != nil {
		return
	}
	vfAssert(got.IsValid() && got.Kind() == cases[c].kind, "result has the documented kind")
	if got.IsValid() && got.Kind() == cases[c].kind {
		vfAssert(cases[c].check(got), "result has Go's value")
	}
}

// H_C04_lazy: &&, || and ?: evaluate only the operands they need.
//
//gosym:reach evaluated
func H_C04_lazy() {
	p := ndBool("p")
	form := ndChoice("form", 4)
	srcs := []string{`{{ p && R() }}`, `{{ p || R() }}`, `{{ p ? A() : B() }}`, `{{ L() && R() || T() }}`}
	log := &hxLog{}
	set := hxSet(nil, "/m.jet", srcs[form])
	vars := make(VarMap)
	vars.Set("p", p)
	vars.SetFunc("R", log.probe("R", true))
	vars.SetFunc("A", log.probe("A", "a"))
	vars.SetFunc("B", log.probe("B", "b"))
	vars.SetFunc("L", log.probe("L", p))
	vars.SetFunc("T", log.probe("T", true))
	_, err := hxExec(set, "/m.jet", vars, nil)
	vfReach("evaluated")
	vfAssert(err == nil, "evaluates")
	var want string
	switch form {
	case 0:
		if p {
			want = "R"
		}
	case 1:
		if !p {
			want = "R"
		}
	case 2:
		want = "B"
		if p {
			want = "A"
		}
	default:
		if p {
			want = "L,R" // (L && R) is true: T is not needed
		} else {
			want = "L,T"
		}
	}
	vfAssert(log.String() == want, "only the operands that are needed are evaluated")
}

// H_C04_signLexing: '-' and '+' directly before a digit are an operator exactly when the
// previous token can end an operand (identifier, field, number, string, char, bool, ')'
// or ']'): X-1 means X - 1 for each such X; after an operator or '(' it signs the number.
//
//gosym:reach evaluated
func H_C04_signLexing() {
	lefts := []string{"a", ".F", "7", "id(a)", "s[0]", "(a)", "d.F", `len("ab")`}
	l := ndChoice("left", len(lefts))
	op := ndChoice("op", 2)
	ops := []string{"-", "+"}
	a := ndInt64("a")
	vfAssume(a > -1000 && a < 1000)
	type dt struct{ F, G int64 }
	mk := func(src string) (reflect.Value, error) {
		var got reflect.Value
		set := hxSet(nil, "/m.jet", `{{ cap(`+src+`) }}`)
		vars := make(VarMap)
		vars.Set("a", a)
		vars.Set("s", []int64{a})
		vars.Set("d", dt{F: a})
		vars.Set("id", func(x int64) int64 { return x })
		vars.SetFunc("cap", c04Capture(&got))
		_, err := hxExec(set, "/m.jet", vars, dt{F: a, G: a})
		return got, err
	}
	tight, e1 := mk(lefts[l] + ops[op] + "1")
	spaced, e2 := mk(lefts[l] + " " + ops[op] + " 1")
	vfReach("evaluated")
	vfAssert(e2 == nil, "the spaced form evaluates")
	vfAssert(e1 == nil, "the form without spaces parses and evaluates")
	if e1 != nil || e2 != nil {
		return
	}
	vfAssert(tight.IsValid() && spaced.IsValid() && tight.Kind() == spaced.Kind(), "same kind")
	if tight.Kind() == reflect.Float64 && spaced.Kind() == reflect.Float64 {
		vfAssert(c04EqF(tight.Float(), spaced.Float()), "an operator written without spaces means the same as with spaces")
	}
}

// H_C04_unarySign: a unary - or + written directly before each kind of operand (variable,
// context field, chain, call, index, parenthesis, number) at the start of an action, after
// '(' , after an operator and after a comma: the value is the negated / unchanged operand
// (unary minus binds tightest), for all values.
//
//gosym:reach evaluated
func H_C04_unarySign() {
	operands := []string{"a", ".F", "d.F", "id(a)", "s[0]", "(a)", ".G"}
	places := []string{"SIGNX", "(SIGNX)", "3 * SIGNX", "b - SIGNX", "id2(b, SIGNX)", "SIGNX * b"}
	o := ndChoice("operand", len(operands))
	pl := ndChoice("place", len(places))
	neg := ndBool("minus")
	a, b := ndInt64("a"), ndInt64("b")
	type dt struct{ F, G int64 }
	sign := "+"
	x := a
	if neg {
		sign, x = "-", -a
	}
	src := ""
	for i := 0; i < len(places[pl]); i++ {
		switch {
		case i+5 <= len(places[pl]) && places[pl][i:i+5] == "SIGNX":
			src += sign + operands[o]
			i += 4
		default:
			src += string(places[pl][i])
		}
	}
	var want int64
	switch pl {
	case 0, 1:
		want = x
	case 2:
		want = 3 * x
	case 3:
		want = b - x
	case 4:
		want = b*1000 + x
	default:
		want = x * b
	}
	var got reflect.Value
	set := hxSet(nil, "/m.jet", `{{ cap(`+src+`) }}`)
	vars := make(VarMap)
	vars.Set("a", a)
	vars.Set("b", b)
	vars.Set("s", []int64{a})
	vars.Set("d", dt{F: a})
	vars.Set("id", func(x int64) int64 { return x })
	vars.Set("id2", func(x, y int64) int64 { return x*1000 + y })
	vars.SetFunc("cap", c04Capture(&got))
	_, err := hxExec(set, "/m.jet", vars, dt{F: a, G: a})
	vfReach("evaluated")
	vfNote(src)
	vfAssert(err == nil, "the expression parses and evaluates")
	if err != nil {
		return
	}
	if pl == 2 && got.IsValid() && got.Kind() == reflect.Float64 {
		// 3 is a literal: floating point
		vfAssert(c04EqF(got.Float(), 3*float64(x)), "value (float arm)")
		return
	}
	gi, ok := c04Int(got)
	vfAssert(ok, "integers combine integrally")
	vfAssert(gi == want, "the unary sign applies to the operand directly after it")
}

// ---- generated expression trees (thorough tier) ----

type c04Node struct {
	op   string // "" for a leaf
	l, r *c04Node
	leaf int  // leaf index in source order
	neg  bool // leaf written with a unary minus
	typ  byte // 'i' or 'b' (result type)
}

var c04BinOps = []string{"*", "/", "%", "+", "-", "<", "<=", ">", ">=", "==", "!=", "&&", "||"}

func c04Prec(op string) int {
	switch op {
	case "*", "/", "%":
		return 6
	case "+", "-":
		return 5
	case "<", "<=", ">", ">=":
		return 4
	case "==", "!=":
		return 3
	}
	return 2 // && || (one level)
}

// c04Shape builds the k-th of the five binary-tree shapes with three operators; leaves are
// numbered in source order.
func c04Shape(k int, o1, o2, o3 string) *c04Node {
	lf := func(i int) *c04Node { return &c04Node{leaf: i} }
	n := func(op string, l, r *c04Node) *c04Node { return &c04Node{op: op, l: l, r: r} }
	switch k {
	case 0: // ((0 o1 1) o2 2) o3 3
		return n(o3, n(o2, n(o1, lf(0), lf(1)), lf(2)), lf(3))
	case 1: // (0 o1 (1 o2 2)) o3 3
		return n(o3, n(o1, lf(0), n(o2, lf(1), lf(2))), lf(3))
	case 2: // (0 o1 1) o2 (2 o3 3)
		return n(o2, n(o1, lf(0), lf(1)), n(o3, lf(2), lf(3)))
	case 3: // 0 o1 ((1 o2 2) o3 3)
		return n(o1, lf(0), n(o3, n(o2, lf(1), lf(2)), lf(3)))
	}
	// 0 o1 (1 o2 (2 o3 3))
	return n(o1, lf(0), n(o2, lf(1), n(o3, lf(2), lf(3))))
}

// c04TypeOf assigns result types bottom-up; want is the type a leaf should take ('i' or
// 'b'); reports false for an ill-typed tree.
func c04TypeOf(t *c04Node, want byte) bool {
	if t.op == "" {
		t.typ = want
		return true
	}
	switch c04Prec(t.op) {
	case 6, 5, 4:
		if !c04TypeOf(t.l, 'i') || !c04TypeOf(t.r, 'i') || t.l.typ != 'i' || t.r.typ != 'i' {
			return false
		}
		t.typ = 'i'
		if c04Prec(t.op) == 4 {
			t.typ = 'b'
		}
	case 3:
		// both sides of one type: an operator child decides, two leaves are ints
		w := byte('i')
		if t.l.op != "" {
			if !c04TypeOf(t.l, 'i') {
				return false
			}
			w = t.l.typ
		} else if t.r.op != "" {
			if !c04TypeOf(t.r, 'i') {
				return false
			}
			w = t.r.typ
		}
		if !c04TypeOf(t.l, w) || !c04TypeOf(t.r, w) || t.l.typ != w || t.r.typ != w {
			return false
		}
		t.typ = 'b'
	default:
		if !c04TypeOf(t.l, 'b') || !c04TypeOf(t.r, 'b') || t.l.typ != 'b' || t.r.typ != 'b' {
			return false
		}
		t.typ = 'b'
	}
	return true
}

// c04Render writes the tree with the fewest parentheses the documented grouping needs
// (style 0), with every operator node parenthesised (style 1) or without any space
// (style 2).
func c04Render(t *c04Node, style int) string {
	if t.op == "" {
		name := string([]byte{"abcd"[t.leaf]})
		if t.typ == 'b' {
			name = string([]byte{"pqrs"[t.leaf]})
		}
		if t.neg {
			return "-" + name
		}
		return name
	}
	side := func(c *c04Node, right bool) string {
		s := c04Render(c, style)
		if c.op == "" {
			return s
		}
		if style == 1 || c04Prec(c.op) < c04Prec(t.op) || (right && c04Prec(c.op) == c04Prec(t.op)) {
			return "(" + s + ")"
		}
		return s
	}
	sp := " "
	if style == 2 {
		sp = ""
	}
	return side(t.l, false) + sp + t.op + sp + side(t.r, true)
}

// c04Eval evaluates the tree directly (this is the documented meaning: the tree IS the
// grouping); divisors are assumed non-zero before they are used.
func c04Eval(t *c04Node, iv []int64, bv []bool) (int64, bool) {
	if t.op == "" {
		if t.typ == 'b' {
			return 0, bv[t.leaf]
		}
		if t.neg {
			return -iv[t.leaf], false
		}
		return iv[t.leaf], false
	}
	li, lb := c04Eval(t.l, iv, bv)
	ri, rb := c04Eval(t.r, iv, bv)
	switch t.op {
	case "*":
		return li * ri, false
	case "/":
		vfAssume(ri != 0)
		return li / ri, false
	case "%":
		vfAssume(ri != 0)
		return li % ri, false
	case "+":
		return li + ri, false
	case "-":
		return li - ri, false
	case "<":
		return 0, li < ri
	case "<=":
		return 0, li <= ri
	case ">":
		return 0, li > ri
	case ">=":
		return 0, li >= ri
	case "==":
		if t.l.typ == 'b' {
			return 0, lb == rb
		}
		return 0, li == ri
	case "!=":
		if t.l.typ == 'b' {
			return 0, lb != rb
		}
		return 0, li != ri
	case "&&":
		return 0, lb && rb
	}
	return 0, lb || rb
}

func c04HasDiv(t *c04Node) bool {
	if t.op == "" {
		return false
	}
	return t.op == "/" || t.op == "%" || c04HasDiv(t.l) || c04HasDiv(t.r)
}

// H_C04_trees (thorough): every well-typed expression tree with three binary operators
// drawn from all 13 (5 shapes x 13^3 operator triples, ill-typed ones dropped) over int
// leaves a..d and bool leaves p..s with symbolic values, an optional unary minus on one int
// leaf, written (0) with exactly the parentheses the documented precedence and left
// associativity require, (1) fully parenthesised, (2) minimal and without spaces: jet's
// value equals the direct evaluation of the tree for all leaf values. Operands are 16-bit
// when the tree divides (solver cost) and divisors non-zero.
//
//gosym:reach evaluated
//gosym:thorough-only
//gosym:opts maxpaths=400000 wall=1500
func H_C04_trees() {
	o1 := c04BinOps[ndChoice("o1", len(c04BinOps))]
	o2 := c04BinOps[ndChoice("o2", len(c04BinOps))]
	o3 := c04BinOps[ndChoice("o3", len(c04BinOps))]
	t := c04Shape(ndChoice("shape", 5), o1, o2, o3)
	vfAssume(c04TypeOf(t, 'i'))
	style := ndChoice("style", 3)
	// unary minus on one int leaf (not in the no-space style, where "--" would arise)
	if style != 2 {
		if k := ndChoice("neg", 5); k < 4 {
			var find func(n *c04Node) *c04Node
			find = func(n *c04Node) *c04Node {
				if n.op == "" {
					if n.leaf == k {
						return n
					}
					return nil
				}
				if x := find(n.l); x != nil {
					return x
				}
				return find(n.r)
			}
			lf := find(t)
			vfAssume(lf.typ == 'i')
			lf.neg = true
		}
	}
	iv := []int64{ndInt64("a"), ndInt64("b"), ndInt64("c"), ndInt64("d")}
	bv := []bool{ndBool("p"), ndBool("q"), ndBool("r"), ndBool("s")}
	if c04HasDiv(t) {
		for _, x := range iv {
			vfAssume(x > -30000 && x < 30000)
		}
	}
	wi, wb := c04Eval(t, iv, bv)
	src := c04Render(t, style)
	var got reflect.Value
	set := hxSet(nil, "/m.jet", `{{ cap(`+src+`) }}`)
	vars := make(VarMap)
	for k := 0; k < 4; k++ {
		vars.Set(string([]byte{"abcd"[k]}), iv[k])
		vars.Set(string([]byte{"pqrs"[k]}), bv[k])
	}
	vars.SetFunc("cap", c04Capture(&got))
	_, err := hxExec(set, "/m.jet", vars, nil)
	vfReach("evaluated")
	vfNote(src)
	vfAssert(err == nil, "the expression parses and evaluates")
	if err != nil {
		return
	}
	if t.typ == 'b' {
		gb, ok := c04Bool(got)
		vfAssert(ok, "comparisons and logical operators yield true or false")
		vfAssert(gb == wb, "value equals the direct evaluation of the tree")
	} else {
		gi, ok := c04Int(got)
		vfAssert(ok, "two integers combine integrally")
		vfAssert(gi == wi, "value equals the direct evaluation of the tree")
	}
}
