package jet

import (
	"bytes"
	"io/ioutil"
	"reflect"
	"sync"
)

// ---- C11: a Set and its templates are safe for concurrent use ----
//
// Decided part: lock discipline on every path. The three pieces of shared mutable state
// reachable from the public API that are plain maps - Set.globals (guarded by Set.gmx),
// the package-level struct-field cache (cachedStructsMutex) and InMemLoader.files (lock) -
// are declared to the engine; every operation that touches them is executed (all paths,
// symbolic choice of operation) and each map access must happen while the guard is held in
// a sufficient mode. Native replay of a finding is a two-goroutine stress run of the same
// operations under the Go race detector.

type c11T1 struct{ F int }
type c11T2 struct{ G string }
type C11Emb struct{ Promoted int }
type c11T3 struct {
	*C11Emb // fields promoted through an embedded pointer take resolveIndex's reflect path
	H int
}

var c11Ops = []string{
	"AddGlobal", "AddGlobalFunc", "LookupGlobal", "exec:global", "exec:missing", "exec:field1", "exec:field2",
	"exec:dump", "exec:dumpName", "exec:isset", "loader.Set", "loader.Delete", "loader.Exists", "loader.Open",
	"GetTemplate", "Parse", "exec:include", "exec:field3", "exec:field3b", "loader.SetSame", "loader.SetShorter", "loader.OpenRead",
}

func c11Do(set *Set, l *InMemLoader, op string) {
	run := func(src string, data interface{}) {
		t, err := set.Parse("/x.jet", src)
		if err == nil {
			var b bytes.Buffer
			t.Execute(&b, nil, data)
		}
	}
	switch op {
	case "AddGlobal":
		set.AddGlobal("g", 1)
	case "AddGlobalFunc":
		set.AddGlobalFunc("gf", hxFail)
	case "LookupGlobal":
		set.LookupGlobal("g")
	case "exec:global":
		run(`{{ g }}`, nil)
	case "exec:missing":
		run(`{{ nope }}`, nil)
	case "exec:field1":
		run(`{{ .F }}`, c11T1{1})
	case "exec:field2":
		run(`{{ .G }}{{ .Nope }}`, &c11T2{"x"})
	case "exec:dump":
		run(`{{ dump() }}`, 1)
	case "exec:dumpName":
		run(`{{ dump("g") }}`, 1)
	case "exec:isset":
		run(`{{ isset(g, .F) }}`, c11T1{1})
	case "loader.Set":
		l.Set("/n.jet", "n")
	case "loader.Delete":
		l.Delete("/t.jet")
	case "loader.Exists":
		l.Exists("/t.jet")
	case "loader.Open":
		if f, err := l.Open("/t.jet"); err == nil {
			f.Close()
		}
	case "GetTemplate":
		set.GetTemplate("/t.jet")
	case "Parse":
		set.Parse("/p.jet", `{{ import "/t.jet" }}x`)
	case "exec:include":
		run(`{{ include "/t.jet" }}`, nil)
	case "exec:field3":
		run(`{{ .Promoted }}{{ .H }}`, c11T3{&C11Emb{1}, 2})
	case "exec:field3b":
		run(`{{ .H }}{{ .Promoted }}{{ .Promoted }}`, &c11T3{&C11Emb{1}, 2})
	case "loader.SetSame":
		l.Set("/t.jet", `{{ g }}`)
	case "loader.SetShorter":
		l.Set("/t.jet", `x`)
	case "loader.OpenRead":
		if f, err := l.Open("/t.jet"); err == nil {
			buf := make([]byte, 4)
			f.Read(buf)
			f.Close()
		}
	}
}

// c11Snapshot: content handed out by Open is a snapshot: an edit of the same path made
// while the reader is still being read (here: between Open and ReadAll) must not change
// what the reader yields. This is the sequential witness of the race "Set rewrites bytes a
// concurrent reader is reading".
func c11Snapshot(l *InMemLoader, next string) bool {
	l.Set("/snap.jet", "0123456789")
	f, err := l.Open("/snap.jet")
	if err != nil {
		return false
	}
	l.Set("/snap.jet", next)
	b, _ := ioutil.ReadAll(f)
	return string(b) == "0123456789"
}

// c11FreshStress (native replay only): first-time field resolution on struct types the
// process has never seen, from several goroutines at once, under the race detector.
func c11FreshStress(set *Set) {
	t, err := set.Parse("/fresh.jet", `{{ .Promoted }}{{ .H }}{{ .Promoted }}`)
	if err != nil {
		return
	}
	emb := reflect.TypeOf(&C11Emb{})
	for k := 0; k < 40; k++ {
		typ := reflect.StructOf([]reflect.StructField{
			{Name: "C11Emb", Type: emb, Anonymous: true},
			{Name: "H", Type: reflect.TypeOf(0)},
			{Name: "Pad" + ndItoa(k), Type: reflect.TypeOf(0)},
		})
		v := reflect.New(typ).Elem()
		v.Field(0).Set(reflect.ValueOf(&C11Emb{1}))
		data := v.Interface()
		var wg sync.WaitGroup
		for g := 0; g < 6; g++ {
			wg.Add(1)
			go func() {
				defer wg.Done()
				for r := 0; r < 3; r++ {
					var b bytes.Buffer
					t.Execute(&b, nil, data)
				}
			}()
		}
		wg.Wait()
	}
}

// H_C11_lockDiscipline: for every operation (symbolic choice of two in sequence) on a Set
// with globals and an in-memory loader: every access to the three guarded maps happens
// with the guard held (write-locked for updates), and no lock is left held afterwards.
//
//gosym:reach done
//gosym:opts maxviol=200
func H_C11_lockDiscipline() {
	l := NewInMemLoader()
	l.Set("/t.jet", `{{ g }}`)
	set := NewSet(l)
	set.AddGlobal("g", 0)
	a := ndChoice("op1", len(c11Ops))
	b := ndChoice("op2", len(c11Ops))
	if vfSymbolic() {
		vfGuardMap("Set.globals", set.globals, set.gmx)
		vfGuardMap("InMemLoader.files", l.files, &l.lock)
		vfGuardMap("cachedStructsFieldIndex", cachedStructsFieldIndex, &cachedStructsMutex)
		c11Do(set, l, c11Ops[a])
		vfAssert(vfLocksHeld() == 0, "no lock is left held")
		c11Do(set, l, c11Ops[b])
		vfAssert(vfLocksHeld() == 0, "no lock is left held")
		vfReach("done")
		vfAssert(c11Snapshot(l, "abc") && c11Snapshot(l, "abcdefghijklmnop"), "content handed out by Open is not rewritten by a later Set")
		return
	}
	vfAssert(c11Snapshot(l, "abc") && c11Snapshot(l, "abcdefghijklmnop"), "content handed out by Open is not rewritten by a later Set")
	if c11Ops[a] == "exec:field3" || c11Ops[b] == "exec:field3" || c11Ops[a] == "exec:field3b" || c11Ops[b] == "exec:field3b" {
		c11FreshStress(set)
	}
	// native replay: the two operations run concurrently, many times, under -race
	var wg sync.WaitGroup
	for _, op := range []string{c11Ops[a], c11Ops[b], c11Ops[a], c11Ops[b]} {
		wg.Add(1)
		go func(op string) {
			defer wg.Done()
			for k := 0; k < 300; k++ {
				c11Do(set, l, op)
			}
		}(op)
	}
	wg.Wait()
}
