package jet

import (
	"bytes"
	"io/ioutil"
	"reflect"
	"sync"
)

// ---- C11: a Set and its templates are safe for concurrent use ----
//
// Decided part: lock discipline on every path. The three pieces of shared mutable state
// reachable from the public API that are plain maps - Set.globals (guarded by Set.gmx),
// the package-level struct-field cache (cachedStructsMutex) and InMemLoader.files (lock) -
// are declared to the engine; every operation that touches them is executed (all paths,
// symbolic choice of operation) and each map access must happen while the guard is held in
// a sufficient mode. Native replay of a finding is a two-goroutine stress run of the same
// operations under the Go race detector.

type c11T1 struct{ F int }
type c11T2 struct{ G string }
type C11Emb struct{ Promoted int }
type c11T3 struct {
	*C11Emb // fields promoted through an embedded pointer take resolveIndex's reflect path
	H       int
}

var c11Ops = []string{
	"AddGlobal", "AddGlobalFunc", "LookupGlobal", "exec:global", "exec:missing", "exec:field1", "exec:field2",
	"exec:dump", "exec:dumpName", "exec:isset", "loader.Set", "loader.Delete", "loader.Exists", "loader.Open",
	"GetTemplate", "Parse", "exec:include", "exec:field3", "exec:field3b", "loader.SetSame", "loader.SetShorter", "loader.OpenRead",
}

func c11Do(set *Set, l *InMemLoader, op string) {
	run := func(src string, data interface{}) {
		t, err := set.Parse("/x.jet", src)
		if err == nil {
			var b bytes.Buffer
			t.Execute(&b, nil, data)
		}
	}
	switch op {
	case "AddGlobal":
		set.AddGlobal("g", 1)
	case "AddGlobalFunc":
		set.AddGlobalFunc("gf", hxFail)
	case "LookupGlobal":
		set.LookupGlobal("g")
	case "exec:global":
		run(`{{ g }}`, nil)
	case "exec:missing":
		run(`{{ nope }}`, nil)
	case "exec:field1":
		run(`{{ .F }}`, c11T1{1})
	case "exec:field2":
		run(`{{ .G }}{{ .Nope }}`, &c11T2{"x"})
	case "exec:dump":
		run(`{{ dump() }}`, 1)
	case "exec:dumpName":
		run(`{{ dump("g") }}`, 1)
	case "exec:isset":
		run(`{{ isset(g, .F) }}`, c11T1{1})
	case "loader.Set":
		l.Set("/n.jet", "n")
	case "loader.Delete":
		l.Delete("/t.jet")
	case "loader.Exists":
		l.Exists("/t.jet")
	case "loader.Open":
		if f, err := l.Open("/t.jet"); err == nil {
			f.Close()
		}
	case "GetTemplate":
		set.GetTemplate("/t.jet")
	case "Parse":
		set.Parse("/p.jet", `{{ import "/t.jet" }}x`)
	case "exec:include":
		run(`{{ include "/t.jet" }}`, nil)
	case "exec:field3":
		run(`{{ .Promoted }}{{ .H }}`, c11T3{&C11Emb{1}, 2})
	case "exec:field3b":
		run(`{{ .H }}{{ .Promoted }}{{ .Promoted }}`, &c11T3{&C11Emb{1}, 2})
	case "loader.SetSame":
		l.Set("/t.jet", `{{ g }}`)
	case "loader.SetShorter":
		l.Set("/t.jet", `x`)
	case "loader.OpenRead":
		if f, err := l.Open("/t.jet"); err == nil {
			buf := make([]byte, 4)
			f.Read(buf)
			f.Close()
		}
	}
}

// c11Snapshot: content handed out by Open is a snapshot: an edit of the same path made
// while the reader is still being read (here: between Open and ReadAll) must not change
// what the reader yields. This is the sequential witness of the race "Set rewrites bytes a
// concurrent reader is reading".
func c11Snapshot(l *InMemLoader, next string) bool {
	l.Set("/snap.jet", "0123456789")
	f, err := l.Open("/snap.jet")
	if err != nil {
		return false
	}
	l.Set("/snap.jet", next)
	b, _ := ioutil.ReadAll(f)
	return string(b) == "0123456789"
}

// c11FreshStress (native replay only): first-time field resolution on struct types the
// process has never seen, from several goroutines at once, under the race detector.
func c11FreshStress(set *Set) {
	t, err := set.Parse("/fresh.jet", `{{ .Promoted }}{{ .H }}{{ .Promoted }}`)
	if err != nil {
		return
	}
	emb := reflect.TypeOf(&C11Emb{})
	for k := 0; k < 40; k++ {
		typ := reflect.StructOf([]reflect.StructField{
			{Name: "C11Emb", Type: emb, Anonymous: true},
			{Name: "H", Type: reflect.TypeOf(0)},
			{Name: "Pad" + ndItoa(k), Type: reflect.TypeOf(0)},
		})
		v := reflect.New(typ).Elem()
		v.Field(0).Set(reflect.ValueOf(&C11Emb{1}))
		data := v.Interface()
		var wg sync.WaitGroup
		for g := 0; g < 6; g++ {
			wg.Add(1)
			go func() {
				defer wg.Done()
				for r := 0; r < 3; r++ {
					var b bytes.Buffer
					t.Execute(&b, nil, data)
				}
			}()
		}
		wg.Wait()
	}
}

// H_C11_lockDiscipline: for every operation (symbolic choice of two in sequence) on a Set
// with globals and an in-memory loader: every access to the three guarded maps happens
// with the guard held (write-locked for updates), and no lock is left held afterwards.
//
//gosym:reach done
//gosym:opts maxviol=200
func H_C11_lockDiscipline() {
	l := NewInMemLoader()
	l.Set("/t.jet", `{{ g }}`)
	set := NewSet(l)
	set.AddGlobal("g", 0)
	a := ndChoice("op1", len(c11Ops))
	b := ndChoice("op2", len(c11Ops))
	if vfSymbolic() {
		vfGuardMap("Set.globals", set.globals, set.gmx)
		vfGuardMap("InMemLoader.files", l.files, &l.lock)
		vfGuardMap("cachedStructsFieldIndex", cachedStructsFieldIndex, &cachedStructsMutex)
		c11Do(set, l, c11Ops[a])
		vfAssert(vfLocksHeld() == 0, "lock: no lock is left held after the operation")
		c11Do(set, l, c11Ops[b])
		vfAssert(vfLocksHeld() == 0, "lock: no lock is left held after the operation")
		vfReach("done")
		vfAssert(c11Snapshot(l, "abc") && c11Snapshot(l, "abcdefghijklmnop"), "content handed out by Open is not rewritten by a later Set")
		return
	}
	vfAssert(c11Snapshot(l, "abc") && c11Snapshot(l, "abcdefghijklmnop"), "content handed out by Open is not rewritten by a later Set")
	if c11Ops[a] == "exec:field3" || c11Ops[b] == "exec:field3" || c11Ops[a] == "exec:field3b" || c11Ops[b] == "exec:field3b" {
		c11FreshStress(set)
	}
	// native replay: the two operations run concurrently, many times, under -race
	var wg sync.WaitGroup
	for _, op := range []string{c11Ops[a], c11Ops[b], c11Ops[a], c11Ops[b]} {
		wg.Add(1)
		go func(op string) {
			defer wg.Done()
			for k := 0; k < 300; k++ {
				c11Do(set, l, op)
			}
		}(op)
	}
	wg.Wait()
}

// c11Exec runs an Execute-only operation (template parsed beforehand) and returns what it
// rendered and whether it failed.
var c11ExecOps = []struct {
	src  string
	data interface{}
}{
	{`{{ g }}|{{ lower("X") }}`, nil},
	{`{{ nope }}`, nil},
	{`{{ .F }}`, c11T1{1}},
	{`{{ .G }}{{ .Nope }}`, &c11T2{"x"}},
	{`{{ isset(g, .F) }}`, c11T1{1}},
	{`{{ include "/t.jet" }}`, nil},
	{`{{ .Promoted }}{{ .H }}`, c11T3{&C11Emb{1}, 2}},
	{`{{ range i, v := s }}{{ i }}{{ v }}{{ end }}{{ try }}{{ nope }}{{ catch }}c{{ end }}`, nil},
	{`{{ block b(p=1) }}[{{ p }}]{{ end }}{{ yield b(p=2) }}`, nil},
	{`[{{ . }}]{{ isset(.F) }}`, nil}, // reads '.' without having been given any data
}

func c11Exec(t *Template, k int) string {
	var b bytes.Buffer
	vars := make(VarMap)
	vars.Set("s", []string{"a", "b"})
	if err := t.Execute(&b, vars, c11ExecOps[k].data); err != nil {
		return b.String() + "<error>"
	}
	return b.String()
}

// H_C11_schedules: two goroutines, each performing one of the 22 operations (symbolic
// choice) on one Set / loader, under every schedule in which the second operation starts
// at any synchronisation or blocking point of the first (either order), blocked goroutines
// yield in FIFO order, and (thorough tier) one further preemptive switch happens at any
// synchronisation operation: no two conflicting memory accesses are unordered
// (vector-clock happens-before detector over every cell the interpreter touches), no
// deadlock, no panic. Natively the same pair runs many times under the Go race detector.
//
//gosym:reach done
//gosym:opts maxviol=200 maxpaths=600000 wall=1500
func H_C11_schedules() {
	l := NewInMemLoader()
	l.Set("/t.jet", `{{ g }}`)
	set := NewSet(l)
	set.AddGlobal("g", 0)
	a := ndChoice("op1", len(c11Ops))
	b := ndChoice("op2", len(c11Ops))
	reps := 1
	if !vfSymbolic() {
		reps = 400
	}
	vfRace(vfTier())
	ops := []string{c11Ops[a], c11Ops[b]}
	if !vfSymbolic() {
		ops = append(ops, c11Ops[a], c11Ops[b]) // native stress: two goroutines per operation
	}
	var wg sync.WaitGroup
	for _, op := range ops {
		wg.Add(1)
		go func(op string) {
			defer wg.Done()
			for k := 0; k < reps; k++ {
				c11Do(set, l, op)
			}
		}(op)
	}
	wg.Wait()
	vfReach("done")
}

// H_C11_execAlone: two goroutines execute already parsed templates (the same parsed template
// when both choose the same source; symbolic choice among
// ten: globals, missing names, fields resolved through the struct cache for the first
// time, include of a not yet loaded template, range, try/catch, block/yield) concurrently,
// under every schedule in which the second starts at any synchronisation point of the
// first (either order) plus (thorough tier) one further preemptive switch: no race,
// and each Execute produces exactly the output and error it produces when run alone.
//
//gosym:reach done
//gosym:opts maxviol=200 maxpaths=600000 wall=1500
func H_C11_execAlone() {
	l := NewInMemLoader()
	l.Set("/t.jet", `{{ g }}`)
	set := NewSet(l)
	set.AddGlobal("g", 0)
	a := ndChoice("t1", len(c11ExecOps))
	b := ndChoice("t2", len(c11ExecOps))
	ta, err1 := set.Parse("/a.jet", c11ExecOps[a].src)
	tb, err2 := set.Parse("/b.jet", c11ExecOps[b].src)
	if err1 != nil || err2 != nil {
		vfAssert(false, "templates parse")
		return
	}
	if a == b {
		tb = ta // the usual case: one parsed template executed by both goroutines
	}
	// solo results on an identical, separate Set (so that nothing is warmed up here)
	solo := func(k int) string {
		l2 := NewInMemLoader()
		l2.Set("/t.jet", `{{ g }}`)
		s2 := NewSet(l2)
		s2.AddGlobal("g", 0)
		t, err := s2.Parse("/s.jet", c11ExecOps[k].src)
		if err != nil {
			return "<parse>"
		}
		return c11Exec(t, k)
	}
	wantA, wantB := solo(a), solo(b)
	// optionally a sequential warm-up that exercises pools on their rarely taken paths
	// (range-else over empty collections, a failing execution) before the concurrent part
	w := ndChoice("warmup", 3)
	warmup := func() {
		if w == 0 {
			return
		}
		wsrc := `{{ range e }}x{{ else }}y{{ end }}{{ range k, v := em }}x{{ else }}y{{ end }}`
		if w == 2 {
			wsrc = `{{ try }}{{ range s }}{{ nope }}{{ end }}{{ end }}{{ range s }}{{ nope }}{{ end }}`
		}
		if tw, err := set.Parse("/w.jet", wsrc); err == nil {
			var sink bytes.Buffer
			wv := make(VarMap)
			wv.Set("e", []string{})
			wv.Set("em", map[string]int{})
			wv.Set("s", []string{"a"})
			tw.Execute(&sink, wv, nil)
		}
	}
	// the engine explores the schedules of one round; natively the round (warm-up, then the
	// two executions side by side, many times) is repeated, under the race detector - whose
	// sync.Pool drops objects at random, so that one round alone often shows nothing
	rounds, reps := 1, 1
	if !vfSymbolic() {
		rounds, reps = 40, 60
	}
	vfRace(vfTier())
	var gotA, gotB string
	for round := 0; round < rounds; round++ {
		warmup()
		var wg sync.WaitGroup
		wg.Add(2)
		go func() {
			defer wg.Done()
			for k := 0; k < reps; k++ {
				// (natively every repetition is compared: the first one that differs is kept)
				if g := c11Exec(ta, a); (round == 0 && k == 0) || gotA == wantA {
					gotA = g
				}
			}
		}()
		go func() {
			defer wg.Done()
			for k := 0; k < reps; k++ {
				if g := c11Exec(tb, b); (round == 0 && k == 0) || gotB == wantB {
					gotB = g
				}
			}
		}()
		wg.Wait()
	}
	vfReach("done")
	vfAssert(gotA == wantA && gotB == wantB, "each concurrent Execute produces exactly what it produces when run alone")
}

// H_C11_customDelims: two goroutines parse (GetTemplate / Parse) and execute templates of a
// Set configured with custom action and comment delimiters: no unordered conflicting
// accesses - in particular between a parser and its own lexer goroutine - and each result
// equals the solo result.
//
//gosym:reach done
//gosym:opts maxviol=200
func H_C11_customDelims() {
	mk := func() (*Set, *InMemLoader) {
		l := NewInMemLoader()
		l.Set("/t.jet", `a[[ g ]]<# c #>b{{x}}`)
		l.Set("/u.jet", `[[ range i := s ]][[ i ]][[ end ]]<# d #>`)
		s := NewSet(l, WithDelims("[[", "]]"), WithCommentDelims("<#", "#>"))
		s.AddGlobal("g", 5)
		return s, l
	}
	names := []string{"/t.jet", "/u.jet"}
	a, b := ndChoice("t1", 2), ndChoice("t2", 2)
	run := func(s *Set, k int) string {
		t, err := s.GetTemplate(names[k])
		if err != nil {
			return "<parse error>"
		}
		var buf bytes.Buffer
		vars := make(VarMap)
		vars.Set("s", []int{7, 8})
		if t.Execute(&buf, vars, nil) != nil {
			return buf.String() + "<error>"
		}
		return buf.String()
	}
	soloSet, _ := mk()
	wantA, wantB := run(soloSet, a), run(soloSet, b)
	set, _ := mk()
	reps := 1
	if !vfSymbolic() {
		reps = 100
	}
	vfRace(vfTier())
	var gotA, gotB string
	var wg sync.WaitGroup
	wg.Add(2)
	go func() {
		defer wg.Done()
		for k := 0; k < reps; k++ {
			gotA = run(set, a)
		}
	}()
	go func() {
		defer wg.Done()
		for k := 0; k < reps; k++ {
			gotB = run(set, b)
		}
	}()
	wg.Wait()
	vfReach("done")
	vfAssert(gotA == wantA && gotB == wantB, "each concurrent GetTemplate + Execute yields what it yields alone")
}

// H_C11_firstLoad: one goroutine loads (first-time GetTemplate) and executes a template that
// extends / imports already cached templates, while the other executes one of those cached
// templates; and two goroutines execute, without a VarMap, templates whose custom function
// declares a variable through the Runtime (LetGlobal / Let): no unordered conflicting
// accesses, and every result equals the solo result.
//
//gosym:reach done
//gosym:opts maxviol=200
func H_C11_firstLoad() {
	sc := ndChoice("scenario", 3)
	mk := func() *Set {
		l := NewInMemLoader()
		l.Set("/a.jet", `{{ block title() }}A-title{{ end }}|{{ block body() }}A-body{{ end }}`)
		l.Set("/b.jet", `{{ block title() }}B-title{{ end }}`)
		l.Set("/imp.jet", `{{ import "/a.jet" }}{{ import "/b.jet" }}{{ yield title() }}+{{ yield body() }}`)
		l.Set("/ext.jet", `{{ extends "/a.jet" }}{{ import "/b.jet" }}`)
		l.Set("/lg.jet", `{{ decl() }}hello {{ u }}`)
		s := NewSet(l)
		s.AddGlobalFunc("decl", func(a Arguments) reflect.Value {
			c := a.Runtime().Context()
			a.Runtime().LetGlobal("u", c.Interface())
			return reflect.ValueOf("")
		})
		s.GetTemplate("/a.jet")
		s.GetTemplate("/b.jet")
		return s
	}
	names := [][2]string{{"/imp.jet", "/a.jet"}, {"/ext.jet", "/a.jet"}, {"/lg.jet", "/lg.jet"}}[sc]
	run := func(s *Set, name string, data interface{}) string {
		t, err := s.GetTemplate(name)
		if err != nil {
			return "<load error>"
		}
		var buf bytes.Buffer
		if t.Execute(&buf, nil, data) != nil {
			return buf.String() + "<error>"
		}
		return buf.String()
	}
	solo := mk()
	want1, want2 := run(solo, names[0], "user1"), run(mk(), names[1], "user2")
	set := mk()
	reps := 1
	if !vfSymbolic() {
		reps = 100
	}
	vfRace(vfTier())
	var got1, got2 string
	var wg sync.WaitGroup
	wg.Add(2)
	go func() {
		defer wg.Done()
		for k := 0; k < reps; k++ {
			got1 = run(set, names[0], "user1")
		}
	}()
	go func() {
		defer wg.Done()
		for k := 0; k < reps; k++ {
			got2 = run(set, names[1], "user2")
		}
	}()
	wg.Wait()
	vfReach("done")
	vfAssert(got1 == want1 && got2 == want2, "each concurrent load / execution yields what it yields alone")
}
