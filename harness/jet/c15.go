package jet

import (
	"bytes"
	"io"
	"io/ioutil"
)

// ---- C15: template names are canonicalised ----

// c15Loader records every path the Set hands to it and serves a fixed set of files.
type c15Loader struct {
	files map[string]string
	seen  []string
}

func (l *c15Loader) Exists(p string) bool {
	l.seen = append(l.seen, p)
	_, ok := l.files[p]
	return ok
}

func (l *c15Loader) Open(p string) (io.ReadCloser, error) {
	l.seen = append(l.seen, p)
	return ioutil.NopCloser(bytes.NewReader([]byte(l.files[p]))), nil
}

// c15Cache records every key the Set hands to the cache.
type c15Cache struct {
	m    map[string]*Template
	seen []string
}

func (c *c15Cache) Get(p string) *Template {
	c.seen = append(c.seen, p)
	return c.m[p]
}

func (c *c15Cache) Put(p string, t *Template) {
	c.seen = append(c.seen, p)
	c.m[p] = t
}

// cleanAbs is the byte-level definition of "absolute, slash separated, lexically clean":
// starts with '/', and every segment between slashes is non-empty and neither "." nor
// "..", with no trailing slash except for the root itself. It deliberately does not call
// path.Clean.
func cleanAbs(p string) bool {
	if len(p) == 0 || p[0] != '/' {
		return false
	}
	if len(p) == 1 {
		return true
	}
	segStart := 1
	for i := 1; i <= len(p); i++ {
		if i == len(p) || p[i] == '/' {
			n := i - segStart
			if n == 0 {
				return false
			}
			if n == 1 && p[segStart] == '.' {
				return false
			}
			if n == 2 && p[segStart] == '.' && p[segStart+1] == '.' {
				return false
			}
			if p[i-1] == '\\' && false {
				return false
			}
			segStart = i + 1
		}
	}
	return true
}

// refResolve is an independent reference for name resolution: a segment stack.
// dir is a clean absolute directory ("/" or "/a" ...).
func refResolve(dir, name string) string {
	var segs []string
	push := func(s string) {
		switch s {
		case "", ".":
		case "..":
			if len(segs) > 0 {
				segs = segs[:len(segs)-1]
			}
		default:
			segs = append(segs, s)
		}
	}
	split := func(p string) {
		start := 0
		for i := 0; i <= len(p); i++ {
			if i == len(p) || p[i] == '/' {
				push(p[start:i])
				start = i + 1
			}
		}
	}
	if len(name) == 0 || name[0] != '/' {
		split(dir)
	}
	split(name)
	out := ""
	for _, s := range segs {
		out += "/" + s
	}
	if out == "" {
		return "/"
	}
	return out
}

var c15Exts = []string{"", ".jet", ".html.jet", ".jet.html"}

// c15CheckSeen asserts that every recorded path is base+ext for the expected clean base.
func c15CheckSeen(seen []string, want string, what string) {
	for _, p := range seen {
		ok := false
		for _, e := range c15Exts {
			if p == want+e {
				ok = true
			}
		}
		vfAssert(ok, what+": path is not the reference resolution plus a configured extension")
		vfAssert(cleanAbs(p), what+": path is not clean and absolute")
	}
}

func c15NameLen() int {
	if vfTier() == 1 {
		return 10
	}
	return 4
}

// ndName returns a symbolic name of length 0..max over all byte values except NUL-free
// restrictions (none): every byte is arbitrary.
func ndName(tag string, max int) string {
	n := ndChoice(tag+".len", max+1)
	return ndString(tag, n)
}

// H_C15_getTemplate: Set.GetTemplate(name) for every name of up to N arbitrary bytes:
// every path reaching the Loader and the Cache is clean, absolute and equals the
// reference resolution against the root (plus a configured extension).
//
//gosym:reach lookup-done
func H_C15_getTemplate() {
	l := &c15Loader{files: map[string]string{}}
	c := &c15Cache{m: map[string]*Template{}}
	set := NewSet(l, WithCache(c))
	name := ndName("name", c15NameLen())
	for i := 0; i < len(name); i++ {
		vfAssume(name[i] != '\\') // Windows separator: ToSlash is the identity on this platform; outside the claim
	}
	_, err := set.GetTemplate(name)
	vfReach("lookup-done")
	vfAssert(err != nil, "no file exists, so lookup must fail")
	want := refResolve("/", name)
	vfAssert(len(l.seen) > 0, "loader consulted")
	c15CheckSeen(l.seen, want, "loader")
	c15CheckSeen(c.seen, want, "cache")
}

// H_C15_backslash: names containing backslashes (every byte arbitrary, at least one '\\'),
// given to GetTemplate and to a run-time computed include / exec / includeIfExists from a
// template in a sub-directory: whatever a backslash means on the platform (an ordinary
// byte here; a separator elsewhere), every path reaching the Loader and the Cache is
// absolute, slash-separated and lexically clean. (Equality with the reference resolution is
// claimed for backslash-free names only, by the other harnesses.)
//
//gosym:reach lookup-done
func H_C15_backslash() {
	l := &c15Loader{files: map[string]string{}}
	c := &c15Cache{m: map[string]*Template{}}
	set := NewSet(l, WithCache(c))
	name := ndName("name", 4+2*vfTier()) // 4 (quick) / 6 (thorough) bytes
	vfAssume(hxContains(name, "\\"))
	form := ndChoice("form", 4)
	if form == 0 {
		set.GetTemplate(name)
	} else {
		src := []string{"", `{{include n}}`, `{{exec(n)}}`, `{{includeIfExists(n)}}`}[form]
		t, err := set.Parse("/d/e/main.jet", src)
		if err != nil {
			vfAssert(false, "skeleton parses")
			return
		}
		l.seen, c.seen = nil, nil
		vars := make(VarMap)
		vars.Set("n", name)
		var buf bytes.Buffer
		t.Execute(&buf, vars, nil)
	}
	vfReach("lookup-done")
	vfAssert(len(l.seen) > 0, "loader consulted")
	for _, p := range l.seen {
		vfAssert(cleanAbs(p), "loader: path is not clean and absolute")
	}
	for _, p := range c.seen {
		vfAssert(cleanAbs(p), "cache: path is not clean and absolute")
	}
}

// H_C15_include: {{include name}} / exec(name) / includeIfExists(name) with a run-time
// computed symbolic name, from a template in a sub-directory: relative names resolve
// against the including file's directory (include) or the root (exec, includeIfExists,
// as documented for GetTemplate), never above the root, always clean.
//
//gosym:reach include-done,exec-done,iie-done
func H_C15_include() {
	form := ndChoice("form", 3)
	l := &c15Loader{files: map[string]string{}}
	c := &c15Cache{m: map[string]*Template{}}
	set := NewSet(l, WithCache(c))
	var src string
	switch form {
	case 0:
		src = `{{include n}}`
	case 1:
		src = `{{exec(n)}}`
	default:
		src = `{{includeIfExists(n)}}`
	}
	t, err := set.Parse("/d/e/main.jet", src)
	if err != nil {
		vfAssert(false, "skeleton parses")
		return
	}
	name := ndName("name", c15NameLen())
	for i := 0; i < len(name); i++ {
		vfAssume(name[i] != '\\')
	}
	l.seen, c.seen = nil, nil
	vars := make(VarMap)
	vars.Set("n", name)
	var buf bytes.Buffer
	t.Execute(&buf, vars, nil)
	var want string
	switch form {
	case 0:
		vfReach("include-done")
		want = refResolve("/d/e", name)
	case 1:
		vfReach("exec-done")
		want = refResolve("/", name)
	default:
		vfReach("iie-done")
		want = refResolve("/", name)
	}
	vfAssert(len(l.seen) > 0, "loader consulted")
	c15CheckSeen(l.seen, want, "loader")
	c15CheckSeen(c.seen, want, "cache")
}

// H_C15_extendsImport: {{extends "NAME"}} / {{import "NAME"}} with symbolic NAME bytes
// inside the literal (ASCII, no quote/backslash/newline), in a template located in a
// directory: the referenced path is the reference resolution against that directory.
//
//gosym:reach extends-done,import-done
func H_C15_extendsImport() {
	form := ndChoice("form", 2)
	n := 3
	if vfTier() == 1 {
		n = 8
	}
	name := ndName("name", n)
	for i := 0; i < len(name); i++ {
		b := name[i]
		vfAssume(b < 0x80 && b != '"' && b != '\\' && b != '\n' && b >= 0x20)
	}
	l := &c15Loader{files: map[string]string{}}
	c := &c15Cache{m: map[string]*Template{}}
	set := NewSet(l, WithCache(c))
	kw := "extends"
	if form == 1 {
		kw = "import"
	}
	src := "{{" + kw + " \"" + name + "\"}}x"
	_, err := set.Parse("/d/main.jet", src)
	if form == 0 {
		vfReach("extends-done")
	} else {
		vfReach("import-done")
	}
	vfAssert(err != nil, "referenced file does not exist, so Parse must fail")
	want := refResolve("/d", name)
	vfAssert(len(l.seen) > 0, "loader consulted")
	c15CheckSeen(l.seen, want, "loader")
	c15CheckSeen(c.seen, want, "cache")
}

// H_C15_parseName: Set.Parse(path, ...) roots and cleans the given path: the template's
// name is the reference resolution against the root, and a relative extends inside it is
// resolved against that name's directory.
//
//gosym:reach parsed
func H_C15_parseName() {
	name := ndName("name", c15NameLen())
	for i := 0; i < len(name); i++ {
		vfAssume(name[i] != '\\')
	}
	l := &c15Loader{files: map[string]string{}}
	set := NewSet(l)
	t, err := set.Parse(name, `{{extends "x"}}`)
	want := refResolve("/", name)
	_ = t
	if err == nil {
		vfAssert(false, "extends target is missing, so Parse must fail")
		return
	}
	vfReach("parsed")
	// the directory of want
	dir := "/"
	for i := len(want) - 1; i > 0; i-- {
		if want[i] == '/' {
			dir = want[:i]
			break
		}
	}
	c15CheckSeen(l.seen, refResolve(dir, "x"), "loader")
}

// H_C15_sameNameTwoDirs: the same relative spelling ("part.jet", "./part.jet", "../part.jet",
// literal or computed at run time) used by include / extends / import from templates in
// two different directories of one Set, rendered one after the other in either order, in
// production and development mode: each resolves against ITS referring template's
// directory - the loader (or, when already cached, the cache) is asked for exactly that
// path, and the output comes from that directory's file.
//
//gosym:reach rendered
func H_C15_sameNameTwoDirs() {
	kw := ndChoice("kw", 4) // include literal, include computed, extends, import
	sp := ndChoice("spelling", 3)
	dev := ndBool("dev")
	aFirst := ndBool("aFirst")
	spelling := []string{"part.jet", "./part.jet", "../part.jet"}[sp]
	var ref string
	switch kw {
	case 0:
		ref = `{{ include "` + spelling + `" }}`
	case 1:
		ref = `{{ include n }}`
	case 2:
		ref = `{{ extends "` + spelling + `" }}`
	default:
		ref = `{{ import "` + spelling + `" }}{{ yield pb() }}`
	}
	part := func(tag string) string { return `{{ block pb() }}P` + tag + `{{ end }}` }
	l := &c15Loader{files: map[string]string{
		"/a/page.jet": ref, "/b/c/page.jet": ref,
		"/a/part.jet": part("a"), "/b/c/part.jet": part("bc"), "/part.jet": part("root"), "/b/part.jet": part("b"),
	}}
	set := NewSet(l, DevelopmentMode(dev))
	pages := []string{"/a/page.jet", "/b/c/page.jet"}
	wants := [][]string{{"Pa", "Pa", "Proot"}, {"Pbc", "Pbc", "Pb"}}
	wantPath := [][]string{{"/a/part.jet", "/a/part.jet", "/part.jet"}, {"/b/c/part.jet", "/b/c/part.jet", "/b/part.jet"}}
	order := []int{0, 1}
	if !aFirst {
		order = []int{1, 0}
	}
	for _, k := range order {
		t, err := set.GetTemplate(pages[k])
		vfAssert(err == nil, "page loads")
		if err != nil {
			return
		}
		var buf bytes.Buffer
		vars := make(VarMap)
		vars.Set("n", spelling)
		err = t.Execute(&buf, vars, nil)
		vfAssert(err == nil, "page renders")
		vfNote(buf.String())
		vfAssert(buf.String() == wants[k][sp], "the relative name resolves against the referring template's directory")
		asked := false
		for _, p := range l.seen {
			if p == wantPath[k][sp] {
				asked = true
			}
			vfAssert(cleanAbs(p), "loader: path is not clean and absolute")
		}
		vfAssert(asked, "the loader is asked for the path below the referring template's directory")
	}
	vfReach("rendered")
}

// c15Chain: a chain of extends / import clauses that crosses directories, every clause with
// a relative name: /pages/home.jet extends ../layouts/mid.jet, which extends base.jet (or
// sub/base.jet, or ./base.jet) and imports widgets.jet - with decoys of the same names next
// to the page the lookup started from. Each name resolves against the directory of the
// template that contains the clause.
func c15Chain() (out string, err error, seen []string) {
	sp := ndChoice("spelling", 3)
	second := ndChoice("second", 3) // mid's own clause: extends, import, both
	base := []string{"base.jet", "./base.jet", "sub/../base.jet"}[sp]
	mid := ""
	if second != 1 {
		mid += `{{ extends "` + base + `" }}`
	}
	if second != 0 {
		mid += `{{ import "widgets.jet" }}`
	}
	if second == 1 {
		mid += `<mid>{{ yield badge() }}{{ block title() }}mid-title{{ end }}</mid>`
	} else {
		mid += `{{ block title() }}mid-title{{ end }}`
	}
	l := &c15Loader{files: map[string]string{
		"/pages/home.jet":      `{{ extends "../layouts/mid.jet" }}{{ block body() }}home-body{{ end }}`,
		"/layouts/mid.jet":     mid,
		"/layouts/base.jet":    `<base>{{ block title() }}t{{ end }}|{{ block body() }}b{{ end }}|{{ block badge() }}base-badge{{ end }}</base>`,
		"/layouts/widgets.jet": `{{ block badge() }}layout-badge{{ end }}`,
		"/pages/base.jet":      `<pages-base>{{ block title() }}t{{ end }}{{ block body() }}b{{ end }}{{ block badge() }}pb{{ end }}</pages-base>`,
		"/pages/widgets.jet":   `{{ block badge() }}pages-badge{{ end }}`,
		"/base.jet":            `<root-base></root-base>`,
		"/widgets.jet":         `{{ block badge() }}root-badge{{ end }}`,
	}}
	set := NewSet(l, DevelopmentMode(ndBool("dev")))
	t, err := set.GetTemplate("/pages/home.jet")
	if err != nil {
		return "", err, l.seen
	}
	var buf bytes.Buffer
	err = t.Execute(&buf, nil, nil)
	want := "<base>mid-title|home-body|base-badge</base>"
	switch second {
	case 1:
		want = "<mid>layout-badgemid-title</mid>"
	case 2:
		want = "<base>mid-title|home-body|layout-badge</base>"
	}
	vfNote(buf.String())
	vfAssert(err == nil && buf.String() == want, "every relative name in a chain resolves against the template that contains the clause")
	return buf.String(), err, l.seen
}

// H_C15_chainAcrossDirs: see c15Chain; the loader is only ever asked for clean absolute
// paths below /pages (the page itself) and /layouts (everything it reaches).
//
//gosym:reach rendered
func H_C15_chainAcrossDirs() {
	_, err, seen := c15Chain()
	vfReach("rendered")
	vfAssert(err == nil, "the chain loads and renders")
	for _, p := range seen {
		vfAssert(cleanAbs(p), "loader: path is not clean and absolute")
		ok := p == "/pages/home.jet" || (len(p) > 9 && p[:9] == "/layouts/")
		vfAssert(ok, "nothing is looked up next to the page the lookup started from")
	}
}
