package jet

import (
	"bytes"
	"reflect"
)

// ---- C10: Execute is a pure function of its inputs: no residue from earlier executions ----

// c10First: templates executed first; each fails (when mayFail fails) at a point where
// interpreter state has been pushed: inside a yield with content, a range, an if with a
// declaration, an include with context, a try (then outside it), a block with context.
var c10First = []string{
	`{{ x := "old" }}{{ mayFail() }}`,
	`{{ import "/lib.jet" }}{{ x := "old" }}{{ yield wrap() content }}STALE{{ x }}{{ mayFail() }}{{ end }}`,
	`{{ range r }}{{ x := . }}{{ mayFail() }}{{ end }}`,
	`{{ if x := "old"; true }}{{ mayFail() }}{{ end }}`,
	`{{ include "/inc.jet" "octx" }}`,
	`{{ try }}{{ range r }}{{ fail() }}{{ end }}{{ catch }}{{ end }}{{ x := "old" }}{{ mayFail() }}`,
	`{{ block b() "octx" }}{{ x := "old" }}{{ mayFail() }}{{ end }}`,
	`{{ import "/lib.jet" }}{{ yield wrap() content }}{{ yield wrap() content }}INNER{{ mayFail() }}{{ end }}{{ end }}`,
	`{{ import "/lib.jet" }}{{ x := "old" }}{{ yield wrapf() content }}STALE{{ x }}{{ end }}`,
	`{{ import "/lib.jet" }}{{ yield wrap() content }}{{ yield wrapf() content }}INNER{{ end }}{{ end }}`,
	`{{ try }}PARTIAL{{ r }}{{ mayFail() }}{{ catch }}{{ end }}after`,
	`{{ try }}{{ try }}INNERPARTIAL{{ mayFail() }}{{ end }}OUTER{{ fail() }}{{ end }}`,
}

// H_C10_history: Execute(A) - which fails at a symbolic point or succeeds - followed, on
// the same goroutine (so the pooled Runtime is reused), by Execute(P) of a probe template
// that reads everything a Runtime carries: '.', an undeclared variable, 'yield content',
// a block lookup, and plain output. P's bytes and error equal those of the same call
// without any earlier execution.
//
//gosym:reach after-failure,after-success
func H_C10_history() {
	a := ndChoice("first", len(c10First))
	fails := ndBool("fails")
	probe := `P[{{ . }}|{{ isset(x) }}|{{ yield content }}|{{ isset(r) }}]{{ try }}{{ end }}{{ try }}{{ try }}{{ end }}{{ end }}`
	files := []string{
		"/a.jet", c10First[a],
		"/lib.jet", `{{ block wrap() }}<{{ yield content }}>{{ end }}{{ block wrapf() }}<{{ yield content }}{{ mayFail() }}>{{ end }}`,
		"/inc.jet", `{{ x := "old" }}{{ mayFail() }}`,
		"/p.jet", probe,
	}
	run := func(first bool) (string, string) {
		set := hxSet(nil, files...)
		if first {
			ta, err := set.GetTemplate("/a.jet")
			if err != nil {
				vfAssert(false, "first template parses")
				return "", ""
			}
			vars := make(VarMap)
			vars.Set("r", []string{"oe"})
			vars.SetFunc("fail", hxFail)
			vars.SetFunc("mayFail", func(a Arguments) (v reflect.Value) {
				if fails {
					panic(hxErr{"mayFail"})
				}
				return valueBoolTRUE
			})
			var sink bytes.Buffer
			ta.Execute(&sink, vars, "olddata")
		}
		out, err := hxExec(set, "/p.jet", nil, nil)
		es := ""
		if err != nil {
			es = "error"
		}
		return out, es
	}
	out1, err1 := run(true)
	if fails {
		vfReach("after-failure")
	} else {
		vfReach("after-success")
	}
	vfNote(out1)
	vfAssert(out1 == "P[|false||false]" && err1 == "", "the probe renders as on a fresh runtime: no context, variables, content or writer left over")
}

// H_C10_immutable: executing never modifies the parsed template: the same template
// rendered twice with different data gives outputs that depend only on the data, and the
// template's printed form (Template.String) is the same before and after.
//
//gosym:reach rendered
func H_C10_immutable() {
	v1, v2 := ndString("v1", 1), ndString("v2", 1)
	set := hxSet([]Option{WithSafeWriter(nil)}, "/m.jet",
		`{{ block b(p="d") }}[{{ p }}{{ . }}]{{ end }}{{ range i, e := s }}{{ i }}{{ e }}{{ end }}{{ x := . }}{{ x }}{{ yield b(p=x) }}{{ if x == "q" }}Q{{ end }}{{ s[0] }}`)
	t, err := set.GetTemplate("/m.jet")
	if err != nil {
		vfAssert(false, "parses")
		return
	}
	before := t.String()
	render := func(v string) string {
		var buf bytes.Buffer
		vars := make(VarMap)
		vars.Set("s", []string{"a", "b"})
		if err := t.Execute(&buf, vars, v); err != nil {
			return "ERR"
		}
		return buf.String()
	}
	o1 := render(v1)
	o2 := render(v2)
	o3 := render(v1)
	vfReach("rendered")
	q := func(v string) string {
		if v == "q" {
			return "Q"
		}
		return ""
	}
	ref := func(v string) string { return "[d" + v + "]0a1b" + v + "[" + v + v + "]" + q(v) + "a" }
	vfAssert(o1 == ref(v1) && o2 == ref(v2) && o3 == o1, "same inputs, same bytes, whatever ran before")
	vfAssert(t.String() == before, "the parsed template is unchanged by execution")
}

// H_C10_twoSets: executions of templates from two Sets with different escapers (HTML,
// none, user-supplied) alternate on one goroutine: each output is escaped by its own
// Set's escaper, whatever ran before on the pooled runtime.
//
//gosym:reach rendered
func H_C10_twoSets() {
	e1, e2 := ndChoice("esc1", 3), ndChoice("esc2", 3)
	x := ndString("x", 1)
	s1 := hxSet(c01Opts(e1), "/m.jet", `{{ x }}`)
	s2 := hxSet(c01Opts(e2), "/m.jet", `{{ x }}`)
	vars := make(VarMap)
	vars.Set("x", x)
	o1, err1 := hxExec(s1, "/m.jet", vars, nil)
	o2, err2 := hxExec(s2, "/m.jet", vars, nil)
	o3, err3 := hxExec(s1, "/m.jet", vars, nil)
	vfReach("rendered")
	vfAssert(err1 == nil && err2 == nil && err3 == nil, "renders")
	vfAssert(o1 == c01Want(e1, x) && o2 == c01Want(e2, x) && o3 == c01Want(e1, x), "each execution uses its own Set's escaper")
}

type c10Secret struct {
	Name  string
	token string
}

// H_C10_sameErrorAgain: the same failing execution fails the same way every time (an
// unexported or missing field; first evaluation fills the struct-field cache).
//
//gosym:reach checked
func H_C10_sameErrorAgain() {
	srcs := []string{`{{ .token }}`, `{{ .Name }}{{ .token }}`, `{{ .Missing }}`, `{{ d.token }}`,
		// a template that exists but does not parse, reached through include / exec /
		// includeIfExists / extends-at-run-time: the same error every time, never a panic
		`ok{{ include "/broken.jet" }}`, `ok{{ exec("/broken.jet") }}`, `ok{{ includeIfExists("/broken.jet") }}`,
		`ok{{ include "/extbroken.jet" }}`, `ok{{ include "/nosuch.jet" }}`}
	c := ndChoice("src", len(srcs))
	set := hxSet(nil, "/m.jet", srcs[c], "/broken.jet", `x{{ if }}y`, "/extbroken.jet", `{{ extends "/broken.jet" }}`)
	vars := make(VarMap)
	vars.Set("d", c10Secret{"bob", "s3cr3t"})
	var outs [3]string
	var errs [3]bool
	for k := 0; k < 3; k++ {
		o, err := hxExec(set, "/m.jet", vars, c10Secret{"bob", "s3cr3t"})
		outs[k], errs[k] = o, err != nil
	}
	vfReach("checked")
	vfAssert(errs[0] && errs[1] && errs[2], "the same inputs give the same error every time")
	vfAssert(outs[0] == outs[1] && outs[1] == outs[2], "... and the same bytes")
	vfAssert(!hxContains(outs[1], "s3cr3t") && !hxContains(outs[2], "s3cr3t"), "an unexported field is never rendered")
}

// H_C10_sequences (thorough): histories of four executions on one goroutine drawn from a
// pool of 13 templates (the ten state-pushing templates above and three probes), each of
// which fails at its symbolic point or not: C (on a fresh pool: the baseline), then A, then
// B, then C again with the same inputs - the second C yields the same bytes and the same
// error as the first, whatever A and B were and however they ended.
//
//gosym:reach compared
//gosym:thorough-only
//gosym:opts maxpaths=400000 wall=1500
func H_C10_sequences() {
	pool := append([]string{}, c10First...)
	pool = append(pool,
		`P[{{ . }}|{{ isset(x) }}|{{ yield content }}|{{ isset(r) }}]`,
		`{{ import "/lib.jet" }}Q[{{ yield wrap() content }}{{ . }}{{ isset(x) }}{{ end }}]{{ mayFail() }}tail`,
		`R{{ range i, v := r }}{{ i }}{{ v }}{{ . }}{{ end }}{{ include "/inc.jet" }}|{{ isset(x) }}`,
	)
	files := []string{
		"/lib.jet", `{{ block wrap() }}<{{ yield content }}>{{ end }}{{ block wrapf() }}<{{ yield content }}{{ mayFail() }}>{{ end }}`,
		"/inc.jet", `{{ x := "old" }}{{ mayFail() }}`,
	}
	for k, src := range pool {
		files = append(files, "/t"+ndItoa(k)+".jet", src)
	}
	set := hxSet(nil, files...)
	exec := func(k int, fails bool, data interface{}) (string, bool) {
		t, err := set.GetTemplate("/t" + ndItoa(k) + ".jet")
		if err != nil {
			vfAssert(false, "template parses")
			return "", true
		}
		vars := make(VarMap)
		vars.Set("r", []string{"oe"})
		vars.SetFunc("fail", hxFail)
		vars.SetFunc("mayFail", func(a Arguments) (v reflect.Value) {
			if fails {
				panic(hxErr{"mayFail"})
			}
			return valueBoolTRUE
		})
		var sink bytes.Buffer
		e := t.Execute(&sink, vars, data)
		return sink.String(), e != nil
	}
	c, fc := ndChoice("c", len(pool)), ndBool("failsC")
	a, fa := ndChoice("a", len(pool)), ndBool("failsA")
	b, fb := ndChoice("b", len(pool)), ndBool("failsB")
	o1, e1 := exec(c, fc, "cdata")
	exec(a, fa, "adata")
	exec(b, fb, "bdata")
	o2, e2 := exec(c, fc, "cdata")
	vfReach("compared")
	vfNote(o2)
	vfAssert(o1 == o2, "same bytes whatever ran before")
	vfAssert(e1 == e2, "same error whatever ran before")
}

type c10Greeter struct{ Name string }

func (g *c10Greeter) Greet() string { return "hello " + g.Name }
func (g c10Greeter) Plain() string  { return "plain " + g.Name }

// H_C10_history2: two executions of ONE template with different inputs, where the first
// may have left something in process-wide or per-node state: an include whose name is
// computed (first name a, then b, then a missing one), a method looked up first on a value
// (where a pointer-receiver method is unreachable and the execution fails) and then through
// a pointer, a field looked up first on a type where it is unexported: the second execution
// a partial whose block lookups go through different includers, a positional yield argument
// whose block is overridden under another parameter name: the second execution
// yields exactly what it yields without the first (same bytes, same error-or-not).
//
//gosym:reach compared
func H_C10_history2() {
	sc := ndChoice("scenario", 6)
	first := ndChoice("first", 3)
	second := ndChoice("second", 3)
	shared := []string{
		// a partial that yields a block only its includers define (differently, or not at all)
		"/partial.jet", `{{ block own() }}o{{ end }}[{{ yield greet() }}]`,
		"/pa.jet", `{{ block greet() }}hello{{ end }}|{{ include "/partial.jet" }}`,
		"/pc.jet", `{{ block greet() }}bye{{ end }}|{{ include "/partial.jet" }}`,
		"/pn.jet", `{{ include "/partial.jet" }}`,
		// a yield with a positional argument whose block is overridden with another parameter name
		"/base.jet", `{{ block cell(text="-") }}({{ text }}){{ end }}|{{ yield cell("x") }}|{{ yield cell(text="y") }}`,
		"/child.jet", `{{ extends "/base.jet" }}{{ block cell(label="?") }}<{{ label }}>{{ end }}`,
		"/child2.jet", `{{ extends "/base.jet" }}{{ block cell(text="T") }}{{ "{" }}{{ text }}{{ "}" }}{{ end }}`,
	}
	set := hxSet(nil, append([]string{
		"/inc.jet", `<{{ include n }}>`,
		"/a.jet", `A`, "/b.jet", `B`,
		"/meth.jet", `[{{ .Greet() }}]`,
		"/plain.jet", `[{{ .Plain() }}]`,
		"/fld.jet", `[{{ .Name }}]`,
	}, shared...)...)
	names := []string{"/a.jet", "/b.jet", "/missing.jet"}
	val, ptr := c10Greeter{"v"}, &c10Greeter{"p"}
	type hidden struct{ name string }
	datas := []interface{}{val, ptr, hidden{"h"}}
	run := func(s *Set, k int) (string, bool) {
		var tn string
		var data interface{}
		vars := make(VarMap)
		switch sc {
		case 0:
			tn = "/inc.jet"
			vars.Set("n", names[k])
		case 1:
			tn, data = "/meth.jet", datas[k]
		case 2:
			tn, data = "/plain.jet", datas[k]
		case 3:
			tn, data = "/fld.jet", datas[k]
		case 4:
			tn = []string{"/pa.jet", "/pc.jet", "/pn.jet"}[k]
		default:
			tn = []string{"/base.jet", "/child.jet", "/child2.jet"}[k]
		}
		o, err := hxExec(s, tn, vars, data)
		return o, err != nil
	}
	fresh := hxSet(nil, append([]string{
		"/inc.jet", `<{{ include n }}>`, "/a.jet", `A`, "/b.jet", `B`,
		"/meth.jet", `[{{ .Greet() }}]`, "/plain.jet", `[{{ .Plain() }}]`, "/fld.jet", `[{{ .Name }}]`}, shared...)...)
	wantOut, wantErr := run(fresh, second)
	run(set, first)
	gotOut, gotErr := run(set, second)
	vfReach("compared")
	vfNote(gotOut)
	vfAssert(gotErr == wantErr, "the same error-or-not whatever ran before")
	vfAssert(gotOut == wantOut, "the same bytes whatever ran before")
}

// H_C10_laterLoads: a template is executed, then another template that refers to it (extends
// it - with and without blocks of its own, with and without an import that defines the same
// block names - or imports it, or includes it) is loaded and executed - directly, or lazily
// through include / exec from a third one - and then the first template is executed again:
// it renders what it rendered before (loading a template never changes one already parsed).
//
//gosym:reach compared
func H_C10_laterLoads() {
	page := []string{
		`{{ extends "/base.jet" }}{{ import "/lib.jet" }}`,
		`{{ extends "/base.jet" }}{{ import "/lib.jet" }}{{ block foot() }}page foot{{ end }}`,
		`{{ extends "/base.jet" }}{{ block title() }}page title{{ end }}`,
		`{{ extends "/base.jet" }}`,
		`{{ import "/base.jet" }}{{ import "/lib.jet" }}{{ yield title() }}`,
		`{{ extends "/mid.jet" }}{{ import "/lib.jet" }}`,
		`{{ import "/lib.jet" }}{{ include "/base.jet" }}`,
	}[ndChoice("page", 7)]
	via := ndChoice("via", 3)
	set := hxSet(nil,
		"/base.jet", `{{ block title() }}base title{{ end }}|{{ block foot() }}base foot{{ end }}|{{ yield title() }}`,
		"/lib.jet", `{{ block title() }}lib title{{ end }}{{ block extra() }}x{{ end }}`,
		"/mid.jet", `{{ extends "/base.jet" }}`,
		"/page.jet", page,
		"/inc.jet", `{{ include "/page.jet" }}`,
		"/exec.jet", `{{ exec("/page.jet") }}`,
	)
	want := "base title|base foot|base title"
	o1, e1 := hxExec(set, "/base.jet", nil, nil)
	o2, e2 := hxExec(set, []string{"/page.jet", "/inc.jet", "/exec.jet"}[via], nil, nil)
	o3, e3 := hxExec(set, "/base.jet", nil, nil)
	l1, el := hxExec(set, "/lib.jet", nil, nil)
	vfReach("compared")
	vfNote(o2)
	vfNote(o3)
	vfAssert(e1 == nil && e2 == nil && e3 == nil && el == nil, "renders")
	vfAssert(o1 == want && o3 == want, "the first template renders the same before and after the other one was loaded")
	vfAssert(l1 == "lib titlex", "so does the imported one")
}

// H_C10_nilVariables: executions that pass no variables (nil VarMap) one after another on
// one goroutine: a variable that a function declares in the top-most scope of the first
// execution (Runtime.LetGlobal, or Let / SetOrLet at the top level) is not there in the
// next one, whether that one passes variables or not.
//
//gosym:reach compared
func H_C10_nilVariables() {
	how := ndChoice("how", 3)
	firstNil, secondNil := ndBool("firstNil"), ndBool("secondNil")
	set := hxSet(nil,
		"/declare.jet", `{{ remember("secret") }}[{{ secret }}]`,
		"/probe.jet", `{{ isset(secret) ? secret : "unset" }}`,
	)
	set.AddGlobalFunc("remember", func(a Arguments) reflect.Value {
		name := a.Get(0).String()
		switch how {
		case 0:
			a.Runtime().LetGlobal(name, "S")
		case 1:
			a.Runtime().Let(name, "S")
		default:
			a.Runtime().SetOrLet(name, "S")
		}
		return reflect.ValueOf("")
	})
	mk := func(isNil bool) VarMap {
		if isNil {
			return nil
		}
		return make(VarMap)
	}
	o1, e1 := hxExec(set, "/declare.jet", mk(firstNil), nil)
	o2, e2 := hxExec(set, "/probe.jet", mk(secondNil), nil)
	vfReach("compared")
	vfNote(o2)
	vfAssert(e1 == nil && o1 == "[S]", "the first execution sees its own declaration")
	vfAssert(e2 == nil && o2 == "unset", "the next execution starts without it")
}

// H_C10_rangerResidue: the first execution leaves a range over a map / slice / ints() /
// channel early - by a return inside the body, or by a failure - and a later execution on
// the same goroutine ranges over an empty, a one-element and a full collection of the same
// kind: each renders exactly what it renders on a fresh Set (the pooled rangers carry
// nothing over).
//
//gosym:reach compared
func H_C10_rangerResidue() {
	kind := ndChoice("kind", 4)
	exit := ndChoice("exit", 3) // 0 return, 1 failure, 2 return from a nested range
	size := ndChoice("size", 3) // of the later collection: 0, 1, 3 elements
	mk := func(n int) interface{} {
		switch kind {
		case 0:
			m := map[string]int{}
			for i := 0; i < n; i++ {
				m["k"+ndItoa(i)] = i + 1
			}
			return m
		case 1:
			s := []int{}
			for i := 0; i < n; i++ {
				s = append(s, i+1)
			}
			return s
		case 2:
			return newIntsRanger(0, int64(n))
		default:
			ch := make(chan int, 4)
			for i := 0; i < n; i++ {
				ch <- i + 1
			}
			close(ch)
			return ch
		}
	}
	firsts := []string{
		`{{ range k, v := c }}{{ return v }}{{ end }}`,
		`{{ range k, v := c }}{{ boom() }}{{ end }}`,
		`{{ range k, v := c }}{{ range k2, v2 := c2 }}{{ return v2 }}{{ end }}{{ end }}`,
	}
	if kind == 3 {
		firsts = []string{`{{ range v := c }}{{ return v }}{{ end }}`, `{{ range v := c }}{{ boom() }}{{ end }}`, `{{ range v := c }}{{ range v2 := c2 }}{{ return v2 }}{{ end }}{{ end }}`}
	}
	second := `{{ range k, v := c }}[{{ v }}]{{ else }}empty{{ end }}`
	if kind == 3 {
		second = `{{ range v := c }}[{{ v }}]{{ else }}empty{{ end }}`
	}
	// round 8: the later execution nests a range over the same kind inside the range (a
	// ranger handed back to its pool twice by the first execution would serve both loops)
	nested := ndBool("nested")
	if nested {
		second = `{{ range k, v := c }}[{{ v }}{{ range k2, v2 := c3 }}({{ v2 }}){{ end }}]{{ else }}empty{{ end }}`
		if kind == 3 {
			second = `{{ range v := c }}[{{ v }}{{ range k2, v2 := c3 }}({{ v2 }}){{ end }}]{{ else }}empty{{ end }}`
		}
	}
	run := func(set *Set, name string, n int) string {
		vars := make(VarMap)
		vars.Set("c", mk(n))
		vars.Set("c2", mk(3))
		if kind >= 2 {
			vars.Set("c3", []int{7, 8}) // (a channel or an ints() ranger is used up by the first pass: the inner loop ranges over a slice)
		} else if kind == 0 {
			vars.Set("c3", map[string]int{"only": 7})
		} else {
			vars.Set("c3", mk(2))
		}
		vars.SetFunc("boom", hxFail)
		out, err := hxExec(set, name, vars, nil)
		if err != nil {
			return out + "<error>"
		}
		return out
	}
	n2 := []int{0, 1, 3}[size]
	fresh := hxSet(nil, "/second.jet", second)
	want := run(fresh, "/second.jet", n2)
	set := hxSet(nil, "/first.jet", firsts[exit], "/second.jet", second)
	run(set, "/first.jet", 3)
	got := run(set, "/second.jet", n2)
	vfReach("compared")
	if kind != 0 || n2 <= 1 {
		vfNote(got) // (the order of a map with several entries is not fixed: not recorded)
	}
	ref := "empty"
	if kind != 0 && n2 > 0 { // (map order is not fixed: the map case is compared with the fresh Set only when it has at most one entry)
		ref = ""
		for i := 0; i < n2; i++ {
			ref += "[" + ndItoa(i+1-c10Zero(kind)) + "]"
		}
	}
	if kind == 0 && n2 == 1 {
		ref = "[1]"
	}
	if nested {
		if kind != 0 || n2 <= 1 {
			vfAssert(got == want, "nested ranges: the same bytes as on a fresh Set")
		} else {
			vfAssert(len(got) == len(want), "nested ranges: as many elements as on a fresh Set")
		}
		return
	}
	if kind != 0 || n2 <= 1 {
		vfAssert(got == ref, "a range renders once per element, else iff empty, whatever ran before")
	}
	if kind != 0 || n2 <= 1 {
		vfAssert(got == want, "the same bytes as on a fresh Set")
	} else {
		vfAssert(len(got) == len(want), "as many elements as on a fresh Set")
	}
}

// ints() counts from 'from': its elements are 0..n-1 where the other kinds hold 1..n.
func c10Zero(kind int) int {
	if kind == 2 {
		return 1
	}
	return 0
}

// H_C10_lookupHistory: two executions on one Set, each including a template by an
// extension-less name ("page", "page.html", "sub/page") that resolves through the extension
// list to a different file (/page.jet, /page.html.jet, /sub/page.jet): whichever ran first,
// the second renders exactly what it renders on a fresh Set.
//
//gosym:reach compared
func H_C10_lookupHistory() {
	names := []string{"page", "page.html", "sub/page", "/page", "./page.html"}
	first, second := ndChoice("first", len(names)), ndChoice("second", len(names))
	how := ndChoice("how", 3)
	mk := func() *Set {
		return hxSet(nil,
			"/inc.jet", `<{{ include n }}>`,
			"/exec.jet", `<{{ exec(n) }}>`,
			"/iie.jet", `<{{ if includeIfExists(n) }}{{ end }}>`,
			"/page.jet", `plain page{{ return "plain" }}`,
			"/page.html.jet", `html page{{ return "html" }}`,
			"/sub/page.jet", `sub page{{ return "sub" }}`,
		)
	}
	tn := []string{"/inc.jet", "/exec.jet", "/iie.jet"}[how]
	run := func(s *Set, k int) string {
		vars := make(VarMap)
		vars.Set("n", names[k])
		out, err := hxExec(s, tn, vars, nil)
		if err != nil {
			return out + "<error>"
		}
		return out
	}
	want := run(mk(), second)
	set := mk()
	run(set, first)
	got := run(set, second)
	vfReach("compared")
	vfNote(got)
	vfAssert(got == want, "the same bytes whatever was looked up before")
}

// H_C10_panicHistory (round 8): the first execution dies with a panic that Execute does not
// turn into an error - a Go runtime error or a non-error panic value raised by a custom
// function below a range / an if with a declaration - and the caller recovers it; the next
// execution on the same goroutine, with nil data, renders what it renders on a fresh Set
// ('.' and the variables of the abandoned execution are gone).
//
//gosym:reach compared
func H_C10_panicHistory() {
	how := ndChoice("how", 3) // 0 runtime error, 1 panic("text"), 2 an ordinary error (Execute returns it)
	where := ndChoice("where", 3)
	first := []string{
		`{{ range one }}{{ e := 1 }}{{ boom() }}{{ end }}`,
		`{{ if e := 1; true }}{{ boom() }}{{ end }}`,
		`{{ e := 1 }}{{ include "/inc.jet" "ctx" }}`,
	}[where]
	second := `{{ isset(.) }}|{{ isset(e) }}|{{ . }}`
	run2 := func(set *Set) string {
		out, err := hxExec(set, "/second.jet", nil, nil)
		if err != nil {
			return out + "<error>"
		}
		return out
	}
	want := run2(hxSet(nil, "/second.jet", second))
	set := hxSet(nil, "/first.jet", first, "/inc.jet", `{{ boom() }}`, "/second.jet", second)
	vars := make(VarMap)
	vars.Set("one", []string{"elem"})
	vars.SetFunc("boom", func(a Arguments) reflect.Value {
		switch how {
		case 0:
			var s []int
			_ = s[len(vars)+3]
		case 1:
			panic("text")
		}
		panic(hxErr{"boom"})
	})
	func() {
		defer func() { recover() }()
		hxExec(set, "/first.jet", vars, "D1")
	}()
	got := run2(set)
	vfReach("compared")
	vfNote(got)
	vfAssert(got == want, "after an execution that panicked out of Execute, the next one renders what it renders on a fresh Set")
}
