package jet

import (
	"bytes"
	"errors"
	"io"
	"reflect"
)

// ---- helpers shared by the interpreter harnesses ----

// refEsc is the byte-wise reference of the default escaper (text/template.HTMLEscape).
func refEsc(b []byte) []byte {
	var out []byte
	for _, c := range b {
		switch c {
		case '"':
			out = append(out, "&#34;"...)
		case '\'':
			out = append(out, "&#39;"...)
		case '&':
			out = append(out, "&amp;"...)
		case '<':
			out = append(out, "&lt;"...)
		case '>':
			out = append(out, "&gt;"...)
		case 0:
			out = append(out, "�"...)
		default:
			out = append(out, c)
		}
	}
	return out
}

// hxSet builds a Set over an in-memory loader from (path, content) pairs.
func hxSet(opts []Option, files ...string) *Set {
	l := NewInMemLoader()
	for i := 0; i+1 < len(files); i += 2 {
		l.Set(files[i], files[i+1])
	}
	return NewSet(l, opts...)
}

// hxExec loads and executes a template, returning the rendered bytes and the error.
func hxExec(set *Set, name string, vars VarMap, data interface{}) (string, error) {
	t, err := set.GetTemplate(name)
	if err != nil {
		return "", errors.New("PARSE: " + err.Error())
	}
	var buf bytes.Buffer
	err = t.Execute(&buf, vars, data)
	return buf.String(), err
}

// hxMark is a user-supplied SafeWriter that brackets every chunk it is given.
func hxMark(w io.Writer, b []byte) {
	w.Write([]byte("(#"))
	w.Write(b)
	w.Write([]byte("#)"))
}

// hxFail is a jet.Func that always fails with an error.
func hxFail(a Arguments) reflect.Value {
	panic(errors.New("hxFail"))
}

// hxLog records probe calls.
type hxLog struct{ events []string }

func (l *hxLog) add(s string) { l.events = append(l.events, s) }
func (l *hxLog) String() string {
	s := ""
	for i, e := range l.events {
		if i > 0 {
			s += ","
		}
		s += e
	}
	return s
}

// probe returns a jet.Func that records its name and returns v.
func (l *hxLog) probe(name string, v interface{}) Func {
	return func(a Arguments) reflect.Value {
		l.add(name)
		return reflect.ValueOf(v)
	}
}

// failProbe returns a jet.Func that records its name and then fails.
func (l *hxLog) failProbe(name string) Func {
	return func(a Arguments) reflect.Value {
		l.add(name)
		panic(errors.New("probe " + name + " failed"))
	}
}

// hxStringer implements fmt.Stringer.
type hxStringer struct{ s string }

func (h hxStringer) String() string { return h.s }

// hxErr implements error.
type hxErr struct{ s string }

func (h hxErr) Error() string { return h.s }

func hxContains(s, sub string) bool {
	for i := 0; i+len(sub) <= len(s); i++ {
		if s[i:i+len(sub)] == sub {
			return true
		}
	}
	return false
}
