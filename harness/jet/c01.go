package jet

import (
	"io"
	"reflect"
)

// ---- C01: every rendered value is escaped exactly once; only SafeWriters bypass ----

// c01Contexts: each entry renders the action {{ x }} in one syntactic context. The
// literal text contains HTML-special bytes, which must pass through unescaped.
// pre/post are what the literal parts render around the value.
type c01Ctx struct {
	name      string
	files     []string
	pre, post string
}

var c01Contexts = []c01Ctx{
	{"top", []string{"/m.jet", `<b>{{ x }}&`}, "<b>", "&"},
	{"if", []string{"/m.jet", `<{{ if true }}'{{ x }}'{{ end }}>`}, "<'", "'>"},
	{"else", []string{"/m.jet", `{{ if false }}no{{ else }}"{{ x }}"{{ end }}`}, `"`, `"`},
	{"range", []string{"/m.jet", `{{ range i := ints(0,1) }}<{{ x }}>{{ end }}`}, "<", ">"},
	{"block", []string{"/m.jet", `&{{ block b() }}<{{ x }}>{{ end }}&`}, "&<", ">&"},
	{"yield", []string{"/m.jet", `{{ block b() }}<{{ x }}>{{ end }}|{{ yield b() }}`}, "<", ">|<"},
	{"content", []string{"/m.jet", `{{ block b() }}[{{ yield content }}]{{ end }}|{{ yield b() content }}<{{ x }}>{{ end }}`}, "[]|[<", ">]"},
	{"include", []string{"/m.jet", `<{{ include "/i.jet" }}>`, "/i.jet", `&{{ x }}&`}, "<&", "&>"},
	{"extends", []string{"/m.jet", `{{ extends "/base.jet" }}{{ block body() }}'{{ x }}'{{ end }}`, "/base.jet", `<{{ block body() }}{{ end }}>`}, "<'", "'>"},
	{"try", []string{"/m.jet", `<{{ try }}&{{ x }}&{{ end }}>`}, "<&", "&>"},
	{"catch", []string{"/m.jet", `<{{ try }}{{ fail() }}{{ catch }}&{{ x }}&{{ end }}>`}, "<&", "&>"},
	{"let", []string{"/m.jet", `{{ y := x }}<{{ y }}>`}, "<", ">"},
	{"ternary", []string{"/m.jet", `<{{ true ? x : "no" }}>`}, "<", ">"},
}

func c01Opts(esc int) []Option {
	switch esc {
	case 1:
		return []Option{WithSafeWriter(nil)}
	case 2:
		return []Option{WithSafeWriter(hxMark)}
	}
	return nil
}

// c01Want is the reference rendering of one printed value under escaper configuration esc.
func c01Want(esc int, v string) string {
	if v == "" {
		return ""
	}
	switch esc {
	case 1:
		return v
	case 2:
		return "(#" + v + "#)"
	}
	return string(refEsc([]byte(v)))
}

// H_C01_contexts: {{ x }} with x a string of N arbitrary bytes (N = 2 quick / 3 thorough),
// rendered in 13 syntactic contexts under 3 escaper configurations (default HTML escaper,
// none, user-supplied SafeWriter): the output is the literal text verbatim around the
// Set's escaper applied exactly once to x. The "yield" context renders the value twice.
//
//gosym:reach rendered
func H_C01_contexts() {
	n := 2
	if vfTier() == 1 {
		n = 3
	}
	c := ndChoice("ctx", len(c01Contexts))
	esc := ndChoice("esc", 3)
	x := ndName("x", n)
	ctx := c01Contexts[c]
	set := hxSet(c01Opts(esc), ctx.files...)
	vars := make(VarMap)
	vars.Set("x", x)
	vars.SetFunc("fail", hxFail)
	out, err := hxExec(set, "/m.jet", vars, nil)
	vfAssert(err == nil, "renders without error")
	if err != nil {
		return
	}
	vfReach("rendered")
	w := c01Want(esc, x)
	want := ctx.pre + w + ctx.post
	if ctx.name == "yield" {
		want = ctx.pre + w + ctx.post + w + ">"
	}
	vfNote(out)
	vfAssert(out == want, "literal text verbatim, value escaped exactly once by the Set's escaper")
}

// H_C01_safewriters: a SafeWriter as the last command of a pipeline (piped, call and
// prefix-colon forms; raw, unsafe, safeHtml and a user-supplied writer) applies its own
// escaping instead of the Set's: no double escaping, no escaping by the Set on top.
//
//gosym:reach rendered
func H_C01_safewriters() {
	n := 2
	if vfTier() == 1 {
		n = 3
	}
	forms := []string{`{{ x | W }}`, `{{ W(x) }}`, `{{ W: x }}`, `{{ "a" | upper | W }}`, `{{ x | W: "<" }}`}
	writers := []string{"raw", "unsafe", "safeHtml", "mark"}
	f := ndChoice("form", len(forms))
	w := ndChoice("writer", len(writers))
	esc := ndChoice("esc", 3)
	x := ndName("x", n)
	src := ""
	for i := 0; i < len(forms[f]); i++ {
		if forms[f][i] == 'W' {
			src += writers[w]
		} else {
			src += string(forms[f][i])
		}
	}
	set := hxSet(c01Opts(esc), "/m.jet", "<"+src+">")
	vars := make(VarMap)
	vars.Set("x", x)
	vars.SetWriter("mark", hxMark)
	out, err := hxExec(set, "/m.jet", vars, nil)
	vfAssert(err == nil, "renders without error")
	if err != nil {
		return
	}
	vfReach("rendered")
	own := func(v string) string {
		if v == "" {
			return ""
		}
		switch writers[w] {
		case "safeHtml":
			return string(refEsc([]byte(v)))
		case "mark":
			return "(#" + v + "#)"
		}
		return v
	}
	var want string
	switch f {
	case 3:
		want = own("A")
	case 4:
		want = own(x) + own("<")
	default:
		want = own(x)
	}
	vfNote(out)
	vfAssert(out == "<"+want+">", "the SafeWriter's escaping is applied instead of the Set's, exactly once")
}

// H_C01_writerNotLast: a SafeWriter stage that is not the last command is an error and
// the following stage never runs.
//
//gosym:reach rejected
func H_C01_writerNotLast() {
	writers := []string{"raw", "unsafe", "safeHtml", "safeJs", "mark"}
	w := ndChoice("writer", len(writers))
	forms := []string{`{{ "x" | W | after }}`, `{{ W: "x" | after }}`, `{{ W("x") | after }}`, `{{ "x" | W | after | W }}`, `{{ W: "x" | after: 1 }}`}
	f := ndChoice("form", len(forms))
	src := ""
	for i := 0; i < len(forms[f]); i++ {
		if forms[f][i] == 'W' {
			src += writers[w]
		} else {
			src += string(forms[f][i])
		}
	}
	log := &hxLog{}
	set := hxSet(nil, "/m.jet", src)
	vars := make(VarMap)
	vars.SetWriter("mark", hxMark)
	vars.SetFunc("after", log.probe("after", "y"))
	_, err := hxExec(set, "/m.jet", vars, nil)
	vfReach("rejected")
	vfAssert(err != nil, "a SafeWriter may only come last")
	vfAssert(log.String() == "", "the stage after the writer is never called")
}

// H_C01_kinds: printed forms other than plain strings are escaped as well: []byte,
// fmt.Stringer and error values whose text is symbolic, through the default escaper.
//
//gosym:reach rendered
func H_C01_kinds() {
	n := 2
	x := ndName("x", n)
	kind := ndChoice("kind", 8)
	c01Text = x
	vars := make(VarMap)
	switch kind {
	case 4:
		vars.Set("x", c01IntStringer(3))
	case 5:
		vars.Set("x", c01FloatErr(1.5))
	case 6:
		vars.Set("x", c01BoolStringer(true))
	case 7:
		vars.Set("x", c01UintStringer(7))
	case 0:
		vars.Set("x", []byte(x))
	case 1:
		vars.Set("x", hxStringer{x})
	case 2:
		vars.Set("x", hxErr{x})
	default:
		vars.Set("x", &x)
	}
	set := hxSet(nil, "/m.jet", `<{{ x }}>`)
	out, err := hxExec(set, "/m.jet", vars, nil)
	vfAssert(err == nil, "renders without error")
	if err != nil {
		return
	}
	vfReach("rendered")
	vfNote(out)
	vfAssert(out == "<"+string(refEsc([]byte(x)))+">", "printed form escaped exactly once")
}

// H_C01_long: values longer than fastprinter's 4096-byte chunk are escaped once per
// chunk with nothing lost or duplicated at the chunk edge: 3 symbolic bytes around
// the edge of an otherwise constant string of length 4095..4098 / 8191..8193.
//
//gosym:thorough-only
//gosym:reach rendered
func H_C01_long() {
	lens := []int{4094, 4095, 4096, 4097, 8191, 8192, 8193}
	l := lens[ndChoice("len", len(lens))]
	edge := 4096
	if l > 8000 {
		edge = 8192
	}
	b := make([]byte, l)
	for i := range b {
		b[i] = 'a'
	}
	s := string(b)
	sym := ndString("e", 3)
	at := edge - 2
	if at+3 > l {
		at = l - 3
	}
	x := s[:at] + sym + s[at+3:]
	set := hxSet(nil, "/m.jet", `{{ x }}`)
	vars := make(VarMap)
	vars.Set("x", x)
	out, err := hxExec(set, "/m.jet", vars, nil)
	vfAssert(err == nil, "renders without error")
	if err != nil {
		return
	}
	vfReach("rendered")
	vfAssert(out == s[:at]+string(refEsc([]byte(sym)))+s[at+3:], "chunked value escaped exactly once, in order")
}

// H_C01_defaultSet: a Set created without options has the HTML escaper (no data-derived
// special byte is emitted raw); WithSafeWriter(nil) removes it.
//
//gosym:reach checked
func H_C01_defaultSet() {
	b := ndByte("b")
	x := string([]byte{b})
	set := hxSet(nil, "/m.jet", `{{ x }}`)
	vars := make(VarMap)
	vars.Set("x", x)
	out, err := hxExec(set, "/m.jet", vars, nil)
	vfReach("checked")
	vfAssert(err == nil, "renders")
	for i := 0; i < len(out); i++ {
		c := out[i]
		vfAssert(c != '<' && c != '>' && c != '"' && c != '\'', "no raw special byte with the default Set")
	}
	if b == '&' {
		vfAssert(out == "&amp;", "ampersand escaped")
	}
}

// named types of numeric / bool kind whose printed form is produced by String()/Error()
var c01Text string

type c01IntStringer int

func (c01IntStringer) String() string { return c01Text }

type c01FloatErr float64

func (c01FloatErr) Error() string { return c01Text }

type c01BoolStringer bool

func (c01BoolStringer) String() string { return c01Text }

type c01UintStringer uint8

func (c01UintStringer) String() string { return c01Text }

// H_C01_escaperFollowsSet: the escaper applied is always that of the Set the executed
// template belongs to, also when a Set with a different escaper ran just before on the
// same goroutine (shares the harness of C10).
//
//gosym:reach rendered
func H_C01_escaperFollowsSet() { H_C10_twoSets() }

// H_C01_writerCommands: what a writer command leaves behind and what happens while it
// prints its arguments: (0) a writer command whose argument fails, caught by try, followed
// by an ordinary action; (1) the same failure ending the Execute, followed by another
// Execute on the pooled runtime; (2) a writer command with several arguments one of which
// renders a template that itself uses a writer command (includeIfExists / exec) - the
// later arguments are still escaped by the outer SafeWriter and reach the output; (3) the
// same through a function that calls Runtime.YieldBlock; (5)-(7) writers as block
// parameters, rebound between executions, writeJson; (8) a user-supplied SafeWriter
// registered under the name of a built-in writer (raw, unsafe, safeHtml) as a Set global or
// an Execute variable is the one that renders; (9) after the failure of a template run by
// exec has been absorbed by isset / try, output is written and escaped again. The ordinary actions are escaped by the
// Set's escaper, exactly once.
//
//gosym:reach rendered
func H_C01_writerCommands() {
	sc := ndChoice("scenario", 10)
	esc := ndChoice("esc", 3)
	wi := 0
	if sc <= 1 || sc == 8 {
		wi = ndChoice("writer", 4) // the failing writer command's own writer only matters there
	}
	w := []string{"raw", "unsafe", "safeHtml", "mark"}[wi]
	xn := 2
	if sc == 7 {
		xn = 1 // the json summary concretises its operand: one byte
	}
	x := ndName("x", xn)
	set := hxSet(c01Opts(esc),
		"/r.jet", `[{{ "<c>" | raw }}]`,
		"/e.jet", `{{ "<d>" | raw }}{{ return "<v>" }}`,
		"/lib.jet", `{{ block yb() }}({{ "<y>" | raw }}){{ end }}`,
		"/fail.jet", `a{{ `+w+`: boom() }}b`,
		"/caught.jet", `{{ try }}{{ `+w+`: boom() }}{{ catch }}c{{ end }}<{{ x }}>`,
		"/args1.jet", `{{ safeHtml: "<a>", includeIfExists("/r.jet"), x }}`,
		"/args2.jet", `{{ safeHtml: x, exec("/e.jet"), x }}`,
		"/args3.jet", `{{ import "/lib.jet" }}{{ safeHtml: "<a>", yb(), x }}`,
		"/plain.jet", `<{{ x }}>`,
		"/param.jet", `{{ block cell(wr=raw, v="<hr>") }}{{ v | wr }}{{ end }}|{{ yield cell(wr=safeHtml, v=x) }}|{{ yield cell(wr=raw, v=x) }}`,
		"/bound.jet", `<{{ x | wv }}>`,
		"/json.jet", `<{{ x | writeJson }}>{{ writeJson(x) }}`,
		"/bad.jet", `{{ "<d>" | raw }}{{ range one }}{{ boom() }}{{ end }}`,
		"/absorbed.jet", `{{ isset(exec("/bad.jet")) }}<{{ x }}>{{ x | raw }}|{{ try }}{{ exec("/bad.jet") }}{{ end }}<{{ x }}>text`,
		"/own.jet", `<{{ x | `+w+` }}>{{ `+w+`: x }}{{ try }}{{ x | `+w+` }}{{ end }}{{ range one }}{{ x | `+w+` }}{{ end }}`,
	)
	vars := func() VarMap {
		v := make(VarMap)
		v.Set("x", x)
		v.SetWriter("mark", hxMark)
		v.SetFunc("boom", hxFail)
		v.SetFunc("yb", func(a Arguments) reflect.Value {
			a.Runtime().YieldBlock("yb", nil)
			return reflect.ValueOf("")
		})
		return v
	}
	h := string(refEsc([]byte(x)))
	if x == "" {
		h = ""
	}
	var out, want string
	var err error
	switch sc {
	case 0:
		out, err = hxExec(set, "/caught.jet", vars(), nil)
		want = "c<" + c01Want(esc, x) + ">"
	case 1:
		hxExec(set, "/fail.jet", vars(), nil)
		out, err = hxExec(set, "/plain.jet", vars(), nil)
		want = "<" + c01Want(esc, x) + ">"
	case 2:
		out, err = hxExec(set, "/args1.jet", vars(), nil)
		want = "&lt;a&gt;[<c>]true" + h
	case 3:
		out, err = hxExec(set, "/args2.jet", vars(), nil)
		want = h + "&lt;v&gt;" + h
	case 4:
		out, err = hxExec(set, "/args3.jet", vars(), nil)
		want = "&lt;a&gt;(<y>)" + h
	case 5:
		// the writer is a block parameter: each yield names its own
		out, err = hxExec(set, "/param.jet", vars(), nil)
		want = "<hr>|" + h + "|" + x
	case 6:
		// the same piped command node with the name bound to different things in
		// successive executions: a SafeWriter, another SafeWriter, an ordinary function
		vfAssume(x != "") // (a writer is not invoked for an empty value)
		v1 := vars()
		v1.SetWriter("wv", func(wr io.Writer, b []byte) { wr.Write(b) })
		hxExec(set, "/bound.jet", v1, nil)
		v2 := vars()
		if ndBool("thenFunc") {
			v2.Set("wv", func(s string) string { return "f" + s })
			out, err = hxExec(set, "/bound.jet", v2, nil)
			want = "<" + c01Want(esc, "f"+x) + ">"
		} else {
			v2.SetWriter("wv", hxMark)
			out, err = hxExec(set, "/bound.jet", v2, nil)
			want = "<(#" + x + "#)>"
		}
	case 9:
		// a template run by exec fails while its output is being discarded, and the failure
		// is absorbed (by isset, by try): what follows is written, escaped as ever
		v := vars()
		v.Set("one", []int{1})
		out, err = hxExec(set, "/absorbed.jet", v, nil)
		want = c01Want(esc, "false") + "<" + c01Want(esc, x) + ">" + x + "|<" + c01Want(esc, x) + ">text"
	case 8:
		// a SafeWriter of the user's own under the name of a built-in one (or under a
		// name of its own), given as a Set global or as an Execute variable: it is the
		// user's writer that gets the value, alone
		vfAssume(x != "")
		v := vars()
		if ndBool("global") {
			set.AddGlobal(w, SafeWriter(hxMark))
		} else {
			v.SetWriter(w, hxMark)
		}
		v.Set("one", []int{1})
		out, err = hxExec(set, "/own.jet", v, nil)
		m := "(#" + x + "#)"
		want = "<" + m + ">" + m + m + m
	default:
		// writeJson renders through its own Renderer: data-derived <, > and & never reach
		// the output raw (printable ASCII data)
		for i := 0; i < len(x); i++ {
			vfAssume(x[i] >= 0x20 && x[i] < 0x7f)
		}
		out, err = hxExec(set, "/json.jet", vars(), nil)
		want = "<" + c14JSONString(x) + "\n>" + c14JSONString(x) + "\n"
	}
	vfReach("rendered")
	vfAssert(err == nil, "renders")
	vfNote(out)
	vfAssert(out == want, "values escaped exactly once by the escaper in charge; nothing lost")
}

// H_C01_nested (thorough): the action {{ x }} (or {{ x | raw }} / {{ x | safeHtml }}) inside
// three nested constructs out of eight (if, else branch, range, block definition site,
// content of a yield, try body, catch body, included file), each contributing literal text
// with HTML-special bytes, under the three escaper configurations: literal text verbatim,
// the value escaped exactly once by the Set's escaper, or by the SafeWriter alone when one
// is the last command.
//
//gosym:reach rendered
//gosym:thorough-only
//gosym:opts maxpaths=600000 wall=1500
func H_C01_nested() {
	esc := ndChoice("esc", 3)
	sw := ndChoice("writer", 3) // 0 none, 1 raw, 2 safeHtml
	x := ndName("x", 2)
	action := []string{`{{ x }}`, `{{ x | raw }}`, `{{ x | safeHtml }}`}[sw]
	body, pre, post := action, "", ""
	var files []string
	for level := 0; level < 3; level++ {
		k := ndChoice("w"+ndItoa(level), 8)
		t := ndItoa(level)
		switch k {
		case 0:
			body, pre, post = `<{{ if true }}'`+body+`'{{ end }}>`, "<'"+pre, post+"'>"
		case 1:
			body, pre, post = `{{ if false }}no{{ else }}"`+body+`"{{ end }}`, `"`+pre, post+`"`
		case 2:
			body, pre, post = `{{ range one }}&`+body+`&{{ end }}`, "&"+pre, post+"&"
		case 3:
			body, pre, post = `{{ block b`+t+`() }}<`+body+`>{{ end }}`, "<"+pre, post+">"
		case 4:
			body, pre, post = `{{ yield wrap() content }}'`+body+`'{{ end }}`, "['"+pre, post+"']"
		case 5:
			body, pre, post = `{{ try }}&`+body+`&{{ end }}`, "&"+pre, post+"&"
		case 6:
			body, pre, post = `{{ try }}{{ fail() }}{{ catch }}<`+body+`>{{ end }}`, "<"+pre, post+">"
		default:
			files = append(files, "/inc"+t+".jet", `"`+body+`"`)
			body, pre, post = `{{ include "/inc`+t+`.jet" }}`, `"`+pre, post+`"`
		}
	}
	files = append(files, "/lib.jet", `{{ block wrap() }}[{{ yield content }}]{{ end }}`, "/m.jet", `{{ import "/lib.jet" }}`+body)
	set := hxSet(c01Opts(esc), files...)
	vars := make(VarMap)
	vars.Set("x", x)
	vars.Set("one", []int{1})
	vars.SetFunc("fail", hxFail)
	out, err := hxExec(set, "/m.jet", vars, nil)
	vfAssert(err == nil, "renders without error")
	if err != nil {
		return
	}
	vfReach("rendered")
	var w string
	switch sw {
	case 0:
		w = c01Want(esc, x)
	case 1:
		w = x
	default:
		w = string(refEsc([]byte(x)))
		if x == "" {
			w = ""
		}
	}
	vfNote(out)
	vfAssert(out == pre+w+post, "literal text verbatim; the value escaped exactly once, by the last SafeWriter if there is one")
}
