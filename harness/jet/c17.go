package jet

import "reflect"

// ---- C17: isset never fails and is true exactly when every argument exists and is non-nil ----

type c17Node struct {
	V    int
	S    string
	B    bool
	Next *c17Node
	M    map[string]*c17Node
	I    interface{}
	L    []int
	u    int
}

func (n *c17Node) Get() *c17Node { return n.Next }

// c17Build builds a data graph of depth <= 2 with symbolic nil-ness at each level and
// symbolic leaf values (zero values included).
func c17Build() (root *c17Node, present map[string]bool) {
	present = map[string]bool{}
	if ndBool("root.nil") {
		return nil, present
	}
	root = &c17Node{V: ndInt("root.V"), S: ndName("root.S", 1), B: ndBool("root.B")}
	present["d"] = true
	present["d.V"], present["d.S"], present["d.B"] = true, true, true
	if !ndBool("next.nil") {
		root.Next = &c17Node{V: ndInt("next.V")}
		present["d.Next"], present["d.Next.V"], present["d.Next.S"] = true, true, true
	}
	if !ndBool("map.nil") {
		root.M = map[string]*c17Node{}
		present["d.M"] = true
		if ndBool("map.has") {
			if ndBool("map.valnil") {
				root.M["k"] = nil
			} else {
				root.M["k"] = &c17Node{V: 0}
				present["d.M.k"], present["d.M.k.V"] = true, true
				present[`d.M["k"]`], present[`d.M["k"].V`] = true, true
			}
		}
	}
	if !ndBool("iface.nil") {
		root.I = 0
		present["d.I"] = true
	}
	if !ndBool("list.nil") {
		root.L = []int{0}
		present["d.L"], present["d.L[0]"] = true, true
	}
	return
}

var c17Paths = []string{
	"d", "d.V", "d.S", "d.B", "d.Next", "d.Next.V", "d.Next.S", "d.Next.Next.V", "d.M", "d.M.k", "d.M.k.V", `d.M["k"]`, `d.M["k"].V`,
	"d.M.zz", "d.M.zz.V", "d.I", "d.L", "d.L[0]", "d.L[5]", "d.Nope", "d.Nope.X", "d.u", "nope", "nope.x", "d.V.X", `d.L["x"]`, "d.M[0]",
	// evaluation that fails inside Go's runtime rather than in jet (unhashable key,
	// integer modulo by zero in an index): still just "not set"
	"anyKey[sliceKey]", "d.L[1%zero]",
	// maps keyed by a defined string / integer type
	"langs.en", `langs["en"]`, "langs.de", "langs.fr", "hits[idk]",
	// arrays (by value, nested, behind a pointer)
	"cells[1]", "rows[0][1]", "pcells[2]", "cells[3]", "rows[2][0]",
	// unexported fields, however reached
	`d["u"]`, "d.Next.u", "d.M.k.u",
	// fields promoted through four levels of embedding, some nil and some not
	"deep.First", "deep.Second", "deep.Last", "deep2.First", "deep2.Last",
	// through values of a non-empty interface type (field, slice element, map value)
	"sh.Shape.Radius", "sh.Shape.Label", "sh.Shape.Tags.a", "sh.Shapes[0].Label", "sh.ByName.c.Radius", `sh.ByName["c"].Tags["a"]`,
	"sh.Shape.Nope", "sh.Nil.Radius", "sh.Shape.Tags.zz",
}

type C17L3 struct{ First, Second, Last *int }
type C17L2 struct{ C17L3 }
type C17L1 struct{ C17L2 }
type c17Top struct{ C17L1 }

type c17Shape interface{ Area() int }
type c17Circle struct {
	Radius int
	Label  string
	Tags   map[string]int
}

func (c *c17Circle) Area() int { return c.Radius }

type c17Shapes struct {
	Shape  c17Shape
	Nil    c17Shape
	Shapes []c17Shape
	ByName map[string]c17Shape
}

type c17Lang string
type c17ID int64

// c17Extra: variables for the paths that do not start at d.
func c17Extra(vars VarMap, present map[string]bool) {
	vars.Set("anyKey", map[interface{}]int{"k": 1})
	vars.Set("sliceKey", []int{1})
	vars.Set("zero", 0)
	vars.Set("langs", map[c17Lang]string{"en": "x", "de": ""})
	vars.Set("hits", map[c17ID]int{7: 0})
	vars.Set("idk", int64(7))
	present["langs.en"], present[`langs["en"]`], present["langs.de"], present["hits[idk]"] = true, true, true, true
	vars.Set("cells", [3]int{0, 1, 2})
	vars.Set("rows", [2][2]string{{"a", ""}, {"c", "d"}})
	vars.Set("pcells", &[3]int{0, 1, 2})
	present["cells[1]"], present["rows[0][1]"], present["pcells[2]"] = true, true, true
	one := 1
	vars.Set("deep", c17Top{C17L1{C17L2{C17L3{First: &one, Second: &one}}}})
	vars.Set("deep2", &c17Top{C17L1{C17L2{C17L3{Last: &one}}}})
	present["deep.First"], present["deep.Second"], present["deep2.Last"] = true, true, true
	circle := &c17Circle{Radius: 0, Label: "", Tags: map[string]int{"a": 0}}
	vars.Set("sh", c17Shapes{Shape: circle, Shapes: []c17Shape{circle}, ByName: map[string]c17Shape{"c": circle}})
	for _, p := range []string{"sh.Shape.Radius", "sh.Shape.Label", "sh.Shape.Tags.a", "sh.Shapes[0].Label", "sh.ByName.c.Radius", `sh.ByName["c"].Tags["a"]`} {
		present[p] = true
	}
}

// H_C17_paths: isset(P) for 27 access paths (fields, chains, indexes, map keys; valid,
// missing, unexported, of the wrong kind, out of range) over a data graph with symbolic
// nil-ness at every level and symbolic leaf values: Execute never fails, and the result is
// true exactly when every step exists and the final value is non-nil (zero numbers, empty
// strings and false count as existing) - direct, piped and two-argument forms.
//
//gosym:reach true,false
func H_C17_paths() {
	root, present := c17Build()
	p := ndChoice("path", len(c17Paths))
	form := ndChoice("form", 7)
	path := c17Paths[p]
	var src string
	switch form {
	case 0:
		src = `{{ isset(` + path + `) }}`
	case 6:
		// the same path looked up again and again gives the same answer every time
		src = `{{ isset(` + path + `) }}{{ isset(` + path + `) }}{{ isset(one, ` + path + `) }}`
	case 1:
		src = `{{ ` + path + ` | isset }}`
	case 3:
		src = `{{ ` + path + ` | isset(_) }}`
	case 4:
		src = `{{ ` + path + ` | isset(one, _) }}`
	case 5:
		src = `{{ ` + path + ` | isset: one }}`
	default:
		src = `{{ isset(one, ` + path + `) }}`
	}
	if path == "anyKey[sliceKey]" || path == "d.L[1%zero]" {
		// piped, the operand is evaluated before isset sees it, and jet lets Go runtime
		// errors of ordinary evaluation propagate: only the direct forms are claimed
		vfAssume(form == 0 || form == 2 || form == 6)
	}
	set := hxSet(nil, "/m.jet", src)
	vars := make(VarMap)
	if root != nil {
		vars.Set("d", root)
	} else {
		vars.Set("d", root) // typed nil pointer
	}
	vars.Set("one", 1)
	c17Extra(vars, present)
	out, err := hxExec(set, "/m.jet", vars, nil)
	if form == 1 || form >= 3 {
		// the piped form evaluates its operand before isset sees it: an operand that cannot
		// be evaluated is an ordinary evaluation error there, so only valid operands are claimed
		if err != nil {
			vfAssert(!present[path], "piping an existing value into isset does not fail")
			// an operand that evaluates (to nothing: an absent key, a nil) is not an error either
			v2 := make(VarMap)
			v2.Set("d", root)
			v2.Set("one", 1)
			c17Extra(v2, map[string]bool{})
			_, plainErr := hxExec(hxSet(nil, "/p.jet", `{{ x := `+path+` }}`), "/p.jet", v2, nil)
			vfAssert(plainErr != nil, "piping an operand that evaluates without error into isset does not fail")
			return
		}
	}
	vfAssert(err == nil, "isset never fails")
	t, f := "true", "false"
	if form == 6 {
		t, f = "truetruetrue", "falsefalsefalse"
	}
	if present[path] {
		vfReach("true")
		vfAssert(out == t, "existing non-nil value (zero values included) is set")
	} else {
		vfReach("false")
		vfNote(out)
		vfAssert(out == f, "missing step or nil value is not set")
	}
}

// H_C17_commaOk: v, ok := m[k] binds ok to whether the key is present (also for a
// present key whose value is nil or zero).
//
//gosym:reach present,absent
func H_C17_commaOk() {
	has := ndBool("has")
	kind := ndChoice("kind", 7)
	vars := make(VarMap)
	switch kind {
	case 6: // round 8: present key holding a nil value of a non-empty interface type
		m := map[string]error{}
		if has {
			m["k"] = nil
		}
		vars.Set("m", m)
	case 0:
		m := map[string]int{}
		if has {
			m["k"] = ndInt("v")
		}
		vars.Set("m", m)
	case 1:
		m := map[string]*c17Node{}
		if has {
			m["k"] = &c17Node{}
		}
		vars.Set("m", m)
	case 2:
		m := map[string]string{}
		if has {
			m["k"] = ndName("s", 1)
		}
		vars.Set("m", m)
	case 3: // present key holding a nil interface
		m := map[string]interface{}{}
		if has {
			m["k"] = nil
		}
		vars.Set("m", m)
	case 4: // present key holding a nil pointer
		m := map[string]*c17Node{}
		if has {
			m["k"] = nil
		}
		vars.Set("m", m)
	default: // present key holding a nil slice
		m := map[string][]int{}
		if has {
			m["k"] = nil
		}
		vars.Set("m", m)
	}
	forms := []string{
		`{{ v, ok := m["k"] }}{{ ok }}{{ if ok }}!{{ end }}`,
		`{{ _, ok := m["k"] }}{{ ok }}{{ if ok }}!{{ end }}`,
		`{{ v := 0 }}{{ ok := "stale" }}{{ v, ok = m["k"] }}{{ ok }}{{ if ok }}!{{ end }}`,
		`{{ ok := "stale" }}{{ _, ok = m["k"] }}{{ ok }}{{ if ok }}!{{ end }}`,
		`{{ if _, ok := m["k"]; ok }}true!{{ else }}false{{ end }}`,
		`{{ v, _ := m["k"] }}{{ isset(m.k) || !isset(m.k) ? "" : "" }}` + `{{ w, ok := m["k"] }}{{ ok }}{{ if ok }}!{{ end }}`,
	}
	set := hxSet(nil, "/m.jet", forms[ndChoice("form", len(forms))])
	out, err := hxExec(set, "/m.jet", vars, nil)
	vfAssert(err == nil, "renders")
	if has {
		vfReach("present")
		vfAssert(out == "true!", "ok is true for a present key")
	} else {
		vfReach("absent")
		vfAssert(out == "false", "ok is false for an absent key")
	}
}

// H_C17_pairs (thorough): isset(P, Q) and isset(P) && isset(Q) for every ordered pair of
// the 27 access paths over the same symbolic data graph: never fails, true exactly when
// both paths are set; also inside an if condition and negated.
//
//gosym:reach true,false
//gosym:thorough-only
//gosym:opts maxpaths=1200000 wall=1500
func H_C17_pairs() {
	root, present := c17Build()
	p := ndChoice("p", len(c17Paths))
	q := ndChoice("q", len(c17Paths))
	form := ndChoice("form", 3)
	P, Q := c17Paths[p], c17Paths[q]
	var src, yes, no string
	switch form {
	case 0:
		src, yes, no = `{{ isset(`+P+`, `+Q+`) }}`, "true", "false"
	case 1:
		src, yes, no = `{{ if isset(`+P+`) && isset(`+Q+`) }}Y{{ else }}N{{ end }}`, "Y", "N"
	default:
		src, yes, no = `{{ if !isset(`+P+`, `+Q+`) }}N{{ else }}Y{{ end }}`, "Y", "N"
	}
	set := hxSet(nil, "/m.jet", src)
	vars := make(VarMap)
	vars.Set("d", root)
	c17Extra(vars, present)
	both := present[P] && present[Q] // (c17Extra records which of its own paths exist)
	out, err := hxExec(set, "/m.jet", vars, nil)
	vfAssert(err == nil, "isset never fails")
	if both {
		vfReach("true")
		vfAssert(out == yes, "both arguments exist and are non-nil: set")
	} else {
		vfReach("false")
		vfAssert(out == no, "a missing step or nil value in either argument: not set")
	}
}

// H_C17_shadowedNil: isset of an identifier (and of chains / indexes rooted at it) whose
// innermost binding holds nil - declared nil, the value half of a missed lookup, a nil
// pointer - while a same-named non-nil variable exists further out (template scope,
// Execute variable, global): false; interface-held typed nils (elements of []interface{},
// map[string]interface{} values, interface fields) are not set either.
//
//gosym:reach checked
func H_C17_shadowedNil() {
	form := ndChoice("form", 16)
	srcs := []string{
		`{{ v := "outer" }}{{ if true }}{{ v := nil }}{{ isset(v) }}{{ end }}`,
		`{{ v := "outer" }}{{ if true }}{{ v, ok := m["absent"] }}{{ isset(v) }}{{ end }}`,
		`{{ v := m }}{{ if true }}{{ v := nil }}{{ isset(v.k) }}{{ end }}`,
		`{{ if true }}{{ ev := nil }}{{ isset(ev) }}{{ end }}`,
		`{{ if true }}{{ gv := nilPtr }}{{ isset(gv) }}{{ end }}`,
		`{{ isset(ifs[0]) }}`,
		`{{ isset(ifs[1]) }}`,
		`{{ isset(ifs[2]) }}`,
		`{{ isset(ifm.p) }}`,
		`{{ isset(one, ifs[0]) }}`,
		`{{ isset(nilFunc) }}`,
		`{{ isset(nilChan) }}`,
		`{{ isset(h.OnDone) }}`,
		`{{ isset(h.Events) }}`,
		`{{ nilChan | isset }}`,
		`{{ isset(ifm.f) }}`,
	}
	set := hxSet(nil, "/m.jet", srcs[form])
	set.AddGlobal("gv", "global")
	vars := make(VarMap)
	vars.Set("ev", "execute")
	vars.Set("m", map[string]string{"k": "v"})
	var np *c17Node
	var nm map[string]int
	var ns []int
	vars.Set("nilPtr", np)
	vars.Set("ifs", []interface{}{np, nm, ns})
	var nf func()
	var nc chan int
	vars.Set("ifm", map[string]interface{}{"p": np, "f": nf})
	vars.Set("one", 1)
	vars.Set("nilFunc", nf)
	vars.Set("nilChan", nc)
	vars.Set("h", struct {
		OnDone func()
		Events chan int
	}{})
	out, err := hxExec(set, "/m.jet", vars, nil)
	vfReach("checked")
	vfAssert(err == nil, "isset never fails")
	vfAssert(out == "false", "the innermost binding decides; a nil of any nilable kind (pointer, map, slice, func, chan), also held in an interface, is not set")
}

// H_C17_expressions: isset of arguments that are not access paths - the nil literal, calls
// returning nil / a nil pointer / a value, literals, operations - alone, after a set
// argument, and through Arguments.IsSet of a custom function: true exactly when the
// argument evaluates to something that is not nil; never a failure.
//
//gosym:reach checked
func H_C17_expressions() {
	exprs := []string{`nil`, `getNil()`, `getNilPtr()`, `getVal()`, `1 + 2`, `"s"`, `0`, `false`, `""`, `d.Get()`, `boom()`}
	wants := []bool{false, false, false, true, true, true, true, true, true, false, false}
	e := ndChoice("expr", len(exprs))
	form := ndChoice("form", 3)
	src := []string{`{{ isset(` + exprs[e] + `) }}`, `{{ isset(one, ` + exprs[e] + `) }}`, `{{ js("a", ` + exprs[e] + `) }}`}[form]
	set := hxSet(nil, "/m.jet", src)
	vars := make(VarMap)
	vars.Set("one", 1)
	vars.Set("d", &c17Node{})
	vars.Set("getNil", func() interface{} { return nil })
	vars.Set("getNilPtr", func() *c17Node { return nil })
	vars.Set("getVal", func() int { return 0 })
	vars.SetFunc("boom", hxFail)
	vars.SetFunc("js", func(a Arguments) reflect.Value {
		if a.IsSet(1) {
			return reflect.ValueOf("true")
		}
		return reflect.ValueOf("false")
	})
	out, err := hxExec(set, "/m.jet", vars, nil)
	vfReach("checked")
	vfAssert(err == nil, "isset never fails")
	want := "false"
	if wants[e] {
		want = "true"
	}
	vfAssert(out == want, "set exactly when the argument evaluates to something that is not nil")
}
