package jet

// ---- C08: extends renders the root layout; blocks resolve to the most-derived definition ----

// H_C08_precedence: /main.jet extends /mid.jet extends /base.jet and imports /i1.jet then
// /i2.jet; each of main, i2, i1, mid defines block b or not (symbolic flags; base always
// does, at a definition site, and also yields it). Executing main renders base's body with
// the definition of highest precedence at both sites: own > later import > earlier import
// > extended chain (nearest first). Text outside blocks in main and mid and the bodies of
// the imports never reach the output.
//
//gosym:reach own,import2,import1,mid,base
func H_C08_precedence() {
	own, i2, i1, mid := ndBool("own"), ndBool("i2"), ndBool("i1"), ndBool("mid")
	def := func(on bool, s string) string {
		if on {
			return `{{ block b() }}` + s + `{{ end }}`
		}
		return ""
	}
	set := hxSet(nil,
		"/base.jet", `<{{ block b() }}BASE{{ end }}|{{ yield b() }}>{{ yield deep() }}{{ yield deep2() }}{{ yield viaExt() }}{{ yield only1() }}`,
		"/mid.jet", `{{ extends "/base.jet" }}MIDTEXT`+def(mid, "MID"),
		"/i0.jet", `{{ block deep() }}DEEP{{ end }}{{ block deep2() }}D2{{ end }}`,
		"/i0base.jet", `{{ block viaExt() }}VE{{ end }}`,
		"/i1.jet", `{{ extends "/i0base.jet" }}{{ import "/i0.jet" }}I1TEXT`+def(i1, "I1")+`{{ block only1() }}x{{ end }}{{ block deep2() }}D2I1{{ end }}`,
		"/i2.jet", `I2TEXT`+def(i2, "I2"),
		"/main.jet", `{{ extends "/mid.jet" }}{{ import "/i1.jet" }}{{ import "/i2.jet" }}MAINTEXT`+def(own, "OWN"),
	)
	out, err := hxExec(set, "/main.jet", nil, nil)
	vfAssert(err == nil, "renders")
	want := "BASE"
	switch {
	case own:
		vfReach("own")
		want = "OWN"
	case i2:
		vfReach("import2")
		want = "I2"
	case i1:
		vfReach("import1")
		want = "I1"
	case mid:
		vfReach("mid")
		want = "MID"
	default:
		vfReach("base")
	}
	vfNote(out)
	vfAssert(out == "<"+want+"|"+want+">DEEPD2I1VEx", "root body rendered with the most-derived block definition (also for blocks an import got from its own imports / extends); nothing else reaches the output")
}

// H_C08_params: a block with two defaulted parameters yielded with every subset and order
// of named arguments (values symbolic 1-byte strings): supplied arguments are matched by
// name, omitted ones take their defaults.
//
//gosym:reach rendered
func H_C08_params() {
	forms := []string{``, `a=x`, `b=y`, `a=x, b=y`, `b=y, a=x`}
	f := ndChoice("form", len(forms))
	outer := ndBool("outerSameName") // a variable named like a parameter is visible at the call site
	x, y := ndString("x", 1), ndString("y", 1)
	set := hxSet([]Option{WithSafeWriter(nil)},
		"/lib.jet", `{{ block p(a="A", b="B") }}[{{ a }}|{{ b }}]{{ end }}{{ block q(a="QA") }}{{ a = "changed" }}({{ a }}){{ end }}`,
		"/main.jet", `{{ import "/lib.jet" }}`+c08If(outer, `{{ a := "OUT" }}{{ b := "OUT" }}`)+`{{ yield p(`+forms[f]+`) }}{{ yield q() }}`+c08If(outer, `<{{ a }}{{ b }}>`),
	)
	vars := make(VarMap)
	vars.Set("x", x)
	vars.Set("y", y)
	out, err := hxExec(set, "/main.jet", vars, nil)
	vfReach("rendered")
	vfAssert(err == nil, "renders")
	a, b := "A", "B"
	if f == 1 || f == 3 || f == 4 {
		a = x
	}
	if f == 2 || f == 3 || f == 4 {
		b = y
	}
	vfNote(out)
	tail := "(changed)"
	if outer {
		tail += "<OUTOUT>"
	}
	vfAssert(out == "["+a+"|"+b+"]"+tail, "named arguments matched by name in any order; omitted ones take their defaults, whatever is visible at the call site")
}

// H_C08_content: 'yield content' inside a block renders the caller-supplied content in
// the caller's variable scope (the caller's variables are visible, the block's own are
// not), the block's own default content at its definition site, and nested
// content-in-content resolves level by level.
//
//gosym:reach rendered
func H_C08_content() {
	form := ndChoice("form", 6)
	v := ndString("v", 1)
	srcs := []string{
		// caller content sees the caller's variable, not the block's
		`{{ import "/lib.jet" }}{{ cv := v }}{{ yield c() content }}{{ cv }}{{ isset(bw) }}{{ end }}`,
		// definition site renders the block's default content
		`{{ block d() }}({{ yield content }}){{ content }}DEF{{ v }}{{ end }}`,
		// nested: the inner yield's content is the inner one; the outer one is back afterwards
		`{{ import "/lib.jet" }}{{ yield c() content }}o{{ yield c() content }}i{{ v }}{{ end }}o{{ end }}`,
		// a caller-supplied content overrides the default
		`{{ import "/lib.jet" }}{{ yield dd() content }}{{ v }}{{ end }}`,
		// a block that yields its content twice renders it twice
		`{{ import "/lib.jet" }}{{ yield twice() content }}{{ v }}{{ end }}`,
		// ... also when the content itself yields another block with content
		`{{ import "/lib.jet" }}{{ yield twice() content }}{{ yield c() content }}{{ v }}{{ end }}{{ end }}`,
	}
	set := hxSet([]Option{WithSafeWriter(nil)},
		"/lib.jet", `{{ block c() }}{{ bw := 1 }}({{ yield content }}){{ end }}{{ block dd() }}<{{ yield content }}>{{ content }}DEF{{ end }}{{ block twice() }}[{{ yield content }}|{{ yield content }}]{{ content }}T{{ end }}`,
		"/main.jet", srcs[form],
	)
	vars := make(VarMap)
	vars.Set("v", v)
	out, err := hxExec(set, "/main.jet", vars, nil)
	vfReach("rendered")
	vfAssert(err == nil, "renders")
	var want string
	switch form {
	case 0:
		want = "(" + v + "false)"
	case 1:
		want = "(DEF" + v + ")"
	case 2:
		want = "(o(i" + v + ")o)"
	case 3:
		want = "<" + v + ">"
	case 4:
		want = "[" + v + "|" + v + "]"
	default:
		want = "[(" + v + ")|(" + v + ")]"
	}
	vfNote(out)
	vfAssert(out == want, "content renders in the caller's scope; defaults at definition sites")
}

// H_C08_placement: a block definition and its yield placed inside range / if / content /
// another block, recursively yielding itself with a decreasing counter: every site renders
// the same most-derived definition.
//
//gosym:reach rendered
func H_C08_placement() {
	n := ndChoice("n", 3)
	set := hxSet(nil,
		"/base.jet", `{{ block item(k=0) }}base{{ end }}`,
		"/main.jet", `{{ extends "/base.jet" }}{{ block item(k=0) }}[{{ k }}{{ if k > 0 }}{{ yield item(k=k-1) }}{{ end }}]{{ end }}`,
		"/use.jet", `{{ import "/main.jet" }}{{ range i := ints(0, 2) }}{{ if true }}{{ yield item(k=N) }}{{ end }}{{ end }}`,
	)
	vars := make(VarMap)
	vars.Set("N", n)
	out, err := hxExec(set, "/use.jet", vars, nil)
	vfReach("rendered")
	vfAssert(err == nil, "renders")
	one := ""
	for k := n; k >= 0; k-- {
		one += "[" + ndItoa(k)
	}
	for k := n; k >= 0; k-- {
		one += "]"
	}
	vfAssert(out == one+one, "recursive yields inside range/if resolve to the same definition")
}

func c08If(c bool, s string) string {
	if c {
		return s
	}
	return ""
}

// H_C08_isolation: two pages import the same library; page A also defines a block of the
// library's name (and / or imports a second library that does); whichever page was loaded
// first (symbolic order), executing page B - which only imports the library - and the
// library itself render the library's own definitions: one template's overrides never
// leak into another template's (or the shared library's) block table.
//
//gosym:reach rendered
func H_C08_isolation() {
	aOwn, aLib2 := ndBool("aOwn"), ndBool("aLib2")
	aFirst := ndBool("aFirst")
	aExtends := ndBool("aExtendsPlain") // A extends a template without blocks
	a := ""
	if aExtends {
		a = `{{ extends "/plain.jet" }}`
	}
	a += `{{ import "/lib.jet" }}`
	if aLib2 {
		a += `{{ import "/lib2.jet" }}`
	}
	if aOwn {
		a += `{{ block title() }}A-title{{ end }}`
	}
	a += `{{ yield title() }}|{{ yield footer() }}`
	set := hxSet(nil,
		"/plain.jet", `P`,
		"/lib.jet", `{{ block title() }}lib-title{{ end }}{{ block footer() }}lib-footer{{ end }}`,
		"/lib2.jet", `{{ block title() }}lib2-title{{ end }}`,
		"/a.jet", a,
		"/b.jet", `{{ import "/lib.jet" }}{{ yield title() }}|{{ yield footer() }}`,
	)
	if aFirst {
		hxExec(set, "/a.jet", nil, nil)
	}
	outB, errB := hxExec(set, "/b.jet", nil, nil)
	if !aFirst {
		hxExec(set, "/a.jet", nil, nil)
	}
	outB2, errB2 := hxExec(set, "/b.jet", nil, nil)
	outL, errL := hxExec(set, "/lib.jet", nil, nil)
	vfReach("rendered")
	vfAssert(errB == nil && errB2 == nil && errL == nil, "renders")
	vfNote(outB2)
	vfAssert(outB == "lib-title|lib-footer" && outB2 == "lib-title|lib-footer", "a page that only imports the library renders the library's definitions")
	vfAssert(outL == "lib-titlelib-footer", "the library itself renders its own definitions")
}

// H_C08_overrideSite: a block definition site in a layout, overridden by the executed page
// (directly, or through an intermediate template, or by an import) with different parameter
// defaults, context expression and default content: the site renders the overriding
// definition with ITS defaults, ITS context and ITS default content.
//
//gosym:reach rendered
func H_C08_overrideSite() {
	how := ndChoice("how", 3) // 0 page's own, 1 intermediate template's, 2 an import's
	over := `{{ block b(p=2, q="Q2") "pctx" }}<{{ p }}{{ q }}|{{ . }}|{{ yield content }}>{{ content }}PC{{ end }}`
	page, mid, imp := `{{ extends "/mid.jet" }}`, `{{ extends "/layout.jet" }}`, `x`
	switch how {
	case 0:
		page += over
	case 1:
		mid += over
	default:
		page += `{{ import "/imp.jet" }}`
		imp = over
	}
	set := hxSet(nil,
		"/layout.jet", `L{{ block b(p=1, q="Q1") "lctx" }}[{{ p }}{{ q }}|{{ . }}|{{ yield content }}]{{ content }}LC{{ end }}E`,
		"/mid.jet", mid, "/imp.jet", imp, "/page.jet", page,
	)
	out, err := hxExec(set, "/page.jet", nil, "data")
	vfReach("rendered")
	vfAssert(err == nil, "renders")
	vfNote(out)
	vfAssert(out == "L<2Q2|pctx|PC>E", "the definition site renders the most-derived definition with that definition's defaults, context and default content")
}

// H_C08_generated (thorough): generated template sets - an extends chain of depth 0..2
// (page -> mid -> root), every template with up to two imports of its own; each of the up to
// nine templates defines block b or not (the root always does, at a definition site, and
// also yields it): executing the page renders the root body with the definition of highest
// precedence at both sites - the page's own, then its imports (later over earlier), then
// the same for each ancestor in turn - and nothing of the text outside blocks in the
// extending templates or of the imports' bodies.
//
//gosym:reach rendered
//gosym:thorough-only
//gosym:opts maxpaths=400000 wall=1500
func H_C08_generated() {
	depth := ndChoice("depth", 3)
	names := []string{"page", "mid", "root"}
	chain := names[2-depth:] // depth 0: [root]; 1: [mid root]; 2: [page mid root]
	var files []string
	winner := ""
	for k, n := range chain {
		isRoot := k == len(chain)-1
		src := ""
		if !isRoot {
			src = `{{ extends "/` + chain[k+1] + `.jet" }}`
		}
		// imports: slot state 0 absent, 1 present without b, 2 present with b
		i1 := ndChoice(n+".imp1", 3)
		i2 := ndChoice(n+".imp2", 3)
		own := isRoot || ndBool(n+".own")
		for s, st := range []int{i1, i2} {
			if st == 0 {
				continue
			}
			in := "/" + n + "_i" + ndItoa(s+1) + ".jet"
			src += `{{ import "` + in + `" }}`
			body := "IMPORTTEXT{{ block other" + ndItoa(s) + "() }}o{{ end }}"
			if st == 2 {
				body += `{{ block b() }}` + n + `-imp` + ndItoa(s+1) + `{{ end }}`
			}
			files = append(files, in, body)
		}
		if isRoot {
			src += `<{{ block b() }}` + n + `-own{{ end }}|{{ yield b() }}>`
		} else {
			src += "TEXT" + n
			if own {
				src += `{{ block b() }}` + n + `-own{{ end }}`
			}
		}
		files = append(files, "/"+n+".jet", src)
		if winner == "" {
			switch {
			case own:
				winner = n + "-own"
			case i2 == 2:
				winner = n + "-imp2"
			case i1 == 2:
				winner = n + "-imp1"
			}
		}
	}
	set := hxSet(nil, files...)
	out, err := hxExec(set, "/"+chain[0]+".jet", nil, nil)
	vfReach("rendered")
	vfAssert(err == nil, "renders")
	vfNote(out)
	vfAssert(out == "<"+winner+"|"+winner+">", "root body with the most-derived definition at both sites; nothing else reaches the output")
}

// H_C08_emptyContent: an explicitly empty content section is supplied content: inside a
// block that was itself yielded with content, {{ yield b() content }}{{ end }} (and a block
// whose default content is empty, at its definition site) makes the inner 'yield content'
// render nothing - not the outer caller's content.
//
//gosym:reach rendered
func H_C08_emptyContent() {
	form := ndChoice("form", 4)
	v := ndString("v", 1)
	srcs := []string{
		`{{ import "/lib.jet" }}{{ yield outer() content }}BODY{{ v }}{{ end }}`,
		`{{ import "/lib.jet" }}{{ yield outer2() content }}BODY{{ v }}{{ end }}`,
		`{{ import "/lib.jet" }}{{ yield outer3() content }}BODY{{ v }}{{ end }}`,
		`{{ import "/lib.jet" }}{{ yield inner() content }}{{ end }}|{{ yield inner() content }}x{{ end }}`,
	}
	set := hxSet([]Option{WithSafeWriter(nil)},
		"/lib.jet", `{{ block inner() }}<{{ yield content }}>{{ end }}`+
			`{{ block outer() }}[{{ yield inner() content }}{{ end }}|{{ yield content }}]{{ end }}`+
			`{{ block outer2() }}[{{ block in2() }}<{{ yield content }}>{{ content }}{{ end }}|{{ yield content }}]{{ end }}`+
			`{{ block outer3() }}[{{ yield inner() content }}{{ yield content }}{{ end }}|{{ yield content }}]{{ end }}`,
		"/main.jet", srcs[form],
	)
	vars := make(VarMap)
	vars.Set("v", v)
	out, err := hxExec(set, "/main.jet", vars, nil)
	vfReach("rendered")
	vfAssert(err == nil, "renders")
	want := []string{"[<>|BODY" + v + "]", "[<>|BODY" + v + "]", "[<BODY" + v + ">|BODY" + v + "]", "<>|<x>"}[form]
	vfNote(out)
	vfAssert(out == want, "an empty content section is content; the outer caller's content shows only where it is yielded")
}

// H_C08_repeatedImport: an import list that names a template more than once: later imports
// win over earlier ones also when the later one is a repetition (a, b, a: a's definitions),
// at yields and at definition sites of an extended layout.
//
//gosym:reach rendered
func H_C08_repeatedImport() {
	order := ndChoice("order", 4)
	ext := ndBool("extends")
	lists := [][]string{{"a", "b", "a"}, {"b", "a", "b"}, {"a", "a", "b"}, {"a", "b", "b", "a"}}
	src := ""
	if ext {
		src = `{{ extends "/layout.jet" }}`
	}
	for _, n := range lists[order] {
		src += `{{ import "/` + n + `.jet" }}`
	}
	if !ext {
		src += `{{ yield title() }}|{{ yield side() }}`
	}
	set := hxSet(nil,
		"/layout.jet", `{{ block title() }}L-title{{ end }}|{{ block side() }}L-side{{ end }}`,
		"/a.jet", `{{ block title() }}A-title{{ end }}`,
		"/b.jet", `{{ block title() }}B-title{{ end }}{{ block side() }}B-side{{ end }}`,
		"/m.jet", src,
	)
	out, err := hxExec(set, "/m.jet", nil, nil)
	vfReach("rendered")
	vfAssert(err == nil, "renders")
	last := lists[order][len(lists[order])-1]
	want := "A-title|B-side"
	if last == "b" {
		want = "B-title|B-side"
	}
	vfNote(out)
	vfAssert(out == want, "later imports override earlier ones, repetitions included")
}

// H_C08_nestedDefinition: a block definition that is not at the top level of its file -
// written inside another block's body, an if or else branch, a range body, a try body or
// the content of a yield - defines the block all the same: it overrides the layout's
// definition when its file extends or is imported, and can be yielded by name elsewhere in
// its own file.
//
//gosym:reach rendered
func H_C08_nestedDefinition() {
	wrap := ndChoice("wrap", 7)
	how := ndChoice("how", 3) // 0 the executed page extends the layout, 1 the page imports the definer, 2 one file
	def := `{{ block b() }}over{{ end }}`
	// pre/post: the text the wrapper itself renders around the definition site
	var w, pre, post string
	switch wrap {
	case 0:
		w = def
	case 1:
		w, pre, post = `{{ block outer() }}<`+def+`>{{ end }}`, "<", ">"
	case 2:
		w = `{{ if true }}` + def + `{{ end }}`
	case 3:
		w = `{{ if false }}x{{ else }}` + def + `{{ end }}`
	case 4:
		w, pre, post = `{{ range k, v := one }}(`+def+`){{ end }}`, "(", ")"
	case 5:
		w = `{{ try }}` + def + `{{ end }}`
	default:
		w, pre, post = `{{ yield wr() content }}`+def+`{{ end }}`, "{", "}"
	}
	layout := `L{{ block wr() }}{{ "{" }}{{ yield content }}{{ "}" }}{{ end }}{{ block b() }}base{{ end }}|{{ yield b() }}E`
	var set *Set
	var want string
	switch how {
	case 0:
		set = hxSet(nil, "/layout.jet", layout, "/page.jet", `{{ extends "/layout.jet" }}`+w)
		want = "L{}over|overE"
	case 1:
		set = hxSet(nil, "/layout.jet", layout, "/lib.jet", `{{ import "/layout.jet" }}`+w,
			"/page.jet", `{{ extends "/layout.jet" }}{{ import "/lib.jet" }}`)
		want = "L{}over|overE"
	default:
		set = hxSet(nil, "/page.jet", `{{ block wr() }}{{ "{" }}{{ yield content }}{{ "}" }}{{ end }}`+w+`|{{ yield b() }}`)
		want = "{}" + pre + "over" + post + "|over"
	}
	vars := make(VarMap)
	vars.Set("one", []int{1})
	out, err := hxExec(set, "/page.jet", vars, nil)
	vfReach("rendered")
	vfAssert(err == nil, "renders")
	vfNote(out)
	vfAssert(out == want, "a nested block definition defines (and overrides) like a top-level one")
}

// H_C08_crossDirectory: an extends chain with imports that crosses directories with
// relative names (see c15Chain): the root layout's body is rendered with the most-derived
// blocks, taken from the files each clause names relative to its own template - not from
// files of the same name next to the executed page.
//
//gosym:reach rendered
func H_C08_crossDirectory() {
	_, err, _ := c15Chain()
	vfReach("rendered")
	vfAssert(err == nil, "the chain loads and renders")
}
