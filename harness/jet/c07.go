package jet

import "reflect"

// ---- C07: variables are lexically scoped and stable; '.' is restored after every body ----

// H_C07_resolveOrder: the name "lower" defined (or not, symbolic flags) in the innermost
// scope, an outer template scope, the VarMap given to Execute and the Set globals, with
// the built-in of that name behind them: a reference resolves to the first that defines it.
//
//gosym:reach local,outer,varmap,global,builtin
func H_C07_resolveOrder() {
	hasLocal, hasOuter, hasVar, hasGlobal := ndBool("local"), ndBool("outer"), ndBool("var"), ndBool("global")
	src := ""
	if hasOuter {
		src += `{{ lower := "O" }}`
	}
	src += `{{ if true }}`
	if hasLocal {
		src += `{{ lower := "L" }}`
	}
	if hasLocal || hasOuter || hasVar || hasGlobal {
		src += `[{{ lower }}]`
	} else {
		src += `[{{ lower("B") }}]`
	}
	src += `{{ end }}`
	set := hxSet(nil, "/m.jet", src)
	if hasGlobal {
		set.AddGlobal("lower", "G")
	}
	vars := make(VarMap)
	if hasVar {
		vars.Set("lower", "V")
	}
	out, err := hxExec(set, "/m.jet", vars, nil)
	vfAssert(err == nil, "renders")
	want := "b"
	switch {
	case hasLocal:
		vfReach("local")
		want = "L"
	case hasOuter:
		vfReach("outer")
		want = "O"
	case hasVar:
		vfReach("varmap")
		want = "V"
	case hasGlobal:
		vfReach("global")
		want = "G"
	default:
		vfReach("builtin")
	}
	vfAssert(out == "["+want+"]", "innermost scope, outer scopes, VarMap, globals, built-ins - in that order")
}

// c07Bodies: constructs with a body; each body declares y with := and prints '.'; after
// the construct y must be invisible and '.' must be the outer value again. The second
// field is what '.' is inside the body.
var c07Bodies = [][2]string{
	{`{{ if true }}{{ y := 1 }}<{{ . }}>{{ end }}`, "D"},
	{`{{ if false }}{{ else }}{{ y := 1 }}<{{ . }}>{{ end }}`, "D"},
	{`{{ if y := 1; true }}<{{ . }}>{{ end }}`, "D"},
	{`{{ range one }}{{ y := 1 }}<{{ . }}>{{ end }}`, "e"},
	{`{{ range y := one }}<{{ . }}>{{ end }}`, "e"},
	{`{{ range k, y := one }}<{{ . }}>{{ end }}`, "D"},
	{`{{ range none }}{{ else }}{{ y := 1 }}<{{ . }}>{{ end }}`, "D"},
	{`{{ block b1() }}{{ y := 1 }}<{{ . }}>{{ end }}`, "D"},
	{`{{ block b2() "ctx" }}{{ y := 1 }}<{{ . }}>{{ end }}`, "ctx"},
	{`{{ block b3(y=1) }}<{{ . }}>{{ end }}`, "D"},
	{`{{ yield lib(y=1) }}`, "D"},
	{`{{ yield lib() "ctx" }}`, "ctx"},
	{`{{ yield wrap() content }}{{ y := 1 }}<{{ . }}>{{ end }}`, "D"},
	{`{{ yield wrap() "ctx" content }}{{ y := 1 }}<{{ . }}>{{ end }}`, "ctx"}, // content runs where the block yields it, under the yield's explicit context
	{`{{ include "/inc.jet" }}`, "D"},
	{`{{ include "/inc.jet" "ctx" }}`, "ctx"},
	{`{{ try }}{{ y := 1 }}<{{ . }}>{{ end }}`, "D"},
	{`{{ try }}{{ fail() }}{{ catch y }}<{{ . }}>{{ end }}`, "D"},
	{`{{ includeIfExists("/inc.jet", "ctx") }}`, "ctx"},
	{`{{ yield rangeWrap() content }}{{ y := 1 }}{{ end }}<{{ . }}>`, "D"},
	{`{{ yield ctxWrap() "bctx" content }}{{ y := 1 }}{{ end }}<{{ . }}>`, "D"},
	{`{{ try }}{{ range one }}{{ y := 1 }}{{ fail() }}{{ end }}{{ catch }}<{{ . }}>{{ end }}`, "D"},
	{`{{ try }}{{ range one }}{{ fail() }}{{ end }}{{ catch y }}{{ end }}<{{ . }}>`, "D"},
	{`{{ try }}{{ include "/failctx.jet" "ctx" }}{{ catch }}<{{ . }}>{{ end }}`, "D"},
	{`{{ exec("/inc.jet", "ctx") }}`, ""},
	// a try without a catch clause absorbs a failure raised below a range / if-let / include
	// with a context: scope and '.' are those of the try's own position again (round 8)
	{`{{ try }}{{ range one }}{{ y := 1 }}{{ fail() }}{{ end }}{{ end }}<{{ . }}>`, "D"},
	{`{{ try }}{{ if y := 1; true }}{{ fail() }}{{ end }}{{ end }}<{{ . }}>`, "D"},
	{`{{ try }}{{ include "/failctx.jet" "ctx" }}{{ end }}<{{ . }}>`, "D"},
	{`{{ try }}{{ yield lib(y=fail()) "ctx" }}{{ end }}<{{ . }}>`, "D"},
}

// H_C07_bodies: for each construct with a body: a variable declared in the body (or by
// the construct's own declaration / parameter list / catch clause) is not visible after
// it, a variable declared before it still is, and '.' is the outer value again afterwards
// while inside it is rebound exactly where documented (range without/with one variable,
// block/yield/include with an explicit context).
//
//gosym:reach checked
func H_C07_bodies() {
	b := ndChoice("body", len(c07Bodies))
	set := hxSet(nil,
		"/m.jet", `{{ import "/lib.jet" }}{{ z := "Z" }}`+c07Bodies[b][0]+`|{{ isset(y) }}|{{ z }}|{{ . }}`,
		"/lib.jet", `{{ block lib(y=0) }}<{{ . }}>{{ end }}{{ block wrap() }}{{ yield content }}{{ end }}`+
			`{{ block rangeWrap() }}{{ range one }}{{ yield content "cctx" }}({{ . }}){{ end }}{{ end }}`+
			`{{ block ctxWrap() }}{{ yield content "cctx" }}({{ . }}){{ end }}`,
		"/inc.jet", `{{ y := 1 }}<{{ . }}>`,
		"/failctx.jet", `{{ y := 1 }}{{ fail() }}`,
	)
	vars := make(VarMap)
	vars.Set("one", []string{"e"})
	vars.Set("none", []string{})
	vars.SetFunc("fail", hxFail)
	out, err := hxExec(set, "/m.jet", vars, "D")
	vfReach("checked")
	vfAssert(err == nil, "renders")
	inside := "<" + c07Bodies[b][1] + ">"
	if c07Bodies[b][1] == "" {
		inside = ""
	}
	switch c07Bodies[b][0][:16] {
	case "{{ yield rangeWr":
		inside = "(e)<D>" // after 'yield content expr' inside the range, '.' is the range element again
	case "{{ yield ctxWrap":
		inside = "(bctx)<D>" // ... and the block's explicit context again
	}
	vfNote(out)
	vfAssert(out == inside+"|false|Z|D", "body-local names end with the body; '.' changes only where documented and is restored")
}

// H_C07_assign: '=' rebinds the innermost visible variable of that name and nothing else;
// on an undeclared name it fails.
//
//gosym:reach rebound,undeclared
func H_C07_assign() {
	declared := ndBool("declared")
	inner := ndBool("inner")
	src := ""
	if declared {
		src += `{{ x := "O" }}`
	}
	src += `{{ w := "W" }}{{ if true }}`
	if inner {
		src += `{{ x := "I" }}`
	}
	src += `{{ x = "N" }}[{{ x }}]{{ end }}`
	if declared {
		src += `[{{ x }}]`
	}
	src += `[{{ w }}]`
	set := hxSet(nil, "/m.jet", src)
	out, err := hxExec(set, "/m.jet", nil, nil)
	if !declared && !inner {
		vfReach("undeclared")
		vfAssert(err != nil, "assignment to an undeclared variable fails")
		return
	}
	vfReach("rebound")
	vfAssert(err == nil, "renders")
	want := "[N]"
	if declared {
		if inner {
			want += "[O]"
		} else {
			want += "[N]"
		}
	}
	vfAssert(out == want+"[W]", "only the innermost visible binding changes")
}

// H_C07_multi: multi-assignment and discard evaluate every right-hand side exactly once,
// left to right, and bind positionally.
//
//gosym:reach rendered
func H_C07_multi() {
	forms := []string{
		`{{ a, b := f1(), f2() }}[{{ a }}{{ b }}]`,
		`{{ _, b := f1(), f2() }}[{{ b }}]`,
		`{{ a, _ := f1(), f2() }}[{{ a }}]`,
		`{{ a := 0 }}{{ b := 0 }}{{ a, b = f1(), f2() }}[{{ a }}{{ b }}]`,
		`{{ a := 0 }}{{ _, a = f1(), f2() }}[{{ a }}]`,
	}
	wants := []string{"[12]", "[2]", "[1]", "[12]", "[2]"}
	f := ndChoice("form", len(forms))
	log := &hxLog{}
	set := hxSet(nil, "/m.jet", forms[f])
	vars := make(VarMap)
	vars.SetFunc("f1", log.probe("f1", 1))
	vars.SetFunc("f2", log.probe("f2", 2))
	out, err := hxExec(set, "/m.jet", vars, nil)
	vfReach("rendered")
	vfAssert(err == nil, "renders")
	vfAssert(log.String() == "f1,f2", "every right-hand side evaluated once, in order")
	vfAssert(out == wants[f], "values bound positionally; '_' discards")
}

// H_C07_loopValueStable: a variable assigned from a loop variable keeps that value after
// the loop has moved on, for every ranger kind (ints, slice, array, map entry, channel,
// custom ranger) and symbolic capture iteration k.
//
//gosym:reach rendered
func H_C07_loopValueStable() {
	kinds := []string{"ints", "slice", "ifaceSlice", "chan", "ranger"}
	kd := ndChoice("subject", len(kinds))
	k := ndChoice("k", 3)
	var subj interface{}
	src := `{{ ci := "none" }}{{ cv := "none" }}{{ n := 0 }}{{ range i, v := S }}{{ if n == K }}{{ ci = i }}{{ cv = v }}{{ end }}{{ n = n + 1 }}{{ end }}[{{ ci }}|{{ cv }}]`
	wantI, wantV := ndItoa(k), ""
	switch kinds[kd] {
	case "ints":
		src = `{{ ci := "none" }}{{ cv := "none" }}{{ n := 0 }}{{ range i, v := ints(10, 13) }}{{ if n == K }}{{ ci = i }}{{ cv = v }}{{ end }}{{ n = n + 1 }}{{ end }}[{{ ci }}|{{ cv }}]`
		wantV = ndItoa(10 + k)
	case "slice":
		subj = []string{"a", "b", "c"}
		wantV = string([]byte{byte('a' + k)})
	case "ifaceSlice":
		subj = []interface{}{"a", "b", "c"}
		wantV = string([]byte{byte('a' + k)})
	case "chan":
		ch := make(chan string, 3)
		ch <- "a"
		ch <- "b"
		ch <- "c"
		close(ch)
		subj = ch
		src = `{{ cv := "none" }}{{ n := 0 }}{{ range v := S }}{{ if n == K }}{{ cv = v }}{{ end }}{{ n = n + 1 }}{{ end }}[` + wantI + `|{{ cv }}]`
		wantV = string([]byte{byte('a' + k)})
	default:
		subj = &c05Ranger{n: 3, index: true}
		wantI, wantV = "k"+ndItoa(k), "v"+ndItoa(k)
	}
	set := hxSet(nil, "/m.jet", src)
	vars := make(VarMap)
	vars.Set("S", subj)
	vars.Set("K", k)
	out, err := hxExec(set, "/m.jet", vars, nil)
	vfReach("rendered")
	vfAssert(err == nil, "renders")
	vfNote(out)
	vfAssert(out == "["+wantI+"|"+wantV+"]", "a captured loop value does not change when the loop advances")
}

var _ = reflect.ValueOf

// H_C07_mapLoopValue: the key, the value and '.' of a range over a map with three entries,
// stored during iteration K (symbolic) in variables that outlive it, still hold that
// entry after the loop has moved on (checked independently of the iteration order: what
// was rendered at capture time equals what the variables hold afterwards), for the := and
// = forms and string / int element types.
//
//gosym:reach rendered
func H_C07_mapLoopValue() {
	k := ndChoice("k", 3)
	form := ndChoice("form", 3)
	mk := ndChoice("map", 3)
	var subj interface{}
	switch mk {
	case 0:
		subj = map[string]string{"a": "A", "b": "B", "c": "C"}
	case 1:
		subj = map[string]int{"a": 1, "b": 2, "c": 3}
	default:
		subj = map[int]string{1: "A", 2: "B", 3: "C"}
	}
	head := `{{ ck := "" }}{{ cv := "" }}{{ at := "" }}{{ n := 0 }}`
	capture := `{{ if n == K }}{{ ck = k }}{{ cv = v }}{{ at = "" + k + "=" + v }}{{ end }}{{ n = n + 1 }}`
	var src string
	switch form {
	case 0:
		src = head + `{{ range k, v := S }}` + capture + `{{ end }}`
	case 1:
		src = head + `{{ k := "" }}{{ v := "" }}{{ range k, v = S }}` + capture + `{{ end }}`
	default: // '.' is the value
		src = head + `{{ range S }}{{ if n == K }}{{ cv = . }}{{ at = "=" + . }}{{ end }}{{ n = n + 1 }}{{ end }}`
	}
	src += `[{{ at }}]<{{ ck }}={{ cv }}>`
	set := hxSet(nil, "/m.jet", src)
	vars := make(VarMap)
	vars.Set("S", subj)
	vars.Set("K", k)
	out, err := hxExec(set, "/m.jet", vars, nil)
	vfReach("rendered")
	vfAssert(err == nil, "renders")
	// out is "[X]<X>" for some entry X
	ok := len(out) >= 6 && len(out)%2 == 0
	if ok {
		h := len(out) / 2
		ok = out[0] == '[' && out[h-1] == ']' && out[h] == '<' && out[len(out)-1] == '>' && out[1:h-1] == out[h+1:len(out)-1] && h > 3
	}
	vfAssert(ok, "a captured map key / value / '.' does not change when the loop advances")
}

// H_C07_emptyRange: a range over an empty slice, map or channel - in each variable form,
// with and without an else branch - inside a body (template, if, range, block) that has
// declared a variable: afterwards the variable is still visible and assignable there.
//
//gosym:reach rendered
func H_C07_emptyRange() {
	forms := []string{
		`{{ range E }}x{{ end }}`,
		`{{ range v := E }}{{ v }}{{ end }}`,
		`{{ range i, v := E }}{{ v }}{{ end }}`,
		`{{ range i, v := E }}{{ v }}{{ else }}e{{ end }}`,
		`{{ range v = E }}{{ v }}{{ end }}`,
		`{{ range E }}x{{ else }}e{{ end }}`,
	}
	f := ndChoice("form", len(forms))
	site := ndChoice("site", 4)
	ek := ndChoice("empty", 3)
	vfAssume(!(ek == 2 && (f == 2 || f == 3))) // two variables over a channel is an error by design
	var e interface{}
	switch ek {
	case 0:
		e = []string{}
	case 1:
		e = map[string]int{}
	default:
		ch := make(chan int)
		close(ch)
		e = ch
	}
	body := `{{ x := "local" }}{{ v := "" }}` + forms[f] + `[{{ x }}]{{ x = "again" }}[{{ x }}]`
	var src string
	switch site {
	case 0:
		src = body
	case 1:
		src = `{{ if true }}` + body + `{{ end }}`
	case 2:
		src = `{{ range one }}` + body + `{{ end }}`
	default:
		src = `{{ block b() }}` + body + `{{ end }}`
	}
	set := hxSet(nil, "/m.jet", src+`<{{ isset(x) }}>`)
	vars := make(VarMap)
	vars.Set("E", e)
	vars.Set("one", []int{1})
	vars.Set("x", "execute") // the Execute variable of the same name must stay hidden
	out, err := hxExec(set, "/m.jet", vars, nil)
	vfReach("rendered")
	vfAssert(err == nil, "renders")
	els := ""
	if f == 3 || f == 5 {
		els = "e"
	}
	want := els + "[local][again]<true>"
	vfNote(out)
	vfAssert(out == want, "an empty range leaves the enclosing body's variables alone")
}

// H_C07_paramScope: a block's parameters are its own variables: a defaulted parameter
// that the yield does not pass takes its default even when a variable of that name is
// visible at the call site (in a template scope, the VarMap or the globals), and
// assigning to it inside the block does not touch the outer variable.
//
//gosym:reach rendered
func H_C07_paramScope() {
	where := ndChoice("outer", 4) // 0 none, 1 template variable, 2 VarMap, 3 global
	set := hxSet(nil,
		"/lib.jet", `{{ block p(a="DEF") }}({{ a }}){{ a = "changed" }}({{ a }}){{ end }}`,
		"/m.jet", `{{ import "/lib.jet" }}`+c08If(where == 1, `{{ a := "OUT" }}`)+`{{ yield p() }}[{{ isset(a) ? a : "-" }}]`,
	)
	vars := make(VarMap)
	if where == 2 {
		vars.Set("a", "OUT")
	}
	if where == 3 {
		set.AddGlobal("a", "OUT")
	}
	out, err := hxExec(set, "/m.jet", vars, nil)
	vfReach("rendered")
	vfAssert(err == nil, "renders")
	after := "[-]"
	if where != 0 {
		after = "[OUT]"
	}
	vfNote(out)
	vfAssert(out == "(DEF)(changed)"+after, "a block parameter is local to the block; outer variables of the same name are neither read nor written")
}

// H_C07_noResidue: nothing declared during one execution is visible in the next one on
// the same (pooled) runtime: the first execution declares variables in nested scopes
// (range, if with declaration, block with parameters) and fails there or succeeds
// (symbolic); the second reports which of those names resolve.
//
//gosym:reach checked
func H_C07_noResidue() {
	firsts := []string{
		`{{ top := "s" }}{{ range k, secret := r }}{{ inner := 1 }}{{ mayFail() }}{{ end }}`,
		`{{ if secret := "s"; true }}{{ inner := 1 }}{{ mayFail() }}{{ end }}`,
		`{{ block b(secret="s") }}{{ inner := 1 }}{{ mayFail() }}{{ end }}`,
		`{{ secret := "s" }}{{ if true }}{{ inner := 1 }}{{ if true }}{{ top := 2 }}{{ mayFail() }}{{ end }}{{ end }}`,
	}
	f := ndChoice("first", len(firsts))
	fails := ndBool("fails")
	set := hxSet(nil, "/a.jet", firsts[f], "/p.jet", `{{ isset(secret) }}|{{ isset(inner) }}|{{ isset(top) }}|{{ isset(k) }}|{{ isset(fromVarMap) }}`)
	vars := make(VarMap)
	vars.Set("r", []string{"x"})
	vars.Set("fromVarMap", 1)
	vars.SetFunc("mayFail", func(a Arguments) reflect.Value {
		if fails {
			panic(hxErr{"mayFail"})
		}
		return valueBoolTRUE
	})
	hxExec(set, "/a.jet", vars, nil)
	out, err := hxExec(set, "/p.jet", nil, nil)
	vfReach("checked")
	vfAssert(err == nil, "renders")
	vfAssert(out == "false|false|false|false|false", "no variable of an earlier execution is visible")
}

// H_C07_programs (thorough): generated programs of 5 statements over one variable - declare
// (x := "vK"), assign (x = "vK"), read, open a body (if, else branch, range, block
// definition, content of a yield) and close it - executed by jet and by a reference scope
// stack (declare binds in the innermost scope, assign rebinds the innermost visible
// binding and fails if there is none, a body's bindings end with the body): same output,
// and an error exactly when the reference assigns to an undeclared name.
//
//gosym:reach rendered,failed
//gosym:thorough-only
//gosym:opts maxpaths=400000 wall=1500
func H_C07_programs() {
	const n = 5
	type scope struct {
		declared bool
		val      string
	}
	stack := []scope{{}}
	var closers []string // text the reference emits when the body closes
	src, want := "", ""
	fails := false
	lookup := func() int {
		for k := len(stack) - 1; k >= 0; k-- {
			if stack[k].declared {
				return k
			}
		}
		return -1
	}
	read := func() {
		src += `[{{ isset(x) ? x : "-" }}]`
		if k := lookup(); k >= 0 {
			want += "[" + stack[k].val + "]"
		} else {
			want += "[-]"
		}
	}
	for s := 0; s < n && !fails; s++ {
		v := "v" + ndItoa(s)
		switch tok := ndChoice("t"+ndItoa(s), 9); tok {
		case 0:
			src += `{{ x := "` + v + `" }}`
			stack[len(stack)-1] = scope{true, v}
		case 1:
			src += `{{ x = "` + v + `" }}`
			if k := lookup(); k >= 0 {
				stack[k].val = v
			} else {
				fails = true
			}
		case 2:
			read()
		case 3:
			src += `{{ if true }}`
			stack, closers = append(stack, scope{}), append(closers, "")
		case 4:
			src += `{{ if false }}no{{ else }}`
			stack, closers = append(stack, scope{}), append(closers, "")
		case 5:
			src += `{{ range one }}`
			stack, closers = append(stack, scope{}), append(closers, "")
		case 6:
			src += `{{ block b` + ndItoa(s) + `() }}`
			stack, closers = append(stack, scope{}), append(closers, "")
		case 7:
			src += `{{ yield w() content }}`
			want += "<"
			stack, closers = append(stack, scope{}), append(closers, ">")
		default:
			if len(stack) > 1 {
				src += `{{ end }}`
				want += closers[len(closers)-1]
				stack, closers = stack[:len(stack)-1], closers[:len(closers)-1]
			} else {
				read()
			}
		}
	}
	for !fails && len(stack) > 1 {
		src += `{{ end }}`
		want += closers[len(closers)-1]
		stack, closers = stack[:len(stack)-1], closers[:len(closers)-1]
	}
	if !fails {
		read()
	} else {
		for range closers {
			src += `{{ end }}`
		}
	}
	set := hxSet(nil, "/lib.jet", `{{ block w() }}<{{ yield content }}>{{ end }}`, "/m.jet", `{{ import "/lib.jet" }}`+src)
	vars := make(VarMap)
	vars.Set("one", []int{1})
	out, err := hxExec(set, "/m.jet", vars, nil)
	vfNote(src)
	if fails {
		vfReach("failed")
		vfAssert(err != nil, "assigning to a name that is not visible fails")
		return
	}
	vfReach("rendered")
	vfAssert(err == nil, "the program executes")
	vfNote(out)
	vfAssert(out == want, "bindings are visible exactly from := to the end of the enclosing body; = rebinds the innermost visible one")
}

// H_C07_nilShadows: a variable that holds nil (declared as nil, or the value half of a
// lookup that missed) is still the innermost variable of its name: inside its body the
// name denotes it - not a same-named variable further out (template scope, Execute
// variable, global, built-in) - and after the body the outer one is back.
//
//gosym:reach rendered
func H_C07_nilShadows() {
	where := ndChoice("outer", 4) // 0 template variable, 1 Execute variable, 2 global, 3 built-in
	how := ndChoice("how", 3)     // 0 x := nil, 1 x, ok := m["absent"], 2 x := nilPtr
	name := "x"
	if where == 3 {
		name = "lower"
	}
	decl := []string{`{{ ` + name + ` := nil }}`, `{{ ` + name + `, ok := m["absent"] }}`, `{{ ` + name + ` := nilPtr }}`}[how]
	pre := ""
	if where == 0 {
		pre = `{{ x := "outer" }}`
	}
	probe := `[{{ isset(` + name + `) }}]`
	set := hxSet(nil, "/m.jet", pre+`{{ if true }}`+decl+probe+`{{ `+name+` = "inner" }}[{{ `+name+` }}]{{ end }}`+probe)
	if where == 2 {
		set.AddGlobal("x", "outer")
	}
	vars := make(VarMap)
	if where == 1 {
		vars.Set("x", "outer")
	}
	vars.Set("m", map[string]string{"k": "v"})
	var np *int
	vars.Set("nilPtr", np)
	out, err := hxExec(set, "/m.jet", vars, nil)
	vfReach("rendered")
	vfAssert(err == nil, "renders")
	vfNote(out)
	vfAssert(out == "[false][inner][true]", "a variable holding nil shadows outer variables of its name until its body ends")
}

// H_C07_assignNoAlias: '=' rebinds one variable and touches nothing else: a copy made
// earlier keeps the old value, the literal in the template is the same on the next
// execution, and data being ranged over is not written to - for numbers, strings, values
// copied from other variables and range elements reached through a pointer.
//
//gosym:reach rendered
func H_C07_assignNoAlias() {
	c := ndChoice("case", 5)
	srcs := []string{
		`{{ a := 1 }}{{ b := a }}{{ a = 2 }}[{{ a }}{{ b }}]`,
		`{{ s := "x" }}{{ t := s }}{{ s = "y" }}[{{ s }}{{ t }}]`,
		`{{ x := 1 }}{{ y := x }}{{ x = x + 3 }}[{{ x }}{{ y }}]`,
		`{{ range i, e := ps }}{{ e = "Z" }}{{ e }}{{ end }}[{{ ps[0] }}{{ ps[1] }}]`,
		`{{ v := first }}{{ w := v }}{{ v = "n" }}[{{ v }}{{ w }}{{ first }}]`,
	}
	wants := []string{"[21]", "[yx]", "[41]", "ZZ[ab]", "[nff]"}
	set := hxSet(nil, "/m.jet", srcs[c])
	data := []string{"a", "b"}
	for run := 0; run < 2; run++ {
		vars := make(VarMap)
		vars.Set("ps", &data)
		vars.Set("first", "f")
		out, err := hxExec(set, "/m.jet", vars, nil)
		vfAssert(err == nil, "renders")
		vfNote(out)
		vfAssert(out == wants[c], "assignment rebinds the one variable; copies, literals and ranged-over data keep their values (also on the next execution)")
	}
	vfReach("rendered")
	vfAssert(data[0] == "a" && data[1] == "b", "the data ranged over is not modified")
}

type c07Top struct {
	Name  string
	Items []c07Item
	M     map[string]int
}

type c07Item struct{ N int }

// H_C07_issetAbsorbs: isset absorbs the failure of its argument. When that argument is an
// exec() of a template that fails below a range (context rebound), an if-let (scope
// pushed) or a yield with content, the statement that contains the isset goes on with
// the '.' , the variables and the content it had: nothing of the abandoned bodies stays.
//
//gosym:reach rendered
func H_C07_issetAbsorbs() {
	subs := []string{
		`{{ range .Items }}{{ v := 1 }}{{ .Missing.X }}{{ end }}`,
		`{{ if q := 5; true }}{{ v := 2 }}{{ undefinedFn() }}{{ end }}`,
		`{{ range k, e := .M }}{{ range .Items }}{{ v := 3 }}{{ undefinedFn() }}{{ end }}{{ end }}`,
		`{{ block inner() }}<{{ yield content }}>{{ end }}{{ yield inner() content }}{{ v := 4 }}{{ .Missing.X }}{{ end }}`,
		`{{ range .Items }}{{ if .N == 2 }}{{ return .Missing.X }}{{ end }}{{ end }}`,
	}
	sub := ndChoice("sub", len(subs))
	withCtx := ndBool("ctx")
	site := ndChoice("site", 4)
	call := `exec("/sub.jet")`
	if withCtx {
		call = `exec("/sub.jet", .)`
	}
	probe := `{{ x := "local" }}{{ isset(` + call + `) }}|{{ .Name }}|{{ x }}|{{ isset(v) }}{{ isset(q) }}`
	var src, want string
	one := "false|top|local|falsefalse"
	switch site {
	case 0:
		src, want = probe, one
	case 1:
		src, want = `{{ if y := 1; true }}`+probe+`{{ y }}{{ end }}`, one+"1"
	case 2:
		src = `{{ block w() }}` + probe + `[{{ yield content }}]{{ end }}{{ yield w() content }}C{{ .Name }}{{ end }}`
		want = one + "[]" + one + "[Ctop]"
	default:
		src, want = `{{ `+call+` == nil ? "" : "" }}`+probe, one
		// the failing exec outside isset is an error; only its position differs
	}
	set := hxSet(nil, "/m.jet", src, "/sub.jet", subs[sub])
	data := c07Top{Name: "top", Items: []c07Item{{1}, {2}}, M: map[string]int{"a": 1}}
	out, err := hxExec(set, "/m.jet", nil, data)
	vfReach("rendered")
	vfNote(out)
	if site == 3 {
		vfAssert(err != nil && out == "", "a failing exec outside isset fails the execution")
		return
	}
	vfAssert(err == nil, "isset absorbs the failure")
	vfAssert(out == want, "after isset '.', variables and content are those before it")
}

// H_C07_shadowedCall: the name of a built-in function ("upper", "len") bound to a function
// of the user's in a local scope, an outer scope, the Execute VarMap or the Set globals,
// and then called in every position a call can be written in - as the action's command,
// as a pipe stage, on the right of :=, as an operand, in an if condition, as an argument of
// another call, as a ternary branch, as an index: each call resolves the name like any
// other reference does.
//
//gosym:reach user,builtin
func H_C07_shadowedCall() {
	level := ndChoice("level", 5) // 0 none, 1 local, 2 outer, 3 VarMap, 4 global
	ni := ndChoice("name", 2)
	name := []string{"upper", "len"}[ni]
	pos := ndChoice("pos", 9)
	call := name + `("ab")`
	uses := []string{
		`{{ ` + call + ` }}`,
		`{{ "ab" | ` + name + ` }}`,
		`{{ r := ` + call + ` }}{{ r }}`,
		`{{ "" + ` + call + ` + "!" }}`,
		`{{ if ` + call + ` == want }}yes{{ else }}no{{ end }}`,
		`{{ id(` + call + `) }}`,
		`{{ true ? ` + call + ` : "" }}`,
		`{{ m[` + call + `] }}`,
		`{{ range k, v := pair }}{{ ` + call + ` }}{{ end }}`,
	}
	src := ""
	if level == 2 {
		src += `{{ ` + name + ` := mine }}`
	}
	src += `{{ if true }}`
	if level == 1 {
		src += `{{ ` + name + ` := mine }}`
	}
	src += uses[pos] + `{{ end }}`
	set := hxSet(nil, "/m.jet", src)
	mine := func(s string) string { return "mine" }
	vars := make(VarMap)
	vars.Set("mine", mine)
	vars.Set("id", func(v interface{}) interface{} { return v })
	vars.Set("pair", []int{1})
	vars.Set("m", map[interface{}]string{"mine": "mine", "AB": "AB", 2: "2"})
	if level == 3 {
		vars.Set(name, mine)
	}
	if level == 4 {
		set.AddGlobal(name, mine)
	}
	res := "mine"
	if level == 0 {
		vfReach("builtin")
		res = []string{"AB", "2"}[ni]
	} else {
		vfReach("user")
	}
	if name == "len" && level == 0 {
		vars.Set("want", 2)
	} else {
		vars.Set("want", res)
	}
	out, err := hxExec(set, "/m.jet", vars, nil)
	vfAssert(err == nil, "renders")
	want := res
	switch pos {
	case 3:
		want = res + "!"
	case 4:
		want = "yes"
	}
	vfNote(out)
	vfAssert(out == want, "a call resolves its name innermost scope first, built-ins last")
}

// H_C07_assignLevels: a variable that lives in the Execute VarMap, or was declared at the top
// level of the template, is rebound with = from inside a body that has a scope of its own
// (range with loop variables, if with a declaration, a body that has declared something
// else, a block body, the content of a yield, an included file, two of them nested) and
// read after that body has ended: the rebinding is to the variable itself - it is still in
// effect afterwards, and accumulates over the iterations of a range.
//
//gosym:reach rendered
func H_C07_assignLevels() {
	level := ndChoice("level", 2) // 0 VarMap, 1 top-level :=
	site := ndChoice("site", 8)
	a := []int64{0, 7, -3}[ndChoice("start", 3)]
	bodies := []string{
		`{{ range i, v := s }}{{ total = total + v }}{{ end }}`,
		`{{ if y := 1; true }}{{ total = total + six }}{{ end }}`,
		`{{ if true }}{{ other := 1 }}{{ total = total + six }}{{ end }}`,
		`{{ block b() }}{{ other := 1 }}{{ total = total + six }}{{ end }}`,
		`{{ yield wrap() content }}{{ other := 1 }}{{ total = total + six }}{{ end }}`,
		`{{ include "/inc.jet" }}`,
		`{{ range i, v := s }}{{ if y := v; true }}{{ total = total + y }}{{ end }}{{ end }}`,
		`{{ try }}{{ other := 1 }}{{ total = total + six }}{{ end }}`,
	}
	src := `{{ import "/lib.jet" }}`
	if level == 1 {
		src += `{{ total := start }}`
	}
	src += bodies[site] + `total={{ total }}`
	set := hxSet(nil, "/m.jet", src,
		"/lib.jet", `{{ block wrap() }}{{ yield content }}{{ end }}`,
		"/inc.jet", `{{ other := 1 }}{{ total = total + six }}`)
	vars := make(VarMap)
	vars.Set("s", []int64{1, 2, 3})
	vars.Set("six", int64(6))
	if level == 0 {
		vars.Set("total", a)
	} else {
		vars.Set("start", a)
	}
	out, err := hxExec(set, "/m.jet", vars, nil)
	vfReach("rendered")
	vfAssert(err == nil, "renders")
	want := "total=" + c07Itoa(a+6)
	vfNote(out)
	vfAssert(out == want, "= rebinds the variable itself, wherever it lives; the new value outlives the body")
}

func c07Itoa(v int64) string {
	if v < 0 {
		return "-" + ndItoa(int(-v))
	}
	return ndItoa(int(v))
}

// H_C07_yieldArgsContext: a yield (or a block at its definition site) is given an explicit
// context AND arguments / parameter defaults that read '.': the arguments are evaluated
// where the yield stands - '.' is still the caller's there - and only the block body sees
// the explicit context; afterwards '.' is the caller's again. At the top level, inside a
// range (where '.' is the element) and inside an if.
//
//gosym:reach rendered
func H_C07_yieldArgsContext() {
	form := ndChoice("form", 5)
	site := ndChoice("site", 3)
	def := `{{ block show(label="none") }}[{{ label }}>{{ . }}]{{ end }}`
	var call, want string
	dot := []string{"root", "e", "root"}[site]
	switch form {
	case 0:
		call, want = `{{ yield show(label=.) "kid" }}`, "["+dot+">kid]"
	case 1:
		call, want = `{{ yield show(label=. + "!") "kid" }}`, "["+dot+"!>kid]"
	case 2:
		call, want = `{{ block other(label=.) "kid" }}[{{ label }}>{{ . }}]{{ end }}`, "["+dot+">kid]"
	case 3:
		call, want = `{{ yield show(label=.) }}`, "["+dot+">"+dot+"]"
	default:
		call, want = `{{ yield show(label=pick(.)) "kid" }}`, "[<"+dot+">>kid]"
	}
	after := `|{{ . }}`
	var body string
	switch site {
	case 0:
		body = call + after
	case 1:
		body = `{{ range one }}` + call + after + `{{ end }}`
	default:
		body = `{{ if true }}` + call + after + `{{ end }}`
	}
	set := hxSet([]Option{WithSafeWriter(nil)}, "/m.jet", `{{ import "/lib.jet" }}`+body+`|{{ . }}`, "/lib.jet", def)
	vars := make(VarMap)
	vars.Set("one", []string{"e"})
	vars.Set("pick", func(s string) string { return "<" + s + ">" })
	out, err := hxExec(set, "/m.jet", vars, "root")
	vfReach("rendered")
	vfAssert(err == nil, "renders")
	vfNote(out)
	vfAssert(out == want+"|"+dot+"|root", "yield arguments see the caller's '.', the block body the explicit context")
}

// H_C07_nilDot (round 8): the template is executed with nil data, so '.' is not a value at
// all: after each construct that rebinds '.' for its body (include / yield / block /
// includeIfExists with a context, a range without variables, exec with a context) isset(.)
// answers what it answered before the construct.
//
//gosym:reach checked
func H_C07_nilDot() {
	forms := []string{
		`{{ include "/inc.jet" "ctx" }}`,
		`{{ yield lib() "ctx" }}`,
		`{{ block b() "ctx" }}<{{ . }}>{{ end }}`,
		`{{ includeIfExists("/inc.jet", "ctx") }}`,
		`{{ range one }}<{{ . }}>{{ end }}`,
		`{{ exec("/inc.jet", "ctx") }}`,
		`{{ yield wrap() "ctx" content }}<{{ . }}>{{ end }}`,
	}
	f := ndChoice("form", len(forms))
	set := hxSet(nil,
		"/m.jet", `{{ import "/lib.jet" }}{{ isset(.) }}|`+forms[f]+`|{{ isset(.) }}`,
		"/lib.jet", `{{ block lib() }}<{{ . }}>{{ end }}{{ block wrap() }}{{ yield content }}{{ end }}`,
		"/inc.jet", `<{{ . }}>`,
	)
	vars := make(VarMap)
	vars.Set("one", []string{"e"})
	out, err := hxExec(set, "/m.jet", vars, nil)
	vfReach("checked")
	vfAssert(err == nil, "renders")
	vfNote(out)
	first, last := "", ""
	for i := 0; i < len(out) && out[i] != '|'; i++ {
		first += string(out[i])
	}
	for i := len(out) - 1; i >= 0 && out[i] != '|'; i-- {
		last = string(out[i]) + last
	}
	vfAssert(first == last, "'.' after the construct is what it was before it (nil data)")
}
