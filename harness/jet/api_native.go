package jet

import (
	"encoding/json"
	"math"
	"os"
)

var ndModelMap map[string]uint64

func ndModel(name string) uint64 {
	if ndModelMap == nil {
		ndModelMap = map[string]uint64{}
		if p := os.Getenv("GOSYM_MODEL"); p != "" {
			b, err := os.ReadFile(p)
			if err == nil {
				var raw struct {
					Model map[string]uint64 `json:"model"`
				}
				if json.Unmarshal(b, &raw) == nil && raw.Model != nil {
					ndModelMap = raw.Model
				}
			}
		}
	}
	return ndModelMap[name]
}

func ndFloatFromBits(b uint64) float64 { return math.Float64frombits(b) }
