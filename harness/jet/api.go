package jet

// Harness API. Inside the engine, calls to nd*/vf* functions are intercepted; the
// bodies below are used when the same harness is compiled natively to replay a
// solver model against the real build (see api_native.go for the model store).

func ndInt64(name string) int64     { return int64(ndModel(name)) }
func ndInt(name string) int         { return int(int64(ndModel(name))) }
func ndInt32(name string) int32     { return int32(ndModel(name)) }
func ndUint64(name string) uint64   { return ndModel(name) }
func ndUint(name string) uint       { return uint(ndModel(name)) }
func ndByte(name string) byte       { return byte(ndModel(name)) }
func ndBool(name string) bool       { return ndModel(name) != 0 }
func ndFloat64(name string) float64 { return ndFloatFromBits(ndModel(name)) }

// ndChoice returns a value in [0,n); the engine explores every feasible value.
func ndChoice(name string, n int) int {
	v := int(int64(ndModel(name)))
	if v < 0 || v >= n {
		return 0
	}
	return v
}

func ndBytes(name string, n int) []byte {
	b := make([]byte, n)
	for i := range b {
		b[i] = byte(ndModel(name + "[" + ndItoa(i) + "]"))
	}
	return b
}

func ndString(name string, n int) string { return string(ndBytes(name, n)) }

func vfAssume(c bool) {
	if !c {
		panic(vfAssumeFailed{})
	}
}

func vfAssert(c bool, label string) {
	if !c {
		vfFailures = append(vfFailures, label)
	}
}

func vfReach(label string) {}
func vfNote(s string)      { vfNotes = append(vfNotes, s) }
func vfConc(s string) string { return s }

// vfSameFloat is float equality under which two NaNs are equal.
func vfSameFloat(x, y float64) bool { return x == y || (x != x && y != y) }

// vfGuardMap declares (to the engine) that map m may only be accessed while *mu is held.
func vfGuardMap(name string, m interface{}, mu interface{}) {}

// vfLocksHeld returns the number of mutexes currently held (engine only).
func vfLocksHeld() int { return 0 }

// vfEmbedRoot tells the engine which directory on disk the harness's //go:embed
// directive embeds (the engine cannot see embedded files); no-op natively.
func vfEmbedRoot(dir string, pattern string) {}

// vfOSRoot switches on the engine's model of the read-only part of package os (Stat,
// Open, ReadFile, File.Read/Stat/Close): names are resolved against the real directory
// tree below root (relative names against cwd); no-op natively, where the real os answers.
func vfOSRoot(root string, cwd string) {}

// vfRace switches on schedule exploration (every schedule with at most maxPreemptions
// preemptive switches at synchronisation operations) and the happens-before race detector
// for the goroutines the harness starts from here on; no-op natively, where the harness is
// run under the Go race detector instead.
func vfRace(maxPreemptions int) {}

// vfSymbolic reports whether the harness runs inside the engine.
func vfSymbolic() bool { return false }

// vfTier is 0 for the quick tier and 1 for the thorough tier.
func vfTier() int { return vfTierValue }

// vfLive returns the number of goroutines started by the harness that are still alive.
func vfLive() int { return ndLiveGoroutines() }

var vfTierValue int
var vfBaseGoroutines int

type vfAssumeFailed struct{}

var vfFailures []string
var vfNotes []string

func ndItoa(i int) string {
	if i == 0 {
		return "0"
	}
	s := ""
	for i > 0 {
		s = string(rune('0'+i%10)) + s
		i /= 10
	}
	return s
}
