package jet

import (
	"errors"
	"fmt"
	"reflect"
)

// ---- C12: evaluation failures are returned as errors naming the failing file and line ----

type hxData struct {
	A int
	S []int
	M map[string]int
	P *hxData
	I interface{}
	u int
}

func (d hxData) Val() int                   { return d.A }
func (d *hxData) Ptr() int                  { return d.A + 1 }
func (d hxData) Two(a, b int) int           { return a + b }
func (d hxData) Show(s fmt.Stringer) string { return s.String() }

type c12inner struct{ Hits int }

// c12Wrap embeds a struct of unexported type: its exported fields are promoted (w.Hits),
// the embedded struct itself is an unexported field.
type c12Wrap struct {
	c12inner
	Pub int
}

type c12Stringer struct{}

func (c12Stringer) String() string { return "str" }

// c12Failing: single-line actions, one per failure class the property enumerates (and per
// operand node kind that carries the position), that Jet detects itself.
var c12Failing = []string{
	`{{ nope }}`,                       // unknown identifier
	`{{ .Nope }}`,                      // unknown field
	`{{ d.Nope }}`,                     // unknown field through a chain
	`{{ d.Nope() }}`,                   // unknown method
	`{{ d.u }}`,                        // unexported field
	`{{ yield nope() }}`,               // unknown block
	`{{ include "/nope.jet" }}`,        // unknown template
	`{{ s["x"] }}`,                     // index of the wrong kind
	`{{ s[n] }}`,                       // index out of range (n symbolic, >= len or < 0)
	`{{ str[n] }}`,                     // string index out of range
	`{{ s[1:n] }}`,                     // slice bound out of range
	`{{ s[n:] }}`,                      // slice bound out of range (low)
	`{{ "a" * 2 }}`,                    // operand of the wrong kind (string literal operand)
	`{{ m + 1 }}`,                      // operand of the wrong kind (map)
	`{{ true - 1 }}`,                   // operand of the wrong kind (bool literal)
	`{{ nil + 1 }}`,                    // operand of the wrong kind (nil literal)
	`{{ s() }}`,                        // call target of the wrong kind
	`{{ 1 | s }}`,                      // pipe target of the wrong kind
	`{{ upper() }}`,                    // argument count (too few)
	`{{ upper("a", "b") }}`,            // argument count (too many)
	`{{ repeat("a", "b") }}`,           // argument of the wrong kind
	`{{ d.Two(1) }}`,                   // method argument count
	`{{ range 5 }}x{{ end }}`,          // range subject of the wrong kind
	`{{ range k, v := ch }}x{{ end }}`, // two variables over an index-less ranger
	`{{ range nilp }}x{{ end }}`,       // range over nil pointer
	`{{ yield b(a) }}`,                 // yield argument without a value
	`{{ upper(_) }}`,                   // '_' without a piped value
	`{{ len(_) }}`,                     // '_' without a piped value (jet.Func)
	`{{ x = 1 }}`,                      // assignment to an undeclared variable
	`{{ 1 | nilv }}`,                   // piping into an invalid value
	`{{ d.P.A }}`,                      // nil pointer dereference
	`{{ "x" | raw | upper }}`,          // writer not last
	`{{ -"a" }}`,                       // unary minus on a string
	`{{ isset(1 + 1, upper) ? nope : nope }}`, // failure inside a ternary
	`{{ mm.missing.name }}`,                   // missing map key in the middle of a chain
	`{{ mm.missing.name.deeper }}`,            // ... two steps before the end
	`{{ arr[1:] }}`,                           // slicing an array held by value
	`{{ arr[0:2] }}`,
	`{{ s[up:] }}`, // slice bound of a non-numeric kind (uintptr)
	`{{ str[:up] }}`,
	`{{ s[cx] }}`,                    // index of complex kind
	`{{ s[:bl] }}`,                   // slice bound of bool kind
	`{{ "x" | nilv }}`,               // pipe target that evaluates to no value
	`{{ "x" | mm.present.missing }}`, // ... a chain ending in a missing map key
	`{{ describe(5) }}`,              // argument that does not implement the parameter's interface type
	`{{ describe("s") }}`,
	`{{ wrapErr("x") }}`,             // ... error
	`{{ d.Show(1) }}`,                // ... of a method
	`{{ 5 | describe }}`,             // ... piped
	`{{ describeAll(stringer, 5) }}`, // ... in the variadic tail
	`{{ describeAll(stringer, _) }}`, // round 8: a pipe slot in the variadic tail of a call that is not piped into
	`{{ describe(_) }}`,              // ... in a fixed position
	`{{ "a" % 2 }}`,                  // remainder / quotient of a non-number
	`{{ str % 2 }}`,
	`{{ digits % 2 }}`, // ... of a string that happens to hold digits
	`{{ m % 2 }}`,
	`{{ true % 2 }}`,
	`{{ nil % 2 }}`,
	`{{ bl % 2 }}`,
	`{{ "a" / 2 }}`,
	`{{ digits / 2 }}`,
	`{{ s % 2 }}`,
	`{{ w.c12inner }}`, // an embedded struct of unexported type named directly
	`{{ w.c12inner.Hits }}`,
	`{{ x := w.c12inner }}`,
	`{{ pw.c12inner.Hits }}`,
}

func c12Vars(n int64) VarMap {
	vars := make(VarMap)
	vars.Set("d", hxData{A: 1})
	vars.Set("s", []int{10, 20, 30})
	vars.Set("str", "abc")
	vars.Set("m", map[string]int{"a": 1})
	vars.Set("mm", map[string]map[string]string{"present": {"name": "n"}})
	vars.Set("arr", [3]int{1, 2, 3})
	vars.Set("n", n)
	ch := make(chan int)
	close(ch)
	vars.Set("ch", ch)
	var np *[]int
	vars.Set("nilp", np)
	vars.Set("nilv", nil)
	vars.Set("up", uintptr(1))
	vars.Set("cx", complex(1, 0))
	vars.Set("bl", true)
	vars.Set("stringer", c12Stringer{})
	vars.Set("digits", "7")
	vars.Set("w", c12Wrap{c12inner{3}, 4})
	vars.Set("pw", &c12Wrap{c12inner{3}, 4})
	vars.Set("describe", func(s fmt.Stringer) string { return s.String() })
	vars.Set("wrapErr", func(e error) string { return e.Error() })
	vars.Set("describeAll", func(s ...fmt.Stringer) string { return "" })
	return vars
}

func c12Needle(path string, line int) string {
	return `("` + path + `":` + ndItoa(line) + `)`
}

// H_C12_classes: PFX ACTION rest - PFX is symbolic text of up to 2 (quick) / 3 (thorough)
// bytes (any number of newlines), ACTION one failing action per class, the out-of-range
// index n symbolic: Execute returns a non-nil error (no panic escapes), the message names
// the file and the action's 1-based line, PFX has been written and nothing after it.
//
//gosym:reach failed
func H_C12_classes() {
	pn := 2
	if vfTier() == 1 {
		pn = 3
	}
	c := ndChoice("class", len(c12Failing))
	pfx := ndName("pfx", pn)
	for i := 0; i < len(pfx); i++ {
		vfAssume(pfx[i] != '{')
	}
	n := ndInt64("n")
	if hxContains(c12Failing[c], ":") {
		vfAssume(n >= 4 || n < 0) // slice bounds: len itself is in range
	} else {
		vfAssume(n >= 3 || n < 0) // index: len itself is out of range
	}
	set := hxSet(nil, "/m.jet", pfx+"x"+c12Failing[c]+"\nREST{{ after() }}{{ block b(p=1) }}{{ end }}")
	log := &hxLog{}
	vars := c12Vars(n)
	vars.SetFunc("after", log.probe("after", ""))
	out, err := hxExec(set, "/m.jet", vars, hxData{})
	vfReach("failed")
	vfAssert(err != nil, "the failure is returned as an error")
	if err == nil {
		return
	}
	line := 1
	for i := 0; i < len(pfx); i++ {
		if pfx[i] == '\n' {
			line++
		}
	}
	vfNote(c12Head(err.Error()))
	vfAssert(hxContains(err.Error(), c12Needle("/m.jet", line)), "the message names the file and the action's line")
	if c12Failing[c] == `{{ "x" | raw | upper }}` {
		// the failing action itself has already written through the SafeWriter stage
		vfAssert(len(out) >= len(pfx)+1 && out[:len(pfx)+1] == pfx+"x", "everything before the failing action has been written")
	} else {
		vfAssert(out == pfx+"x", "everything before the failing action has been written, nothing after it")
	}
	vfAssert(log.String() == "", "nothing after the failing action runs")
}

// H_C12_lineAfter: the failing action is preceded by three pieces (symbolic choice among
// eight each): plain newlines, a comment spanning lines, actions with a right / left trim
// marker that swallows newlines, a multi-line action, a raw string literal containing a
// newline, a block definition spanning lines, plain text - in the main file or an included
// one: the reported line is 1 + the number of newline bytes before the action in the source.
//
//gosym:reach failed
func H_C12_lineAfter() {
	pieces := []string{"\n", "{* a\nb\n*}", "{{ 1 -}}\n\n", "\n\n{{- 1 }}", "{{ 1 +\n 2 }}", "{{ `p\nq` }}", "{{ block lb() }}\nz\n{{ end }}", "t"}
	pfx := ""
	for k := 0; k < 3; k++ {
		pfx += pieces[ndChoice("piece"+ndItoa(k), len(pieces))]
	}
	c := ndChoice("class", 4)
	inc := ndBool("included")
	src := pfx + c12Failing[c] + "\nREST"
	files := []string{"/m.jet", src}
	file := "/m.jet"
	if inc {
		files = []string{"/m.jet", `{{ include "/i.jet" }}`, "/i.jet", src}
		file = "/i.jet"
	}
	set := hxSet(nil, files...)
	_, err := hxExec(set, "/m.jet", c12Vars(7), hxData{})
	vfReach("failed")
	vfAssert(err != nil, "the failure is returned as an error")
	if err == nil {
		return
	}
	line := 1
	for i := 0; i < len(pfx); i++ {
		if pfx[i] == '\n' {
			line++
		}
	}
	vfNote(c12Head(err.Error()))
	vfAssert(hxContains(err.Error(), c12Needle(file, line)), "the message names the file and the action's line")
}

// H_C12_otherFile: the failing action lives in an included, an imported (block) or an
// extended template, on a symbolic line: the message names that file and that line.
//
//gosym:reach failed
func H_C12_otherFile() {
	where := ndChoice("where", 4)
	c := ndChoice("class", 6) // the first six classes carry every operand node kind of interest
	nl := ndChoice("newlines", 3)
	pfx := ""
	for i := 0; i < nl; i++ {
		pfx += "\n"
	}
	fail := pfx + c12Failing[c]
	var files []string
	var want string
	switch where {
	case 0:
		files = []string{"/m.jet", `A{{ include "/sub/i.jet" }}`, "/sub/i.jet", fail}
		want = "/sub/i.jet"
	case 1:
		files = []string{"/m.jet", `{{ import "/lib.jet" }}A{{ yield blk() }}`, "/lib.jet", `{{ block blk() }}` + fail + `{{ end }}`}
		want = "/lib.jet"
	case 2:
		files = []string{"/m.jet", `{{ extends "/base.jet" }}{{ block body() }}ovr{{ end }}`, "/base.jet", "A" + fail + `{{ block body() }}{{ end }}`}
		want = "/base.jet"
	default:
		files = []string{"/m.jet", `{{ extends "/base.jet" }}{{ block body() }}` + fail + `{{ end }}`, "/base.jet", `A{{ block body() }}{{ end }}`}
		want = "/m.jet"
	}
	set := hxSet(nil, files...)
	_, err := hxExec(set, "/m.jet", c12Vars(5), hxData{})
	vfReach("failed")
	vfAssert(err != nil, "the failure is returned as an error")
	if err == nil {
		return
	}
	vfNote(c12Head(err.Error()))
	vfAssert(hxContains(err.Error(), c12Needle(want, 1+nl)), "the message names the file that contains the failing action and its line")
}

// H_C12_funcError: a called function that reports an error (a jet.Func panicking with an
// error, a Go func returning... no: panicking with an error) makes Execute return that
// error; panics with a non-error value are not claimed.
//
//gosym:reach failed
func H_C12_funcError() {
	form := ndChoice("form", 3)
	srcs := []string{`A{{ bad() }}B`, `A{{ 1 | bad }}B`, `A{{ range s }}{{ bad() }}{{ end }}B`}
	set := hxSet(nil, "/m.jet", srcs[form])
	vars := c12Vars(0)
	vars.SetFunc("bad", func(a Arguments) reflect.Value { panic(errors.New("reported")) })
	out, err := hxExec(set, "/m.jet", vars, nil)
	vfReach("failed")
	vfAssert(err != nil, "the reported error is returned")
	vfAssert(out == "A", "output stops at the failing action")
}

// c12Head is the part of a runtime error message up to and including the position
// ("file":line); the rest is free wording (not compared between engine and native run).
func c12Head(msg string) string {
	for i := 0; i+1 < len(msg); i++ {
		if msg[i] == ')' && msg[i+1] == ':' {
			return msg[:i+1]
		}
	}
	return "<no position>"
}

// H_C12_multiline: failing actions that open a construct spanning several lines - range
// over a value that cannot be ranged / is nil / two variables over a channel, if / else-if
// with a failing condition, try whose catch fails, yield of an unknown block with content -
// preceded by a symbolic number of newlines and with a symbolic number of body lines: the
// message names the line of the failing action itself (the construct's opening line), not
// the line where the construct ends.
//
//gosym:reach failed
func H_C12_multiline() {
	heads := []string{
		`{{ range seven }}`, `{{ range k, v := ch }}`, `{{ range nilv }}`, `{{ range i, v := seven }}`,
		`{{ if nope.x }}`, `{{ if false }}a{{ else if nope.y }}`, `{{ yield nosuch() content }}`, `{{ range v := nope }}`,
	}
	c := ndChoice("head", len(heads))
	before := ndChoice("before", 3)
	bodyLines := ndChoice("body", 3)
	inc := ndBool("included")
	src := ""
	for i := 0; i < before; i++ {
		src += "t\n"
	}
	src += "x" + heads[c]
	for i := 0; i < bodyLines; i++ {
		src += "\nbody{{ 1 }}"
	}
	src += "\n{{ end }}\nREST"
	files := []string{"/m.jet", src}
	file := "/m.jet"
	if inc {
		files = []string{"/m.jet", `{{ include "/i.jet" }}`, "/i.jet", src}
		file = "/i.jet"
	}
	set := hxSet(nil, files...)
	vars := c12Vars(7)
	vars.Set("seven", 7)
	ch := make(chan int, 1)
	ch <- 1
	close(ch)
	vars.Set("ch", ch)
	_, err := hxExec(set, "/m.jet", vars, hxData{})
	vfReach("failed")
	vfAssert(err != nil, "the failure is returned as an error")
	if err == nil {
		return
	}
	vfNote(c12Head(err.Error()))
	vfAssert(hxContains(err.Error(), c12Needle(file, before+1)), "the message names the file and the line of the failing action")
}

// H_C12_afterSuccess: the failing execution comes after a successful one on the same
// (pooled) runtime that was given data: evaluating a field of '.' with nil data, or an
// undeclared variable the earlier template declared, still fails, names its file and line,
// and nothing after the failing action is written.
//
//gosym:reach failed
func H_C12_afterSuccess() {
	c := ndChoice("case", 3)
	fails := []string{`A{{ .Name }}B`, `A{{ earlier }}B`, `A{{ yield content }}{{ .Name }}B`}
	set := hxSet(nil,
		"/first.jet", `{{ import "/lib.jet" }}{{ earlier := "e" }}{{ yield wrap() content }}{{ .Name }}{{ earlier }}{{ end }}`,
		"/lib.jet", `{{ block wrap() }}<{{ yield content }}>{{ end }}`,
		"/second.jet", "\n"+fails[c],
	)
	type named struct{ Name string }
	o1, e1 := hxExec(set, "/first.jet", nil, named{"alice"})
	vfAssert(e1 == nil && o1 == "<alicee>", "first execution succeeds")
	out, err := hxExec(set, "/second.jet", nil, nil)
	vfReach("failed")
	vfAssert(err != nil, "the failure is returned as an error, whatever ran before")
	if err == nil {
		return
	}
	vfAssert(hxContains(err.Error(), c12Needle("/second.jet", 2)), "the message names the file and the action's line")
	vfAssert(out == "\nA", "everything before the failing action has been written, nothing after it")
}

// H_C12_afterAbsorbed: the failing action comes after an action in which a failure was
// absorbed - by isset (of an exec that fails, with and without context) or by try (around
// an exec, an include, a writer command) - at the top level or inside a range: the text
// between the two has been written, the error names the failing action's line, and nothing
// after it is written.
//
//gosym:reach failed
func H_C12_afterAbsorbed() {
	abs := []string{
		`{{ isset(exec("/bad.jet")) }}`,
		`{{ isset(exec("/bad.jet", .)) }}`,
		`{{ try }}{{ exec("/bad.jet") }}{{ end }}`,
		`{{ try }}{{ include "/bad.jet" }}{{ catch }}c{{ end }}`,
		`{{ try }}{{ raw: exec("/bad.jet") }}{{ end }}`,
		`{{ isset(exec("/bad2.jet")) }}`,
		`{{ isset(includeIfExists("/bad.jet")) }}`,
	}
	a := ndChoice("absorbed", len(abs))
	inRange := ndBool("inRange")
	// (includeIfExists writes as it goes: the text before the failure inside it is out already)
	shown := []string{"false", "false", "", "c", "", "false", "xfalse"}[a]
	src := "before\n" + abs[a] + "\nmiddle\n{{ nope }}after"
	line := 4
	want := "before\n" + shown + "\nmiddle\n"
	if inRange {
		src = "{{ range one }}" + src + "{{ end }}"
	}
	set := hxSet(nil, "/m.jet", src,
		"/bad.jet", `x{{ range one }}{{ .Missing.X }}{{ end }}`,
		"/bad2.jet", `{{ try }}{{ nope }}{{ end }}y{{ block b() }}z{{ end }}{{ nope2 }}`)
	vars := make(VarMap)
	vars.Set("one", []int{1})
	out, err := hxExec(set, "/m.jet", vars, hxData{})
	vfReach("failed")
	vfAssert(err != nil, "the failure is returned as an error")
	if err == nil {
		return
	}
	vfNote(out)
	vfNote(c12Head(err.Error()))
	vfAssert(hxContains(err.Error(), c12Needle("/m.jet", line)), "the message names the file and the failing action's line")
	vfAssert(out == want, "everything before the failing action has been written, nothing after it")
}
