package jet

import "bytes"

func refEsc(b []byte) []byte {
	var out []byte
	for _, c := range b {
		switch c {
		case '"':
			out = append(out, "&#34;"...)
		case '\'':
			out = append(out, "&#39;"...)
		case '&':
			out = append(out, "&amp;"...)
		case '<':
			out = append(out, "&lt;"...)
		case '>':
			out = append(out, "&gt;"...)
		case 0:
			out = append(out, "�"...)
		default:
			out = append(out, c)
		}
	}
	return out
}

// H_smoke_esc: symbolic data bytes through Execute with the default escaper.
func H_smoke_esc() {
	loader := NewInMemLoader()
	loader.Set("/t.jet", `[{{ x }}]`)
	set := NewSet(loader)
	t, err := set.GetTemplate("/t.jet")
	if err != nil {
		vfAssert(false, "parse-ok")
		return
	}
	x := ndString("x", 2)
	var buf bytes.Buffer
	vars := make(VarMap)
	vars.Set("x", x)
	err = t.Execute(&buf, vars, nil)
	vfAssert(err == nil, "exec-ok")
	want := "[" + string(refEsc([]byte(x))) + "]"
	vfAssert(buf.String() == want, "escaped-once")
}
