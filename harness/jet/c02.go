package jet

// ---- C02: parsing is total ----

// c02Check runs Set.Parse on src and asserts totality: no panic (an escaping panic or a
// crash of the lexer goroutine is reported by the engine / by the native runner), a
// template xor an error, an error that names the template and a line inside the source,
// and no goroutine left running.
func c02Check(set *Set, name, src string) (t *Template, err error) {
	t, err = set.Parse(name, src)
	vfAssert(vfLive() == 0, "no goroutine is left running after Parse")
	if err == nil {
		vfAssert(t != nil && t.Root != nil, "without an error a usable template is returned")
		return
	}
	return
}

// c02SyntaxErrorShape asserts that a syntax error message has the form
// "template: <name>:<line>: ..." with 1 <= line <= 1 + number of newlines in src.
func c02SyntaxErrorShape(err error, name, src string) {
	msg := err.Error()
	prefix := "template: " + name + ":"
	if len(msg) < len(prefix) || msg[:len(prefix)] != prefix {
		vfAssert(false, "syntax error names the template")
		return
	}
	rest := msg[len(prefix):]
	line := 0
	i := 0
	for i < len(rest) && rest[i] >= '0' && rest[i] <= '9' {
		line = line*10 + int(rest[i]-'0')
		i++
	}
	vfAssert(i > 0 && i < len(rest) && rest[i] == ':', "syntax error carries a line number")
	nl := 0
	for k := 0; k < len(src); k++ {
		if src[k] == '\n' {
			nl++
		}
	}
	vfAssert(line >= 1 && line <= 1+nl, "the reported line lies inside the source")
}

func c02Set(cfg int) *Set {
	l := NewInMemLoader()
	switch cfg {
	case 1:
		return NewSet(l, WithDelims("[[", "]]"), WithCommentDelims("[*", "*]"))
	case 2:
		return NewSet(l, WithDelims("<%", "%>"), WithCommentDelims("<#", "#>"))
	case 3:
		return NewSet(l, WithDelims("[[[", "]]]"))
	case 4:
		// (a comment delimiter that starts with the action delimiter would be ambiguous)
		return NewSet(l, WithDelims("{", "}"), WithCommentDelims("<#", "#>"))
	case 5: // left and right delimiters of different lengths
		return NewSet(l, WithDelims("<%=", "%>"))
	case 6:
		return NewSet(l, WithDelims("${", "}"), WithCommentDelims("<!--", "-->"))
	case 8: // only the left comment marker configured: the right one keeps its default
		return NewSet(l, WithCommentDelims("<#", ""))
	case 9: // only the right comment marker configured
		return NewSet(l, WithCommentDelims("", "#}"))
	case 7: // delimiters that do not start with an ASCII byte
		return NewSet(l, WithDelims("\u00ab", "\u00bb"), WithCommentDelims("\u00a1", "!"))
	}
	return NewSet(l)
}

var c02Left = []string{"{{", "[[", "<%", "[[[", "{", "<%=", "${", "\u00ab", "{{", "{{"}
var c02Right = []string{"}}", "]]", "%>", "]]]", "}", "%>", "}", "\u00bb", "}}", "}}"}

// H_C02_action: "{{" + N arbitrary bytes [+ "}}"] with the default delimiters: Parse is
// total. N = 2 (quick) / 3 (thorough).
//
//gosym:reach parsed,rejected
func H_C02_action() {
	n := 2
	if vfTier() == 1 {
		n = 3
	}
	set := c02Set(0)
	body := ndName("b", n)
	closed := ndChoice("closed", 2)
	src := "{{" + body
	if closed == 1 {
		src += "}}"
	}
	_, err := c02Check(set, "/t.jet", src)
	if err != nil {
		vfReach("rejected")
		c02SyntaxErrorShape(err, "/t.jet", src)
	} else {
		vfReach("parsed")
		vfAssert(closed == 1 || len(body) > 0, "an unterminated action is never accepted")
	}
}

// H_C02_delims: the six custom delimiter configurations ("[[ ]]" + "[* *]", "<% %>" +
// "<# #>", "[[[ ]]]", "{ }" + "<# #>", and two whose left and right delimiters differ in
// length: "<%= %>", "${ }" + "<!-- -->"): left delimiter + N arbitrary bytes followed by one
// of: nothing, the configured right delimiter, " -" + the configured right delimiter,
// the DEFAULT right delimiter "}}", " -}}": Parse is total. N = 1 (quick) / 2 (thorough).
//
//gosym:reach parsed,rejected
func H_C02_delims() {
	n := 1
	if vfTier() == 1 {
		n = 2
	}
	cfg := 1 + ndChoice("cfg", 6)
	set := c02Set(cfg)
	body := ndName("b", n)
	tails := []string{"", c02Right[cfg], " -" + c02Right[cfg], "}}", " -}}", " x -}}", " x -" + c02Right[cfg] + " t"}
	tail := ndChoice("tail", len(tails))
	src := "t" + c02Left[cfg] + body + tails[tail]
	_, err := c02Check(set, "/t.jet", src)
	if err != nil {
		vfReach("rejected")
		c02SyntaxErrorShape(err, "/t.jet", src)
	} else {
		vfReach("parsed")
	}
}

// c02Prefixes are action prefixes that leave the lexer/parser in distinct states before
// the symbolic bytes: after an identifier, a field, a number, a string, a closing paren
// or bracket, an open paren, an operator, a keyword, a pipe, an assignment, `_`.
var c02Prefixes = []string{
	"a", ".f", "1", `"s"`, "(a)", "s[0]", "f(", "a+", "a ", "if ", "range ", "yield ", "block ", "include ",
	"a|", "x:=", "_", "a.", "try}}{{catch ", "a?", "f:", "-", "!", "a[", "a[1:", "'c'", "nil", "true", "end", "else",
	"return ", "import ", "extends ", "content", "a,", "x=",
}

// H_C02_afterPrefix: "{{" + prefix + N arbitrary bytes + "}}" for each prefix above
// (N = 1 quick / 2 thorough): Parse is total and a syntax error has the documented shape.
//
//gosym:reach parsed,rejected
func H_C02_afterPrefix() {
	n := 1
	if vfTier() == 1 {
		n = 2
	}
	p := ndChoice("prefix", len(c02Prefixes))
	switch c02Prefixes[p] {
	case "_", "a.", "-", "a?":
		n = 2 // states in which a multi-byte rune or a two-byte token matters
	}
	body := ndName("b", n)
	src := "{{" + c02Prefixes[p] + body + "}}"
	set := c02Set(0)
	_, err := c02Check(set, "/t.jet", src)
	if err != nil {
		vfReach("rejected")
		c02SyntaxErrorShape(err, "/t.jet", src)
	} else {
		vfReach("parsed")
	}
}

// c02Piece is one lexical piece of a corpus template.
type c02Piece struct {
	kind byte // 'T' text, 'A' self-contained action/comment, 'O' opener, 'C' closer ({{end}}), 'M' middle ({{else}}, {{catch}}, {{content}})
	s    string
}

// c02Corpus: valid templates covering every statement and expression form.
var c02Corpus = [][]c02Piece{
	{{'T', "a\n"}, {'A', "{{ x }}"}, {'T', "b"}},
	{{'O', "{{if a && b || !c}}"}, {'T', "A"}, {'M', "{{else if d == 1}}"}, {'T', "B"}, {'M', "{{else}}"}, {'T', "C"}, {'C', "{{end}}"}},
	{{'O', "{{range i, v := s}}"}, {'A', "{{i}}"}, {'A', "{{v.F}}"}, {'M', "{{else}}"}, {'T', "E"}, {'C', "{{end}}"}},
	{{'O', "{{block b(x, y=1) .}}"}, {'A', "{{yield content}}"}, {'M', "{{content}}"}, {'T', "D"}, {'C', "{{end}}"}, {'O', "{{yield b(y=2) . content}}"}, {'T', "Q"}, {'C', "{{end}}"}},
	{{'O', "{{try}}"}, {'A', "{{ f(1, _) | g: 2 | raw }}"}, {'M', "{{catch e}}"}, {'A', "{{e}}"}, {'C', "{{end}}"}},
	{{'A', "{{ x := 1 }}"}, {'A', "{{ a, b = 1, m[\"k\"] }}"}, {'A', "{{ s[1:2] }}"}, {'A', "{{ s[:2] }}"}, {'A', "{{ s[1:] }}"}, {'A', "{{ return x }}"}},
	{{'A', "{* comment *}"}, {'T', " t "}, {'A', "{{- 'c' -}}"}, {'T', " u"}, {'A', "{{ `raw` + \"q\\\"\" }}"}},
	{{'A', "{{ a ? b : c }}"}, {'A', "{{ -1 + 2*3 % 4 / 5 - x }}"}, {'A', "{{ (a) < 1 >= 2 != nil }}"}, {'A', "{{ not a and b or c }}"}},
	{{'A', "{{ include \"x\" . }}"}, {'A', "{{ isset(a.b[0]) }}"}, {'A', "{{ .Field.Sub.M(1).N }}"}, {'A', "{{ 1.5e3 }}"}, {'A', "{{ 0x1F }}"}},
	{{'O', "{{ if x := f(); x }}"}, {'O', "{{ range k := m }}"}, {'A', "{{ . }}"}, {'C', "{{ end }}"}, {'C', "{{ end }}"}},
}

func c02Join(ps []c02Piece) string {
	s := ""
	for _, p := range ps {
		s += p.s
	}
	return s
}

// H_C02_truncate: every corpus template truncated at every byte offset: Parse is total;
// a prefix that ends inside an action or comment, or leaves a block open, is reported as
// an error, and a prefix that ends at depth 0 outside any action parses.
//
//gosym:reach complete,incomplete
func H_C02_truncate() {
	c := ndChoice("corpus", len(c02Corpus))
	src := c02Join(c02Corpus[c])
	k := ndChoice("cut", len(src)+1)
	cut := src[:k]
	// reference: is the prefix a complete template?
	depth, off, inside := 0, 0, false
	for _, p := range c02Corpus[c] {
		if off >= k {
			break
		}
		end := off + len(p.s)
		if k < end {
			// the cut falls strictly inside this piece; a cut after the first byte of a
			// delimiter leaves a lone '{', which is literal text
			if p.kind != 'T' && k-off >= 2 {
				inside = true
			}
			break
		}
		switch p.kind {
		case 'O':
			depth++
		case 'C':
			depth--
		}
		off = end
	}
	complete := !inside && depth == 0
	set := c02Set(0)
	set.loader.(*InMemLoader).Set("/x", "x")
	_, err := c02Check(set, "/t.jet", cut)
	if complete {
		vfReach("complete")
		vfAssert(err == nil, "a prefix ending at depth 0 outside any action parses")
	} else {
		vfReach("incomplete")
		vfAssert(err != nil, "an unterminated action, comment, literal or block is reported")
		if err != nil {
			c02SyntaxErrorShape(err, "/t.jet", cut)
		}
	}
}

// H_C02_mutate: every corpus template with one byte (quick; thorough adds two adjacent
// bytes for corpus templates 0,1,2,4,6,9) replaced by arbitrary bytes at every offset: Parse is total, and a syntax
// error has the documented shape.
//
//gosym:reach parsed,rejected
//gosym:opts maxpaths=1500000 wall=1800
func H_C02_mutate() {
	c := ndChoice("corpus", len(c02Corpus))
	src := c02Join(c02Corpus[c])
	w := 1
	if vfTier() == 1 && (c <= 2 || c == 4 || c == 6 || c == 9) {
		// two adjacent bytes: six of the ten corpus templates (the others would take the
		// thorough tier past half an hour; they keep the one-byte mutation)
		w = 1 + ndChoice("width", 2)
	}
	k := ndChoice("at", len(src)-w+1)
	m := src[:k] + ndString("m", w) + src[k+w:]
	set := c02Set(0)
	set.loader.(*InMemLoader).Set("/x", "x")
	_, err := c02Check(set, "/t.jet", m)
	if err != nil {
		vfReach("rejected")
		c02SyntaxErrorShape(err, "/t.jet", m)
	} else {
		vfReach("parsed")
	}
}

// H_C02_structural: structural mistakes with symbolic filler text are always reported:
// surplus {{end}}, {{else}}/{{content}}/{{catch}} outside their construct... (only the
// ones the property names: surplus end, extends/import after content), missing end at
// nesting depth 1 and 2, unterminated comment and literals.
//
//gosym:reach checked
func H_C02_structural() {
	f := ndName("filler", 2)
	for i := 0; i < len(f); i++ {
		// the filler is plain text / literal body: no delimiter or quote characters
		b := f[i]
		vfAssume(b != '{' && b != '}' && b != '*' && b != '"' && b != '`' && b != '\'' && b != '\\' && b != '\n' && b != ')')
	}
	cases := []string{
		f + "{{end}}",
		"{{if a}}" + f + "{{end}}{{end}}",
		f + "x{{extends \"/x\"}}",
		"x" + f + "{{import \"/x\"}}",
		"{{extends \"/x\"}}x" + f + "{{import \"/x\"}}",
		"{{extends \"/x\"}}" + f + "x{{extends \"/x\"}}",
		"{{import \"/x\"}}x" + f + "{{extends \"/x\"}}",
		"{{if a}}" + f,
		"{{if a}}{{range b}}" + f + "{{end}}",
		"{{block b()}}" + f,
		"{{try}}" + f,
		"{* " + f,
		"{{ \"" + f + " }}",
		"{{ `" + f + " }}",
		"{{ '" + f + " }}",
		"{{ x " + f,
		"{{ f(" + f + " }}",
		"{{block b()}}a{{content}}" + f + "{{content}}c",
		"{{if x}}{{block b()}}a{{content}}" + f + "{{content}}c{{end}}",
		"{{yield b() content}}" + f,
		"{{try}}" + f + "{{catch}}c",
		"{{range x}}" + f + "{{else}}e",
	}
	// the same mistakes under custom delimiters whose first bytes differ from the comment's
	// (configuration 3: "[[[ ]]]" with the default comment markers "{* *}")
	custom := []string{
		"t[[[ x ]]] {* " + f,
		"[[[ x ]]]" + f + "{* c",
		"{* " + f + "[[[ x ]]]",
		"{* " + f,
		"[[[ if a ]]]" + f,
		f + "[[[ end ]]]",
		"t {* c *} [[[ \"" + f,
	}
	c := ndChoice("case", len(cases)+len(custom))
	var err error
	if c < len(cases) {
		set := c02Set(0)
		set.loader.(*InMemLoader).Set("/x", "x")
		_, err = c02Check(set, "/t.jet", cases[c])
	} else {
		vfAssume(!hxContains(f, "[") && !hxContains(f, "]"))
		_, err = c02Check(c02Set(3), "/t.jet", custom[c-len(cases)])
	}
	vfReach("checked")
	vfAssert(err != nil, "structural mistake is reported")
}

// H_C02_comment: the comment opener followed by N arbitrary bytes and then nothing, the
// closer, or text (default markers, and "<!-- -->" / "<# #>" under custom action
// delimiters): Parse is total; the comment is accepted exactly when the closer occurs after
// the opener (an opener whose own tail overlaps the closer's head - "{*}" - is unterminated).
//
//gosym:reach parsed,rejected
func H_C02_comment() {
	n := 2 + vfTier()
	cfg := []int{0, 6, 2}[ndChoice("cfg", 3)]
	open := []string{"{*", "", "<#", "", "", "", "<!--"}[cfg]
	shut := []string{"*}", "", "#>", "", "", "", "-->"}[cfg]
	body := ndName("b", n)
	tails := []string{"", shut, " t", shut + " t"}
	tail := ndChoice("tail", len(tails))
	rest := body + tails[tail]
	// the text after the comment must not start another comment or action
	vfAssume(!hxContains(body, c02Left[cfg][:1]) && !hxContains(body, open[:1]))
	src := "t" + open + rest
	closed := hxContains(rest, shut)
	_, err := c02Check(c02Set(cfg), "/t.jet", src)
	if err != nil {
		vfReach("rejected")
		vfAssert(!closed, "a terminated comment is accepted")
		c02SyntaxErrorShape(err, "/t.jet", src)
	} else {
		vfReach("parsed")
		vfAssert(closed, "an unterminated comment is reported")
	}
}

// H_C02_refgraph: GetTemplate over a set of two templates whose extends/import targets
// are symbolic choices among {self, the other, a missing file, a leaf}: returns (no crash,
// no unbounded recursion), with a template exactly when the chain ends in the leaf, with an
// error when it ends in a missing file or comes back to a template already on the chain.
//
//gosym:reach returned
//gosym:opts maxviol=1000
func H_C02_refgraph() {
	targets := []string{"/a.jet", "/b.jet", "/missing.jet", "/leaf.jet"}
	if ndBool("shortNames") {
		// the same graph written with names that rely on the extension lookup and on
		// resolution against the referring file
		targets = []string{"a", "./b", "missing", "/leaf"}
	}
	kw := []string{"extends", "import"}
	l := NewInMemLoader()
	ta := ndChoice("a.target", 4)
	tb := ndChoice("b.target", 4)
	ka := ndChoice("a.kw", 2)
	kb := ndChoice("b.kw", 2)
	l.Set("/a.jet", "{{"+kw[ka]+" \""+targets[ta]+"\"}}A")
	l.Set("/b.jet", "{{"+kw[kb]+" \""+targets[tb]+"\"}}B")
	l.Set("/leaf.jet", "L")
	set := NewSet(l)
	t, err := set.GetTemplate("/a.jet")
	vfReach("returned")
	vfAssert(err != nil || (t != nil && t.Root != nil), "a usable template or an error")
	// the reference chain from /a.jet ends in the leaf (fine), in a missing file, or in a
	// template already on the chain (a cycle): only the first is loadable
	fine := ta == 3 || (ta == 1 && tb == 3)
	vfAssert((err == nil) == fine, "a chain that ends in an existing template loads; a missing target or a cycle is an error")
	vfAssert(vfLive() == 0, "no goroutine is left running")
	// asking again gives the same answer
	_, err2 := set.GetTemplate("/a.jet")
	vfAssert((err2 == nil) == fine, "... also when asked again")
}

// H_C02_diamond: shared dependencies are not cycles: /a imports /b and /c (or extends one
// and imports the other), both of which import / extend /d, and /a may import /d itself as
// well: loads, and a block of /d is available in /a.
//
//gosym:reach loaded
func H_C02_diamond() {
	kb, kc := ndChoice("b.kw", 2), ndChoice("c.kw", 2)
	ea := ndBool("a.extendsB")
	direct := ndBool("a.importsD")
	kw := []string{"extends", "import"}
	l := NewInMemLoader()
	a := ""
	if ea {
		a = `{{ extends "/b.jet" }}{{ import "/c.jet" }}`
	} else {
		a = `{{ import "/b.jet" }}{{ import "/c.jet" }}`
	}
	if direct {
		a += `{{ import "/d.jet" }}`
	}
	l.Set("/a.jet", a+`{{ block own() }}{{ yield dblock() }}{{ end }}`)
	l.Set("/b.jet", `{{ `+kw[kb]+` "/d.jet" }}{{ block bb() }}{{ yield dblock() }}{{ end }}`)
	l.Set("/c.jet", `{{ `+kw[kc]+` "/d.jet" }}{{ block cc() }}C{{ end }}`)
	l.Set("/d.jet", `{{ block dblock() }}D{{ end }}`)
	set := NewSet(l)
	t, err := set.GetTemplate("/a.jet")
	vfReach("loaded")
	vfAssert(err == nil && t != nil && t.Root != nil, "a dependency shared by two templates is not a cycle")
	vfAssert(vfLive() == 0, "no goroutine is left running")
}

// H_C02_repeat: GetTemplate of a template with a syntax error - directly or through a
// template that extends / imports / includes it - reports the error on every call, not
// only the first (a failed parse is never handed out as a usable template).
//
//gosym:reach checked
func H_C02_repeat() {
	via := ndChoice("via", 3)
	n := ndChoice("calls", 3) + 1
	l := NewInMemLoader()
	l.Set("/broken.jet", "a{{ if }}b")
	l.Set("/ext.jet", `{{ extends "/broken.jet" }}`)
	l.Set("/imp.jet", `{{ import "/broken.jet" }}x`)
	set := NewSet(l)
	names := []string{"/broken.jet", "/ext.jet", "/imp.jet"}
	for k := 0; k < n; k++ {
		t, err := set.GetTemplate(names[via])
		vfAssert(err != nil || (t != nil && t.Root != nil), "a usable template or an error")
		vfAssert(err != nil, "the syntax error is reported on every call")
	}
	vfReach("checked")
	vfAssert(vfLive() == 0, "no goroutine is left running")
}

// H_C02_refNames: the name in an extends / import clause - in the parsed source itself or
// in a file it reaches through such a clause - and the name given to GetTemplate are
// arbitrary strings of 0..2 bytes (empty included; written as an interpreted or a raw
// string literal): loading is total - a template or an error, never a panic, no goroutine
// left - and an unknown name is an error that names the referring template.
//
//gosym:reach parsed,rejected
func H_C02_refNames() {
	n := ndString("name", 2)
	how := ndChoice("how", 6)
	quote := `"`
	if ndBool("raw") {
		quote = "`"
	}
	for i := 0; i < len(n); i++ {
		vfAssume(n[i] != '"' && n[i] != '`' && n[i] != '\\' && n[i] != '\n' && n[i] != 0)
	}
	lit := quote + n + quote
	set := c02Set(0)
	l := set.loader.(*InMemLoader)
	l.Set("/a", "A{{ block b() }}b{{ end }}")
	var err error
	var t *Template
	switch how {
	case 0:
		t, err = c02Check(set, "/d/t.jet", `{{extends `+lit+`}}`)
	case 1:
		t, err = c02Check(set, "/d/t.jet", `{{import `+lit+`}}x`)
	case 2:
		l.Set("/d/mid.jet", `{{extends `+lit+`}}`)
		t, err = c02Check(set, "/d/t.jet", `{{extends "mid.jet"}}`)
	case 3:
		l.Set("/d/lib.jet", `{{import `+lit+`}}`)
		t, err = set.GetTemplate("/d/lib.jet")
		vfAssert(vfLive() == 0, "no goroutine is left running after GetTemplate")
	case 4:
		t, err = set.GetTemplate(n)
		vfAssert(vfLive() == 0, "no goroutine is left running after GetTemplate")
	default:
		t, err = c02Check(set, "/d/t.jet", `{{include `+lit+`}}`)
	}
	if err != nil {
		vfReach("rejected")
		return
	}
	vfReach("parsed")
	vfAssert(t != nil, "without an error a template is returned")
}
