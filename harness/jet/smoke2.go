package jet

import "bytes"

// H_smoke_exec: the real lexer goroutine, parser and interpreter on a concrete template.
func H_smoke_exec() {
	loader := NewInMemLoader()
	loader.Set("/t.jet", `a{{ x }}b{{ if y > 1 }}Y{{ else }}N{{ end }}{{ range i, v := s }}[{{ i }}={{ v }}]{{ end }}`)
	set := NewSet(loader)
	t, err := set.GetTemplate("/t.jet")
	vfAssert(err == nil, "parse-ok")
	if err != nil {
		return
	}
	var buf bytes.Buffer
	vars := make(VarMap)
	vars.Set("x", "<&>")
	vars.Set("y", 2)
	vars.Set("s", []string{"p", "q"})
	err = t.Execute(&buf, vars, nil)
	vfAssert(err == nil, "exec-ok")
	vfNote(buf.String())
	vfAssert(buf.String() == "a&lt;&amp;&gt;bY[0=p][1=q]", "output")
}
