package jet

import (
	"bytes"
	"errors"
	"io"
	"io/ioutil"
)

// ---- C16: cache coherence ----

// c16Loader: a loader over three candidate paths (the extension list) with symbolic
// exists / open-fails / unparsable flags per candidate; it records every call.
type c16Loader struct {
	readFail map[string]bool
	exists   map[string]bool
	openFail map[string]bool
	content  map[string]string
	calls    []string
}

func (l *c16Loader) Exists(p string) bool {
	l.calls = append(l.calls, "E:"+p)
	return l.exists[p]
}

// c16FailReader yields a parsable prefix and then fails.
type c16FailReader struct{ done bool }

func (r *c16FailReader) Read(p []byte) (int, error) {
	if !r.done {
		r.done = true
		return copy(p, "prefix"), nil
	}
	return 0, errors.New("read failed")
}

func (l *c16Loader) Open(p string) (io.ReadCloser, error) {
	l.calls = append(l.calls, "O:"+p)
	if l.openFail[p] {
		return nil, errors.New("open failed")
	}
	if l.readFail[p] {
		return ioutil.NopCloser(&c16FailReader{}), nil
	}
	return ioutil.NopCloser(bytes.NewReader([]byte(l.content[p]))), nil
}

type c16Cache struct {
	m     map[string]*Template
	calls []string
}

func (c *c16Cache) Get(p string) *Template {
	c.calls = append(c.calls, "G:"+p)
	return c.m[p]
}
func (c *c16Cache) Put(p string, t *Template) {
	c.calls = append(c.calls, "P:"+p)
	c.m[p] = t
}

var c16Exts = []string{"", ".jet", ".x"}

// H_C16_lookup: one GetTemplate("/t") over a symbolic state: per candidate extension
// (in the configured order "", ".jet", ".x") whether it is cached, exists in the loader,
// fails to open, or is unparsable; development mode symbolic; custom Cache or the default.
// Checked against the documented behaviour: outside dev mode the first cached candidate is
// returned (identical pointer) without touching the loader; otherwise the loader is probed
// in order and exactly the first existing candidate is opened; Put happens iff load and
// parse succeeded and not in dev mode, under the requested name; dev mode never touches
// the cache.
//
//gosym:reach hit,loaded,failed,notfound
func H_C16_lookup() {
	dev := ndBool("dev")
	l := &c16Loader{exists: map[string]bool{}, openFail: map[string]bool{}, content: map[string]string{}}
	c := &c16Cache{m: map[string]*Template{}}
	pre := &Template{Name: "precached"}
	firstCached, firstExisting := -1, -1
	bad := false
	openFails := false
	for k, e := range c16Exts {
		p := "/t" + e
		if ndBool("cached" + ndItoa(k)) {
			c.m[p] = pre
			if firstCached < 0 {
				firstCached = k
			}
		}
		if ndBool("exists" + ndItoa(k)) {
			l.exists[p] = true
			if firstExisting < 0 {
				firstExisting = k
				switch ndChoice("fault", 3) {
				case 1:
					l.openFail[p] = true
					openFails = true
				case 2:
					l.readFail = map[string]bool{p: true}
					openFails = true
				}
				if ndBool("unparsable") {
					l.content[p] = "{{ if }}"
					bad = true
				} else {
					l.content[p] = "body" + ndItoa(k)
				}
			} else {
				l.content[p] = "other" + ndItoa(k)
			}
		}
	}
	set := NewSet(l, WithCache(c), WithTemplateNameExtensions(c16Exts), DevelopmentMode(dev))
	t, err := set.GetTemplate("/t")
	puts, opens, gets := 0, 0, 0
	opened := ""
	for _, s := range c.calls {
		if s[0] == 'P' {
			puts++
		} else {
			gets++
		}
	}
	for _, s := range l.calls {
		if s[0] == 'O' {
			opens++
			opened = s[2:]
		}
	}
	if dev {
		vfAssert(len(c.calls) == 0, "development mode never consults or fills the cache")
	}
	if !dev && firstCached >= 0 {
		vfReach("hit")
		vfAssert(err == nil && t == pre, "a cached template is returned, identical")
		vfAssert(len(l.calls) == 0, "a cache hit does not touch the loader")
		vfAssert(puts == 0, "a cache hit stores nothing")
		return
	}
	if firstExisting < 0 {
		vfReach("notfound")
		vfAssert(err != nil, "a missing template is an error")
		vfAssert(puts == 0 && opens == 0, "nothing is opened or remembered for a failed lookup")
		return
	}
	// the loader is probed strictly in extension order up to the first existing candidate
	wantCalls := ""
	for k := 0; k <= firstExisting; k++ {
		wantCalls += "E:/t" + c16Exts[k] + ","
	}
	wantCalls += "O:/t" + c16Exts[firstExisting]
	got := ""
	for i, s := range l.calls {
		if i > 0 {
			got += ","
		}
		got += s
	}
	vfAssert(got == wantCalls, "candidates are tried in the configured order and only the first existing one is opened")
	vfAssert(opened == "/t"+c16Exts[firstExisting], "the first existing file wins")
	if openFails || bad {
		vfReach("failed")
		vfAssert(err != nil, "a failed load or parse is an error")
		vfAssert(puts == 0, "failures are never remembered")
		return
	}
	vfReach("loaded")
	vfAssert(err == nil && t != nil, "the template is loaded")
	if dev {
		vfAssert(puts == 0, "development mode stores nothing")
	} else {
		vfAssert(puts == 1 && c.m["/t"] == t, "a successful load is remembered under the requested name")
	}
}

// H_C16_second: two consecutive GetTemplate calls with an edit of the loader in between
// (symbolic: content changed, file deleted, fault cleared), with the default cache:
// outside development mode the second call returns the identical template without touching
// the loader iff the first succeeded; a failed first call is retried; in development mode
// the second call re-reads the loader and sees the edit.
//
//gosym:reach same,retried,reloaded
func H_C16_second() {
	dev := ndBool("dev")
	firstOK := ndBool("firstOK")
	edit := ndChoice("edit", 3) // 0 none, 1 change content, 2 delete
	l := &c16Loader{exists: map[string]bool{"/t.jet": true}, openFail: map[string]bool{}, content: map[string]string{"/t.jet": "one"}}
	if !firstOK {
		l.content["/t.jet"] = "{{ if }}"
	}
	set := NewSet(l, DevelopmentMode(dev))
	t1, err1 := set.GetTemplate("/t")
	vfAssert((err1 == nil) == firstOK, "first call succeeds iff the file is parsable")
	switch edit {
	case 1:
		l.content["/t.jet"] = "two"
	case 2:
		l.exists["/t.jet"] = false
	}
	if !firstOK && edit == 0 {
		l.content["/t.jet"] = "fixed"
	}
	l.calls = nil
	t2, err2 := set.GetTemplate("/t")
	render := func(t *Template) string {
		var b bytes.Buffer
		if t == nil || t.Execute(&b, nil, nil) != nil {
			return "<err>"
		}
		return b.String()
	}
	if !dev && firstOK {
		vfReach("same")
		vfAssert(err2 == nil && t2 == t1, "the identical template is returned")
		vfAssert(len(l.calls) == 0, "without touching the loader")
		return
	}
	if !firstOK {
		vfReach("retried")
		vfAssert(len(l.calls) > 0, "a failed lookup is retried on the next call")
	} else {
		vfReach("reloaded")
		vfAssert(len(l.calls) > 0, "development mode re-reads the loader")
	}
	switch edit {
	case 2:
		vfAssert(err2 != nil, "a deleted file is gone")
	case 1:
		vfAssert(err2 == nil && render(t2) == "two", "the edit is visible")
	default:
		if firstOK {
			vfAssert(err2 == nil && render(t2) == "one", "unchanged content")
		} else {
			vfAssert(err2 == nil && render(t2) == "fixed", "the repaired file loads")
		}
	}
}

// H_C16_parse: Set.Parse never adds anything to the cache - neither its result nor the
// templates it pulls in through extends / import - while templates already cached are used.
//
//gosym:reach parsed
func H_C16_parse() {
	kw := ndChoice("kw", 2)
	preCached := ndBool("precached")
	l := &c16Loader{exists: map[string]bool{"/dep.jet": true, "/dep2.jet": true, "/dep3.jet": true}, openFail: map[string]bool{},
		content: map[string]string{"/dep.jet": `{{ extends "/dep2.jet" }}{{ import "/dep3.jet" }}{{ block b() }}D{{ end }}`, "/dep2.jet": "{{ block b() }}D2{{ end }}", "/dep3.jet": "{{ block c() }}D3{{ end }}"}}
	c := &c16Cache{m: map[string]*Template{}}
	set := NewSet(l, WithCache(c))
	if preCached {
		_, err := set.GetTemplate("/dep.jet")
		vfAssert(err == nil, "dependency loads")
		c.calls = nil
		l.calls = nil
	}
	src := `{{ extends "/dep.jet" }}`
	if kw == 1 {
		src = `{{ import "/dep.jet" }}x`
	}
	_, err := set.Parse("/p.jet", src)
	vfReach("parsed")
	vfAssert(err == nil, "parses")
	for _, s := range c.calls {
		vfAssert(s[0] != 'P', "Set.Parse stores nothing in the cache")
	}
	if preCached {
		vfAssert(len(l.calls) == 0, "an already cached dependency is taken from the cache")
	}
}

// H_C16_order: two files "/foo" and "/foo.jet" exist or not (symbolic), two GetTemplate
// calls with symbolic names among {"/foo", "/foo.jet"}: whatever was requested before, a
// lookup returns the template a fresh Set returns for that name (candidate extensions in
// the configured order, first existing file wins).
//
//gosym:reach compared
//gosym:opts maxviol=100
func H_C16_order() {
	names := []string{"/foo", "/foo.jet"}
	hasPlain, hasJet := ndBool("hasPlain"), ndBool("hasJet")
	n1, n2 := ndChoice("first", 2), ndChoice("second", 2)
	mk := func() *Set {
		l := NewInMemLoader()
		if hasPlain {
			l.Set("/foo", "PLAIN")
		}
		if hasJet {
			l.Set("/foo.jet", "JET")
		}
		return NewSet(l)
	}
	render := func(t *Template, err error) string {
		if err != nil {
			return "<missing>"
		}
		var b bytes.Buffer
		t.Execute(&b, nil, nil)
		return b.String()
	}
	s := mk()
	s.GetTemplate(names[n1])
	got := render(s.GetTemplate(names[n2]))
	want := render(mk().GetTemplate(names[n2]))
	vfReach("compared")
	vfNote(got)
	vfAssert(got == want, "a lookup gives what a fresh Set gives for that name: first existing candidate in extension order")
}

// H_C16_history: histories of 3 (quick) / 5 (thorough) steps over one Set - GetTemplate of
// two names, and loader edits in between (a file of the candidate list created or changed
// to a new parsable / unparsable version, or deleted) - in production and development
// mode, against a reference model of the documented protocol: outside development mode a
// name that loaded once keeps returning that (possibly stale) template without the loader
// being asked; a failed lookup caches nothing and is retried; development mode always
// reflects the loader's current state; candidates are tried in extension order.
// The two requested names share no candidate path (the aliasing case is H_C16_order).
//
//gosym:reach hit,loaded,failed
//gosym:opts maxpaths=400000
func H_C16_history() {
	dev := ndBool("dev")
	files := []string{"/a.jet", "/a.html.jet", "/b.jet"}
	names := []string{"/a", "/b"}
	cands := [][]string{{"/a", "/a.jet", "/a.html.jet", "/a.jet.html"}, {"/b", "/b.jet", "/b.html.jet", "/b.jet.html"}}
	l := &c16Loader{exists: map[string]bool{}, openFail: map[string]bool{}, content: map[string]string{}}
	set := NewSet(l, DevelopmentMode(dev))
	cached := map[string]string{} // reference: name -> content it was loaded with
	version := 0
	steps := 3 + 2*vfTier()
	for s := 0; s < steps; s++ {
		tag := "s" + ndItoa(s)
		switch op := ndChoice(tag+".op", 4); op {
		case 0, 1: // GetTemplate(names[op])
			name := names[op]
			want, wantOK, wantLoader := "", false, true
			if c, ok := cached[name]; ok && !dev {
				want, wantOK, wantLoader = c, true, false
			} else {
				for _, cand := range cands[op] {
					if l.exists[cand] {
						if l.content[cand] != "{{ if }}" {
							want, wantOK = l.content[cand], true
							if !dev {
								cached[name] = want
							}
						}
						break
					}
				}
			}
			l.calls = nil
			t, err := set.GetTemplate(name)
			got := "<err>"
			if err == nil {
				var b bytes.Buffer
				if t.Execute(&b, nil, nil) == nil {
					got = b.String()
				}
			}
			if !wantOK {
				want = "<err>"
				vfReach("failed")
			} else if wantLoader {
				vfReach("loaded")
			} else {
				vfReach("hit")
			}
			vfAssert(got == want, "GetTemplate returns what the documented cache protocol returns")
			vfAssert((len(l.calls) > 0) == wantLoader, "the loader is consulted exactly when the name is not cached (or in development mode)")
		case 2: // create / change a file
			f := files[ndChoice(tag+".file", len(files))]
			version++
			l.exists[f] = true
			l.content[f] = "v" + ndItoa(version) + f
			if ndChoice(tag+".broken", 2) == 1 {
				l.content[f] = "{{ if }}"
			}
		default: // delete a file
			f := files[ndChoice(tag+".file", len(files))]
			l.exists[f] = false
		}
	}
}

// H_C16_extensionLists: custom extension lists - [".jet"], [".jet", ""], [".a", ".b"] and
// the default order - with a file present or not (symbolic) under the bare name and under
// each extension: the first lookup loads the first existing candidate in the CONFIGURED
// order (the bare name is a candidate only if "" is configured), and - whatever the list -
// asking again for the same name returns the identical template without touching the loader.
//
//gosym:reach loaded,notfound
func H_C16_extensionLists() {
	lists := [][]string{{"", ".jet", ".html.jet", ".jet.html"}, {".jet"}, {".jet", ""}, {".a", ".b"}, {".b", "", ".a"}}
	li := ndChoice("list", len(lists))
	exts := lists[li]
	all := []string{"", ".jet", ".a", ".b"}
	// the requested name may itself end in a configured extension: its candidates are
	// still the name plus each configured extension ("/t.jet.jet" included)
	req := []string{"/t", "/t.jet", "/t.a"}[ndChoice("req", 3)]
	l := &c16Loader{exists: map[string]bool{}, openFail: map[string]bool{}, content: map[string]string{}}
	for _, e := range all {
		if ndBool("has" + e) {
			l.exists[req+e] = true
			l.content[req+e] = "C" + e
		}
	}
	opts := []Option{}
	if li > 0 {
		opts = append(opts, WithTemplateNameExtensions(exts))
	}
	set := NewSet(l, opts...)
	want := ""
	found := false
	for _, e := range exts {
		if l.exists[req+e] {
			want, found = "C"+e, true
			break
		}
	}
	render := func(t *Template) string {
		var b bytes.Buffer
		if t == nil || t.Execute(&b, nil, nil) != nil {
			return "<err>"
		}
		return b.String()
	}
	t1, err1 := set.GetTemplate(req)
	if !found {
		vfReach("notfound")
		vfAssert(err1 != nil, "no configured candidate exists: not found")
		return
	}
	vfReach("loaded")
	vfAssert(err1 == nil && render(t1) == want, "candidate extensions are tried strictly in the configured order and the first existing file wins")
	l.calls = nil
	t2, err2 := set.GetTemplate(req)
	vfAssert(err2 == nil && t2 == t1, "asking again for the same name returns the identical template")
	vfAssert(len(l.calls) == 0, "... without touching the loader")
}

// H_C16_includeHistory: a template that includes /part.jet and optionally includes
// /extra.jet (includeIfExists) is loaded once and executed twice with a loader edit in
// between (part changed or deleted; extra created, changed or deleted), in production and
// development mode: a lookup that failed is retried (an extra that appears is included on
// the next execution, in both modes); in development mode every execution re-reads the
// loader (edits and deletions are visible at once); in production mode what was loaded
// successfully keeps being served.
//
//gosym:reach rendered
func H_C16_includeHistory() {
	dev := ndBool("dev")
	extraFirst := ndBool("extraFirst") // /extra.jet exists before the first execution
	edit := ndChoice("edit", 5)        // 0 none, 1 part changed, 2 part deleted, 3 extra created/changed, 4 extra deleted
	l := NewInMemLoader()
	l.Set("/page.jet", `<{{ include "/part.jet" }}>[{{ if includeIfExists("/extra.jet") }}+{{ else }}-{{ end }}]`)
	l.Set("/part.jet", "v1")
	if extraFirst {
		l.Set("/extra.jet", "e1")
	}
	set := NewSet(l, DevelopmentMode(dev))
	t, err := set.GetTemplate("/page.jet")
	vfAssert(err == nil, "page loads")
	if err != nil {
		return
	}
	run := func() string {
		var b bytes.Buffer
		if t.Execute(&b, nil, nil) != nil {
			return b.String() + "<err>"
		}
		return b.String()
	}
	first := run()
	w1 := "<v1>[-]"
	if extraFirst {
		w1 = "<v1>[e1+]"
	}
	vfAssert(first == w1, "first execution")
	part, partOK, extra, extraOK := "v1", true, "e1", extraFirst
	switch edit {
	case 1:
		l.Set("/part.jet", "v2")
		part = "v2"
	case 2:
		l.Delete("/part.jet")
		partOK = false
	case 3:
		l.Set("/extra.jet", "e2")
		extra, extraOK = "e2", true
	case 4:
		l.Delete("/extra.jet")
		extraOK = false
	}
	second := run()
	vfReach("rendered")
	var want string
	if dev {
		// always the loader's current state
		if !partOK {
			want = "<<err>"
		} else {
			want = "<" + part + ">["
			if extraOK {
				want += extra + "+]"
			} else {
				want += "-]"
			}
		}
	} else {
		// what loaded successfully is remembered; what failed is retried
		want = "<v1>["
		switch {
		case extraFirst:
			want += "e1+]"
		case extraOK:
			want += extra + "+]"
		default:
			want += "-]"
		}
	}
	vfNote(second)
	vfAssert(second == want, "failed lookups are retried; development mode re-reads the loader; production mode serves what it remembered")
}

// H_C16_nestedLoads: the file found for the requested name extends or imports a template
// whose path is another candidate of the same request ("/page" -> /page.jet, which extends
// /page.jet.html; or imports /page.html.jet), so the nested load puts that other candidate
// into the cache while the request is still being served: the request still yields the
// first existing candidate in extension order, is remembered under the requested name, and
// asking again returns the identical template.
//
//gosym:reach loaded
func H_C16_nestedLoads() {
	kw := ndChoice("kw", 3)
	target := []string{"/page.jet.html", "/page.html.jet"}[ndChoice("target", 2)]
	rel := ndBool("relative")
	ref := target
	if rel {
		ref = target[1:]
	}
	var page, want string
	switch kw {
	case 0:
		page, want = `{{ extends "`+ref+`" }}{{ block body() }}PAGE{{ end }}`, "<html>PAGE</html>"
	case 1:
		page, want = `{{ import "`+ref+`" }}page:{{ yield body() }}`, "page:LAYOUT"
	default:
		page, want = `page:{{ include "`+ref+`" }}`, "page:<html>LAYOUT</html>"
	}
	l := &c16Loader{exists: map[string]bool{"/page.jet": true, target: true}, openFail: map[string]bool{},
		content: map[string]string{"/page.jet": page, target: `<html>{{ block body() }}LAYOUT{{ end }}</html>`}}
	c := &c16Cache{m: map[string]*Template{}}
	set := NewSet(l, WithCache(c))
	render := func(t *Template) string {
		var b bytes.Buffer
		if t == nil || t.Execute(&b, nil, nil) != nil {
			return "<err>"
		}
		return b.String()
	}
	t1, err1 := set.GetTemplate("/page")
	vfReach("loaded")
	vfAssert(err1 == nil && t1 != nil, "loads")
	if err1 != nil || t1 == nil {
		return
	}
	vfNote(t1.Name)
	vfAssert(t1.Name == "/page.jet" && render(t1) == want, "the first existing candidate in extension order is the one returned")
	vfAssert(c.m["/page"] == t1, "and remembered under the requested name")
	l.calls = nil
	t2, err2 := set.GetTemplate("/page")
	vfAssert(err2 == nil && t2 == t1 && len(l.calls) == 0, "asking again returns the identical template without touching the loader")
	t3, err3 := set.GetTemplate(target)
	vfAssert(err3 == nil && t3 != nil && t3.Name == target, "the other candidate is still reachable under its own name")
}

// c16NoCache forgets everything (a custom Cache may evict at any time).
type c16NoCache struct{}

func (c16NoCache) Get(string) *Template  { return nil }
func (c16NoCache) Put(string, *Template) {}

// H_C16_reloads: whenever a lookup goes to the loader again - development mode, an
// evicting custom Cache, a retry after a failed load, Set.Parse pulling in its references -
// it sees the loader as it is NOW: an edited parent or import of an unchanged file, a file
// added under an earlier-configured extension, a repaired file.
//
//gosym:reach checked
func H_C16_reloads() {
	sc := ndChoice("scenario", 5)
	mode := ndChoice("mode", 2) // 0 development mode, 1 evicting cache
	l := &c16Loader{exists: map[string]bool{}, openFail: map[string]bool{}, content: map[string]string{}}
	put := func(p, c string) { l.exists[p], l.content[p] = true, c }
	opts := []Option{WithTemplateNameExtensions([]string{".tpl", ".txt", ""})}
	if mode == 0 {
		opts = append(opts, InDevelopmentMode())
	} else {
		opts = append(opts, WithCache(c16NoCache{}))
	}
	set := NewSet(l, opts...)
	render := func(t *Template, err error) string {
		if err != nil {
			return "<error>"
		}
		var b bytes.Buffer
		if t.Execute(&b, nil, nil) != nil {
			return "<error>"
		}
		return b.String()
	}
	var got1, got2, want1, want2 string
	switch sc {
	case 0:
		// an unchanged child of an edited parent
		put("/base.tpl", `old[{{ block b() }}x{{ end }}]`)
		put("/child.tpl", `{{ extends "/base" }}{{ block b() }}c{{ end }}`)
		got1 = render(set.GetTemplate("/child"))
		put("/base.tpl", `new[{{ block b() }}x{{ end }}]`)
		got2 = render(set.GetTemplate("/child"))
		want1, want2 = "old[c]", "new[c]"
	case 1:
		// an unchanged file whose import was edited, pulled in by Set.Parse
		put("/lib.tpl", `{{ block w() }}one{{ end }}`)
		put("/mid.tpl", `{{ import "/lib" }}{{ yield w() }}`)
		got1 = render(set.Parse("/p1.tpl", `{{ extends "/mid" }}`))
		put("/lib.tpl", `{{ block w() }}two{{ end }}`)
		got2 = render(set.Parse("/p2.tpl", `{{ extends "/mid" }}`))
		want1, want2 = "one", "two"
	case 2:
		// a file added under an extension configured earlier than the one that matched before
		put("/page.txt", `from page.txt`)
		got1 = render(set.GetTemplate("/page"))
		put("/page.tpl", `from page.tpl`)
		got2 = render(set.GetTemplate("/page"))
		want1, want2 = "from page.txt", "from page.tpl"
	case 3:
		// retry after a failed parse, with a valid file now present under an earlier extension
		put("/mail.txt", `{{ if }}`)
		got1 = render(set.GetTemplate("/mail"))
		put("/mail.tpl", `mail.tpl`)
		got2 = render(set.GetTemplate("/mail"))
		want1, want2 = "<error>", "mail.tpl"
	default:
		// the file itself edited back and forth
		put("/t.tpl", `v1`)
		got1 = render(set.GetTemplate("/t"))
		put("/t.tpl", `v2`)
		set.GetTemplate("/t")
		put("/t.tpl", `v1`)
		got2 = render(set.GetTemplate("/t"))
		want1, want2 = "v1", "v1"
	}
	vfReach("checked")
	vfNote(got2)
	vfAssert(got1 == want1, "the first lookup sees the loader's state")
	vfAssert(got2 == want2, "a lookup that goes to the loader again sees the loader as it is now")
}
