package jet

import (
	"reflect"
)

// ---- C18: the Go-side Runtime and Arguments API mirrors template semantics ----

// c18Op applies one scope operation through the Runtime API from inside a jet.Func.
func c18Op(op string, name string, val string) Func {
	return func(a Arguments) reflect.Value {
		r := a.Runtime()
		switch op {
		case "let":
			r.Let(name, val)
		case "set":
			if err := r.Set(name, val); err != nil {
				panic(err)
			}
		case "setorlet":
			r.SetOrLet(name, val)
		case "letglobal":
			r.LetGlobal(name, val)
		}
		return reflect.ValueOf("")
	}
}

// syntax twins of the API operations
func c18Syntax(op, name, val string, declared bool) string {
	switch op {
	case "let":
		return `{{ ` + name + ` := "` + val + `" }}`
	case "set":
		return `{{ ` + name + ` = "` + val + `" }}`
	case "setorlet":
		if declared {
			return `{{ ` + name + ` = "` + val + `" }}`
		}
		return `{{ ` + name + ` := "` + val + `" }}`
	}
	return ""
}

// H_C18_scopeOps: Let / Set / SetOrLet called from a custom function at a call site
// inside an if body that has already opened its scope, inside a range, a block and an
// included template, with the variable declared (or not) in the outer scope: the bindings
// visible at the call site, after the body and at the end of the template equal those the
// syntax twin (:= / =) produces; Set on an undeclared variable is an error in both.
//
//gosym:reach compared,both-fail
func H_C18_scopeOps() {
	ops := []string{"let", "set", "setorlet"}
	op := ops[ndChoice("op", len(ops))]
	declared := ndBool("declared")
	declNil := ndBool("declaredNil")           // the declared variable currently holds nil
	inVarMap := declared && ndBool("inVarMap") // ... and lives in the VarMap given to Execute
	site := ndChoice("site", 4)
	pre := ""
	if declared && !inVarMap {
		pre = `{{ x := "outer" }}`
		if declNil {
			pre = `{{ x := nil }}`
		}
	}
	probe := `{{ isset(x) ? x : "-" }}`
	_ = declNil
	wrap := func(action string) (string, []string) {
		body := `{{ opened := 1 }}` + action + `[` + probe + `]`
		switch site {
		case 0:
			return pre + `{{ if true }}` + body + `{{ end }}<` + probe + `>`, nil
		case 1:
			return pre + `{{ range one }}` + body + `{{ end }}<` + probe + `>`, nil
		case 2:
			return pre + `{{ block b() }}` + body + `{{ end }}<` + probe + `>`, nil
		default:
			return pre + `{{ include "/inc.jet" }}<` + probe + `>`, []string{"/inc.jet", body}
		}
	}
	run := func(action string) (string, bool) {
		src, extra := wrap(action)
		files := append([]string{"/m.jet", src}, extra...)
		set := hxSet(nil, files...)
		vars := make(VarMap)
		vars.Set("one", []int{1})
		if inVarMap {
			if declNil {
				vars.Set("x", nil)
			} else {
				vars.Set("x", "outer")
			}
		}
		vars.SetFunc("op", c18Op(op, "x", "new"))
		out, err := hxExec(set, "/m.jet", vars, nil)
		return out, err != nil
	}
	apiOut, apiErr := run(`{{ op() }}`)
	synOut, synErr := run(c18Syntax(op, "x", "new", declared))
	if synErr {
		vfReach("both-fail")
		vfAssert(apiErr, "Set on an undeclared variable fails like '='")
		return
	}
	vfReach("compared")
	vfAssert(!apiErr, "the API call succeeds where the syntax does")
	vfNote(apiOut)
	vfAssert(apiOut == synOut, "the API operation leaves the same bindings as its syntax twin")
}

// H_C18_resolveContext: Runtime.Resolve is identifier lookup and Runtime.Context is '.',
// at call sites where '.' and the scopes differ (top level, range body, block with context).
//
//gosym:reach rendered
func H_C18_resolveContext() {
	site := ndChoice("site", 6)
	v := ndString("v", 1)
	srcs := []string{
		`{{ x := v }}{{ peek(x) }}|{{ x }}|{{ . }}`,
		`{{ range x := one }}{{ peek(x) }}|{{ x }}|{{ . }}{{ end }}`,
		`{{ x := v }}{{ block b() v }}{{ peek(x) }}|{{ x }}|{{ . }}{{ end }}`,
		// values held in interfaces: identifier lookup yields the value itself, so must Resolve
		`{{ range i, x := ifs }}{{ peek(x) }}|{{ x }}|{{ . }}{{ end }}`,
		`{{ range k, x := ifm }}{{ peek(x) }}|{{ x }}|{{ . }}{{ end }}`,
		`{{ x := ifs[0] }}{{ if true }}{{ peek(x) }}|{{ x }}|{{ . }}{{ end }}`,
	}
	set := hxSet([]Option{WithSafeWriter(nil)}, "/m.jet", srcs[site])
	vars := make(VarMap)
	vars.Set("v", v)
	vars.Set("one", []string{v})
	vars.Set("ifs", []interface{}{v})
	vars.Set("ifm", map[string]interface{}{"k": v})
	vars.SetFunc("peek", func(a Arguments) reflect.Value {
		r := a.Runtime()
		x := r.Resolve("x")
		if x.IsValid() != a.Get(0).IsValid() || (x.IsValid() && x.Kind() != a.Get(0).Kind()) {
			return reflect.ValueOf("#Resolve yields a different kind of value than the identifier")
		}
		c := r.Context()
		s := ""
		if x.IsValid() {
			s += printVal(x)
		} else {
			s += "<invalid>"
		}
		s += "|"
		if c.IsValid() {
			s += printVal(c)
		} else {
			s += "<invalid>"
		}
		missing := r.Resolve("doesNotExist")
		if missing.IsValid() {
			s += "#missing-resolved"
		}
		return reflect.ValueOf(s)
	})
	out, err := hxExec(set, "/m.jet", vars, "D")
	vfReach("rendered")
	vfAssert(err == nil, "renders")
	// the template prints x and '.' itself right after the function printed them
	half := len(out) / 2
	vfNote(out)
	vfAssert(len(out)%2 == 1 && out[:half] == out[half+1:], "Resolve == identifier lookup and Context == '.'")
}

func printVal(v reflect.Value) string {
	if v.Kind() == reflect.Interface {
		v = v.Elem()
	}
	switch v.Kind() {
	case reflect.String:
		return v.String()
	case reflect.Int:
		return ndItoa(int(v.Int()))
	}
	return "?"
}

// H_C18_letGlobal: LetGlobal binds in the outermost template scope: visible after the
// body in which it was called and in later sibling bodies, at every nesting depth.
//
//gosym:reach rendered
func H_C18_letGlobal() {
	depth := ndChoice("depth", 3)
	topDecl := ndBool("topDecl")    // whether the top-level scope has already declared something
	varmap := ndChoice("varmap", 3) // 0: nil VarMap, 1: empty VarMap, 2: VarMap with an entry
	open, close := "", ""
	for i := 0; i < depth; i++ {
		open += `{{ if true }}{{ d` + ndItoa(i) + ` := 1 }}`
		close += `{{ end }}`
	}
	top := ""
	if topDecl {
		top = `{{ top := 1 }}`
	}
	set := hxSet(nil, "/m.jet", top+open+`{{ g() }}[{{ isset(G) ? G : "-" }}]`+close+`<{{ isset(G) ? G : "-" }}>{{ if true }}({{ isset(G) ? G : "-" }}){{ end }}`)
	set.AddGlobalFunc("g", c18Op("letglobal", "G", "gv"))
	var vars VarMap
	switch varmap {
	case 1:
		vars = make(VarMap)
	case 2:
		vars = make(VarMap)
		vars.Set("other", 1)
	}
	out, err := hxExec(set, "/m.jet", vars, nil)
	vfReach("rendered")
	vfAssert(err == nil, "renders")
	vfAssert(out == "[gv]<gv>(gv)", "LetGlobal binds in the outermost template scope")
}

// H_C18_yieldBlock: Runtime.YieldBlock(name, ctx) renders the block exactly once, like
// {{ yield name() ctx }}: with ctx as '.' if non-nil, else the current context; an unknown
// block is an error.
//
//gosym:reach rendered,unknown
func H_C18_yieldBlock() {
	ctxKind := ndChoice("ctx", 3) // 0 no context, 1 an int, 2 (round 8) a typed nil: a nil map is a context like any other
	withCtx := ctxKind != 0
	var ctxVal interface{} = 7
	if ctxKind == 2 {
		ctxVal = map[string]int(nil)
	}
	known := ndBool("known")
	log := &hxLog{}
	name := "b"
	if !known {
		name = "nope"
	}
	// the block's definition may carry a context expression of its own: it is the context
	// of the definition site only, not a default for yields
	dflt := ""
	if ndBool("defaultCtx") {
		dflt = `"dctx" `
	}
	set := hxSet(nil,
		"/lib.jet", `{{ block b() `+dflt+`}}{{ count() }}[{{ . }}]{{ end }}`,
		"/m.jet", `{{ import "/lib.jet" }}<{{ y() }}|{{ . }}>{{ include "/inc.jet" }}{{ range i, e := one }}<{{ y() }}|{{ . }}>{{ end }}`,
		"/inc.jet", `{{ if true }}{{ z := 1 }}<{{ y() }}|{{ . }}>{{ end }}{{ isset(z) }}{{ range i, e := one }}{{ w := 2 }}{{ y() }}{{ end }}{{ isset(w) }}`,
		"/s.jet", `{{ import "/lib.jet" }}<{{ yield b() ctxv }}|{{ . }}>{{ include "/sinc.jet" }}{{ range i, e := one }}<{{ yield b() ctxv }}|{{ . }}>{{ end }}`,
		"/sinc.jet", `{{ if true }}{{ z := 1 }}<{{ yield b() ctxv }}|{{ . }}>{{ end }}{{ isset(z) }}{{ range i, e := one }}{{ w := 2 }}{{ yield b() ctxv }}{{ end }}{{ isset(w) }}`,
		"/s0.jet", `{{ import "/lib.jet" }}<{{ yield b() }}|{{ . }}>{{ include "/s0inc.jet" }}{{ range i, e := one }}<{{ yield b() }}|{{ . }}>{{ end }}`,
		"/s0inc.jet", `{{ if true }}{{ z := 1 }}<{{ yield b() }}|{{ . }}>{{ end }}{{ isset(z) }}{{ range i, e := one }}{{ w := 2 }}{{ yield b() }}{{ end }}{{ isset(w) }}`,
	)
	mk := func() VarMap {
		vars := make(VarMap)
		vars.Set("ctxv", ctxVal)
		vars.Set("one", []int{1})
		vars.SetFunc("count", log.probe("body", ""))
		vars.SetFunc("y", func(a Arguments) reflect.Value {
			if withCtx {
				a.Runtime().YieldBlock(name, ctxVal)
			} else {
				a.Runtime().YieldBlock(name, nil)
			}
			return reflect.ValueOf("")
		})
		return vars
	}
	out, err := hxExec(set, "/m.jet", mk(), "D")
	if !known {
		vfReach("unknown")
		vfAssert(err != nil, "an unknown block is an error")
		return
	}
	vfReach("rendered")
	vfAssert(err == nil, "renders")
	vfAssert(log.String() == "body,body,body,body", "the block body runs exactly once per call")
	log.events = nil
	twin := "/s0.jet"
	if withCtx {
		twin = "/s.jet"
	}
	want, _ := hxExec(set, twin, mk(), "D")
	vfNote(out)
	vfAssert(out == want, "YieldBlock renders what the yield statement renders")
}

// H_C18_nilVarMap: Let / SetOrLet / LetGlobal from a top-level action when Execute was
// given a nil VarMap and no scope has been opened yet: no panic, and the binding is visible.
//
//gosym:reach rendered
func H_C18_nilVarMap() {
	ops := []string{"let", "setorlet", "letglobal"}
	op := ops[ndChoice("op", len(ops))]
	set := hxSet(nil, "/m.jet", `{{ f() }}[{{ isset(x) ? x : "-" }}]`)
	set.AddGlobalFunc("f", c18Op(op, "x", "new"))
	out, err := hxExec(set, "/m.jet", nil, nil)
	vfReach("rendered")
	vfAssert(err == nil, "no failure with a nil VarMap")
	vfAssert(out == "[new]", "the binding is visible afterwards")
	// ... and ends with the execution: the next one (again without a VarMap) starts empty
	set2 := hxSet(nil, "/p.jet", `[{{ isset(x) ? x : "-" }}]`)
	out2, err2 := hxExec(set2, "/p.jet", nil, nil)
	out3, err3 := hxExec(set, "/m.jet", nil, nil)
	vfAssert(err2 == nil && out2 == "[-]", "what the API declared in one execution is not visible in the next")
	vfAssert(err3 == nil && out3 == "[new]", "the same execution again renders the same")
}

// c18IsSetPattern reports, for a jet.Func, which argument positions IsSet says are set
// and the number of arguments - without evaluating them.
func c18IsSetPattern(a Arguments) reflect.Value {
	n := a.NumOfArguments()
	s := ndItoa(n) + ":"
	for i := 0; i < n; i++ {
		if a.IsSet(i) {
			s += "1"
		} else {
			s += "0"
		}
	}
	return reflect.ValueOf(s)
}

// H_C18_arguments: Arguments.IsSet / NumOfArguments / Get present piped and slot-placed
// values at the positions a reflected Go function would receive them: for each call shape
// (plain, piped, piped with the slot at each index) with some arguments that are not set
// (undefined identifiers, nil values), the IsSet pattern and the values Get returns equal
// those of the equivalent plain call.
//
//gosym:reach compared
func H_C18_arguments() {
	pairs := [][2]string{
		{`{{ x | js(undef, _, a) }}`, `{{ js(undef, x, a) }}`},
		{`{{ x | js(_, undef, a) }}`, `{{ js(x, undef, a) }}`},
		{`{{ x | js(a, undef, _) }}`, `{{ js(a, undef, x) }}`},
		{`{{ x | js: undef, a }}`, `{{ js(x, undef, a) }}`},
		{`{{ x | js(undef) }}`, `{{ js(x, undef) }}`},
		{`{{ nilv | js(a, _) }}`, `{{ js(a, nilv) }}`},
		{`{{ nilv | js: a }}`, `{{ js(nilv, a) }}`},
		{`{{ x | j(a, _, b) }}`, `{{ j(a, x, b) }}`},
		{`{{ x | j(_, a) }}`, `{{ j(x, a) }}`},
		{`{{ x | pi(a, _) }}`, `{{ pi(a, x) }}`},
		{`{{ x | pi: a }}`, `{{ pi(x, a) }}`},
	}
	p := ndChoice("pair", len(pairs))
	x, a, b := ndString("x", 1), ndString("a", 1), ndString("b", 1)
	mk := func() VarMap {
		vars := c14Vars(x, a, b)
		vars.Set("nilv", nil)
		vars.SetFunc("js", c18IsSetPattern)
		vars.SetFunc("pi", func(args Arguments) reflect.Value {
			var s1, s2 string
			if err := args.ParseInto(&s1, &s2); err != nil {
				panic(err)
			}
			return reflect.ValueOf("pi(" + s1 + "," + s2 + ")")
		})
		return vars
	}
	set := hxSet([]Option{WithSafeWriter(nil)}, "/s.jet", pairs[p][0], "/p.jet", pairs[p][1])
	o1, e1 := hxExec(set, "/s.jet", mk(), nil)
	o2, e2 := hxExec(set, "/p.jet", mk(), nil)
	vfReach("compared")
	vfAssert(e1 == nil && e2 == nil, "both forms evaluate")
	vfNote(o1)
	vfAssert(o1 == o2, "Arguments presents piped and slot-placed values at the positions of the plain call")
}

// H_C18_scopeOps2 (thorough): two scope operations on one variable at two nesting depths -
// the first inside an inner body (if / range / block / include) nested in an outer body of
// any of the four kinds, the second in the outer body after the inner one has ended - with
// the variable declared at the top level, in the outer body, or not at all: the bindings
// seen at five observation points (inner, outer before/after the second operation, and top
// level) equal those of the template written with := / = instead of the API calls; a
// failure (Set of an undeclared name) occurs in both or in neither.
//
//gosym:reach compared,both-fail
//gosym:thorough-only
func H_C18_scopeOps2() {
	ops := []string{"let", "set", "setorlet"}
	op1 := ops[ndChoice("op1", len(ops))]
	op2 := ops[ndChoice("op2", len(ops))]
	declAt := ndChoice("declAt", 3) // 0 nowhere, 1 top level, 2 outer body
	outer, inner := ndChoice("outer", 4), ndChoice("inner", 4)
	probe := `{{ isset(x) ? x : "-" }}`
	// whether x is visible (declared) where each operation runs, for the SetOrLet twin
	decl1 := declAt != 0
	decl2 := declAt != 0
	open := func(site int, file string, body string, files *[]string) string {
		switch site {
		case 0:
			return `{{ if true }}` + body + `{{ end }}`
		case 1:
			return `{{ range one }}` + body + `{{ end }}`
		case 2:
			return `{{ block ` + file[1:2] + `() }}` + body + `{{ end }}`
		}
		*files = append(*files, file, body)
		return `{{ include "` + file + `" }}`
	}
	build := func(a1, a2 string) []string {
		var files []string
		innerBody := `{{ opened2 := 1 }}` + a1 + `[` + probe + `]`
		outerBody := `{{ opened1 := 1 }}`
		if declAt == 2 {
			outerBody += `{{ x := "mid" }}`
		}
		outerBody += open(inner, "/i.jet", innerBody, &files) + `(` + probe + `)` + a2 + `~` + probe + `~`
		top := ""
		if declAt == 1 {
			top = `{{ x := "top" }}`
		}
		src := top + open(outer, "/o.jet", outerBody, &files) + `<` + probe + `>`
		return append([]string{"/m.jet", src}, files...)
	}
	run := func(api bool) (string, bool) {
		a1, a2 := `{{ op1() }}`, `{{ op2() }}`
		if !api {
			a1, a2 = c18Syntax(op1, "x", "n1", decl1), c18Syntax(op2, "x", "n2", decl2)
		}
		set := hxSet(nil, build(a1, a2)...)
		vars := make(VarMap)
		vars.Set("one", []int{1})
		vars.SetFunc("op1", c18Op(op1, "x", "n1"))
		vars.SetFunc("op2", c18Op(op2, "x", "n2"))
		out, err := hxExec(set, "/m.jet", vars, nil)
		return out, err != nil
	}
	// (bodies of all four kinds, included templates too, see the enclosing scopes; a Let in
	// the inner body is gone again in the outer body, so decl2 is as declared)
	apiOut, apiErr := run(true)
	synOut, synErr := run(false)
	if synErr {
		vfReach("both-fail")
		vfAssert(apiErr, "the API call fails where its syntax twin does")
		return
	}
	vfReach("compared")
	vfAssert(!apiErr, "the API call succeeds where the syntax does")
	vfNote(apiOut)
	vfAssert(apiOut == synOut, "the API operations leave the same bindings as their syntax twins")
}

// H_C18_yieldBlockNested: a function invoked as a pipe stage (with the piped value as its
// implicit first argument, or placed by a slot) calls Runtime.YieldBlock before it reads
// its arguments; the yielded block itself contains a pipeline and a {{ yield content }},
// and the call site is inside a block that was yielded with content: the arguments read
// after the nested rendering are the ones read before it, and the nested block sees the
// enclosing content exactly as {{ yield hdr() }} written at the call site does.
//
//gosym:reach rendered
func H_C18_yieldBlockNested() {
	withCtx := ndBool("ctx")
	set := hxSet(nil,
		"/lib.jet", `{{ block hdr() }}{{ "h" | upper }}{{ . }}{{ yield content }}{{ end }}`,
		"/m.jet", `{{ import "/lib.jet" }}{{ block outer() }}<{{ "Title" | show }}|{{ "x" | show("pre", _) }}|{{ show("a", "b") }}>{{ end }}{{ yield outer() content }}X{{ end }}`,
		"/twin.jet", `{{ import "/lib.jet" }}{{ block outer() }}<{{ yield hdr() tctx }}>{{ end }}{{ yield outer() content }}X{{ end }}`,
	)
	args := func(a Arguments) string {
		s := ""
		for k := 0; k < a.NumOfArguments(); k++ {
			if k > 0 {
				s += ","
			}
			s += a.Get(k).String()
		}
		return s
	}
	vars := make(VarMap)
	vars.SetFunc("show", func(a Arguments) reflect.Value {
		before := args(a)
		if withCtx {
			a.Runtime().YieldBlock("hdr", 7)
		} else {
			a.Runtime().YieldBlock("hdr", nil)
		}
		return reflect.ValueOf(before + "/" + args(a))
	})
	if withCtx {
		vars.Set("tctx", 7)
	} else {
		vars.Set("tctx", "D")
	}
	out, err := hxExec(set, "/m.jet", vars, "D")
	twin, terr := hxExec(set, "/twin.jet", vars, "D")
	vfReach("rendered")
	vfAssert(err == nil && terr == nil, "renders")
	dot := "D"
	if withCtx {
		dot = "7"
	}
	site := func(c string) string {
		h := "H" + dot + c
		return "<" + h + "Title/Title|" + h + "pre,x/pre,x|" + h + "a,b/a,b>"
	}
	vfNote(out)
	vfAssert(twin == "<H"+dot+"><H"+dot+"X>", "(the yield statement at the same place sees the enclosing content)")
	vfAssert(out == site("")+site("X"), "arguments are stable across the nested rendering; the nested block sees the enclosing content")
}
