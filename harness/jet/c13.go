package jet

import (
	"errors"
	"reflect"
)

// ---- C13: try is all-or-nothing and leaves no trace of a failed body ----

// c13Bodies: try bodies in which the (symbolically) failing call sits below constructs
// that push interpreter state: a range (rebinds '.'), an if with declaration and a plain
// declaration (push scopes), a yield with content (installs a content closure), an include
// with explicit context (scope, blocks and '.'), inner try statements.
var c13Bodies = []string{
	`{{ mayFail() }}`,
	`{{ range r }}{{ mayFail() }}{{ end }}`,
	`{{ if y := 2; true }}{{ mayFail() }}{{ end }}`,
	`{{ y := 3 }}{{ mayFail() }}`,
	`{{ yield wrap() content }}{{ mayFail() }}{{ end }}`,
	`{{ include "/inc.jet" "ctx2" }}`,
	`{{ try }}{{ fail() }}{{ end }}{{ mayFail() }}`,
	`{{ range r }}{{ try }}{{ range r }}{{ fail() }}{{ end }}{{ catch }}{{ end }}{{ mayFail() }}{{ end }}`,
	`{{ yield wrap() content }}{{ yield wrap() content }}{{ mayFail() }}{{ end }}{{ end }}`,
	`{{ range k, v := r }}{{ y := v }}{{ mayFail() }}{{ end }}`,
	`{{ block inner() "ctx3" }}{{ y := 5 }}{{ mayFail() }}{{ end }}`,
	`{{ yield wrapv() content }}{{ y := 6 }}{{ mayFail() }}{{ end }}`,
}

// what each body renders when nothing fails (p is the symbolic prefix value printed first)
var c13BodyOut = []string{"", "", "", "", "<>", "", "", "", "<<>>", "", "", "<>"}

var c13Catches = []string{`{{ catch e }}C{{ e != nil }}<{{ . }}>`, `{{ catch }}C<{{ . }}>`, ``}

// H_C13_try: PRE {{try}} p BODY {{catch ...}} .. {{end}} POST, at top level (host 0) and
// inside a block invoked with caller content (host 1). p is a symbolic string of 1 (quick) / 2 (thorough) bytes
// printed by the body before the point of failure; whether the call fails is symbolic.
// Asserted: the body's bytes reach the writer iff it did not fail (and then equal what it
// renders outside try); the catch body runs once iff it failed; after the statement '.',
// the visible variables, the block content and the output destination are those from
// before it (POST renders '.', isset(y), isset(e), a pre-declared z and 'yield content').
//
//gosym:reach succeeded,caught,uncaught
func H_C13_try() {
	b := ndChoice("body", len(c13Bodies))
	c := ndChoice("catch", len(c13Catches))
	host := ndChoice("host", 2)
	fails := ndBool("fails")
	nilData := ndBool("nilData") // Execute called with nil data: '.' is invalid outside
	outerE := ndBool("outerE")   // a variable named like the catch variable exists before the try
	pn := 1
	if vfTier() == 1 {
		pn = 2
	}
	p := "<"
	if b == 0 || vfTier() == 1 {
		// the value printed before the failure point is symbolic for the plain body (the
		// interplay of escaping and buffering does not depend on the body's shape)
		p = ndString("p", pn)
	}
	stmt := `{{ try }}{{ p }}` + c13Bodies[b] + c13Catches[c] + `{{ end }}`
	post := `|{{ . }}|{{ isset(y) }}|{{ isset(e) ? e : "unset" }}|{{ z }}|{{ yield content }}|`
	decl := `{{ z := 7 }}`
	if outerE {
		decl += `{{ e := "outerE" }}`
	}
	var main string
	if host == 0 {
		main = decl + `PRE` + stmt + post
	} else {
		main = `{{ block host() }}` + decl + `PRE` + stmt + post + `{{ end }}{{ yield host() content }}CC{{ end }}`
	}
	set := hxSet(nil,
		"/m.jet", `{{ import "/lib.jet" }}`+main,
		"/lib.jet", `{{ block wrap() }}<{{ yield content }}>{{ end }}{{ block wrapv() }}{{ bv := 2 }}<{{ yield content }}>{{ end }}`,
		"/inc.jet", `{{ y := 4 }}{{ mayFail() }}`,
	)
	vars := make(VarMap)
	vars.Set("p", p)
	vars.Set("r", []string{"e1"})
	vars.SetFunc("fail", hxFail)
	// the failure is an error value, or a Go runtime error raised inside the called function
	// (integer division by zero, nil map write), or a panic with a value that is no error: try
	// catches all of them
	failKind := 0
	if fails && b <= 1 {
		failKind = ndChoice("failKind", 4)
	}
	vars.SetFunc("mayFail", func(a Arguments) reflect.Value {
		if fails {
			switch failKind {
			case 1:
				zero := len(a.Get(5).String()) * 0
				return reflect.ValueOf(1 / zero)
			case 2:
				var m map[string]int
				m["k"] = 1
			case 3:
				panic("a plain string, not an error value")
			}
			panic(errors.New("mayFail"))
		}
		return reflect.ValueOf("")
	})
	var data interface{} = "D"
	dot := "D"
	if nilData {
		data, dot = nil, ""
	}
	out, err := hxExec(set, "/m.jet", vars, data)
	vfAssert(err == nil, "try never lets the body's error escape")
	if err != nil {
		return
	}
	content := ""
	if host == 1 {
		content = "CC"
	}
	eAfter := "unset"
	if outerE {
		eAfter = "outerE"
	}
	after := "|" + dot + "|false|" + eAfter + "|7|" + content + "|"
	pe := string(refEsc([]byte(p)))
	var want string
	if !fails {
		vfReach("succeeded")
		want = "PRE" + pe + c13BodyOut[b] + after
	} else if c < 2 {
		vfReach("caught")
		if c == 0 {
			want = "PRE" + "Ctrue<" + dot + ">" + after
		} else {
			want = "PRE" + "C<" + dot + ">" + after
		}
	} else {
		vfReach("uncaught")
		want = "PRE" + after
	}
	if host == 1 {
		// the first rendering is the block definition site (no caller content), the second the yield
		first := want[:len(want)-len(content)-1] + "|"
		want = first + want
	}
	vfNote(out)
	vfAssert(out == want, "all-or-nothing output; state after try equals the state before it")
}

// H_C13_catchFails: when the catch body itself fails the error propagates, and the output
// written before the try statement is all that reached the writer.
//
//gosym:reach propagated
func H_C13_catchFails() {
	b := ndChoice("body", len(c13Bodies))
	set := hxSet(nil,
		"/m.jet", `{{ import "/lib.jet" }}PRE{{ try }}in`+c13Bodies[b]+`{{ catch e }}CB{{ fail() }}{{ end }}POST`,
		"/lib.jet", `{{ block wrap() }}<{{ yield content }}>{{ end }}`,
		"/inc.jet", `{{ mayFail() }}`,
	)
	vars := make(VarMap)
	vars.Set("r", []string{"e1"})
	vars.SetFunc("fail", hxFail)
	vars.SetFunc("mayFail", hxFail)
	out, err := hxExec(set, "/m.jet", vars, "D")
	vfReach("propagated")
	vfAssert(err != nil, "an error raised by the catch body is returned by Execute")
	vfNote(out)
	vfAssert(out == "PRECB" || out == "PRE", "nothing of the failed try body reaches the writer")
}

// H_C13_nested: try inside try inside range, both orders of failing/succeeding inner and
// outer bodies (symbolic), with output before and after each level.
//
//gosym:reach rendered
func H_C13_nested() {
	f1 := ndBool("inner.fails")
	f2 := ndBool("outer.fails")
	mk := func(fl bool) Func {
		return func(a Arguments) reflect.Value {
			if fl {
				panic(errors.New("x"))
			}
			return reflect.ValueOf("")
		}
	}
	set := hxSet(nil, "/m.jet",
		`{{ range r }}[{{ . }}{{ try }}a{{ try }}b{{ f1() }}c{{ catch }}I{{ end }}d{{ f2() }}e{{ catch }}O{{ end }}{{ . }}]{{ end }}`)
	vars := make(VarMap)
	vars.Set("r", []string{"1", "2"})
	vars.SetFunc("f1", mk(f1))
	vars.SetFunc("f2", mk(f2))
	out, err := hxExec(set, "/m.jet", vars, nil)
	vfReach("rendered")
	vfAssert(err == nil, "no error escapes")
	one := func(e string) string {
		inner := "bc"
		if f1 {
			inner = "I"
		}
		body := "a" + inner + "de"
		if f2 {
			body = "O"
		}
		return "[" + e + body + e + "]"
	}
	vfNote(out)
	vfAssert(out == one("1")+one("2"), "nested try statements are each all-or-nothing")
}

// H_C13_sequence: several try statements one after another and inside an enclosing
// if body that shadows a variable: a failed body's partial output never shows up in a
// later try statement, a catch clause without a variable leaves no scope behind, and
// the shadowing ends with the enclosing body.
//
//gosym:reach rendered
func H_C13_sequence() {
	f1, f2, f3 := ndBool("f1"), ndBool("f2"), ndBool("f3")
	form := ndChoice("catch", 3)
	catches := []string{`{{ catch }}c`, `{{ catch e }}c`, ``}
	mk := func(fl bool) Func {
		return func(a Arguments) reflect.Value {
			if fl {
				panic(errors.New("x"))
			}
			return reflect.ValueOf("")
		}
	}
	c := catches[form]
	set := hxSet(nil, "/m.jet",
		`{{ x := "outer" }}{{ if true }}{{ x := "inner" }}`+
			`{{ try }}one{{ g1() }}{{ range r }}{{ . }}{{ end }}`+c+`{{ end }}|`+
			`{{ try }}two{{ g2() }}`+c+`{{ end }}|`+
			`{{ try }}three{{ g3() }}`+c+`{{ end }}|{{ x }}{{ end }}[{{ x }}]{{ isset(e) }}`)
	vars := make(VarMap)
	vars.Set("r", []string{"a", "b"})
	vars.SetFunc("g1", mk(f1))
	vars.SetFunc("g2", mk(f2))
	vars.SetFunc("g3", mk(f3))
	out, err := hxExec(set, "/m.jet", vars, nil)
	vfReach("rendered")
	vfAssert(err == nil, "no error escapes")
	part := func(fails bool, body string) string {
		if !fails {
			return body
		}
		if form < 2 {
			return "c"
		}
		return ""
	}
	want := part(f1, "oneab") + "|" + part(f2, "two") + "|" + part(f3, "three") + "|inner[outer]false"
	vfNote(out)
	vfAssert(out == want, "each try is all-or-nothing on its own; nothing of a failed body or of the catch scope survives")
}

// H_C13_large: a try body that renders 4095..8193 bytes (symbolic choice of sizes around
// the usual buffer boundaries), through text and through an escaped value, and then fails
// or not (symbolic), directly and nested in an outer try that succeeds: all of it reaches
// the writer iff the body did not fail - buffering is not bounded by any block size.
//
//gosym:reach succeeded,failed
func H_C13_large() {
	sizes := []int{4095, 4096, 4097, 8192, 8193}
	n := sizes[ndChoice("size", len(sizes))]
	fails := ndBool("fails")
	nested := ndBool("nested")
	viaValue := ndBool("viaValue")
	big := make([]byte, n)
	for i := range big {
		big[i] = byte('a' + i%26)
	}
	payload := string(big)
	body := payload
	if viaValue {
		body = `{{ big }}`
	}
	src := `A{{ try }}` + body + `{{ mayFail() }}{{ catch }}C{{ end }}B`
	if nested {
		src = `A{{ try }}x{{ try }}` + body + `{{ mayFail() }}{{ catch }}C{{ end }}y{{ end }}B`
	}
	set := hxSet(nil, "/m.jet", src)
	vars := make(VarMap)
	vars.Set("big", payload)
	vars.SetFunc("mayFail", func(a Arguments) reflect.Value {
		if fails {
			panic(errors.New("x"))
		}
		return reflect.ValueOf("")
	})
	out, err := hxExec(set, "/m.jet", vars, nil)
	vfAssert(err == nil, "renders")
	want := "A"
	if nested {
		want += "x"
	}
	if fails {
		vfReach("failed")
		want += "C"
	} else {
		vfReach("succeeded")
		want += payload
	}
	if nested {
		want += "y"
	}
	want += "B"
	vfAssert(len(out) == len(want), "all-or-nothing for bodies larger than any buffer block")
	vfAssert(out == want, "the bytes are those the body renders")
}

// H_C13_catchReturns: the catch body executes a return (directly, below an if, through an
// included file) - as templates run by exec do to hand back a fallback value: the catch
// variable is gone after the try statement all the same (an outer variable of that name is
// visible again), the scopes of the enclosing constructs pair up (a variable declared by an
// enclosing if is gone after that if), and exec evaluates to the returned value.
//
//gosym:reach rendered
func H_C13_catchReturns() {
	catches := []string{
		`{{ catch e }}C{{ return "fb" }}`,
		`{{ catch e }}C{{ if e != nil }}{{ return "fb" }}{{ end }}`,
		`{{ catch e }}C{{ include "/ret.jet" }}`,
		`{{ catch }}C{{ return "fb" }}`,
		`{{ catch e }}C{{ x := 1 }}{{ return "fb" }}`,
		`{{ catch e }}C`,
	}
	c := ndChoice("catch", len(catches))
	body := c13Bodies[ndChoice("body", 4)]
	viaExec := ndBool("viaExec")
	outerE := ndBool("outerE")
	decl := ""
	eAfter := "unset"
	if outerE {
		decl, eAfter = `{{ e := "outerE" }}`, "outerE"
	}
	tmpl := decl + `{{ if q := 1; true }}{{ try }}p` + body + catches[c] + `{{ end }}[{{ isset(e) ? e : "unset" }}{{ isset(x) }}]{{ end }}|{{ isset(q) }}|{{ isset(e) ? e : "unset" }}|{{ . }}`
	want := "C[" + eAfter + "false]|false|" + eAfter + "|D"
	main := tmpl
	if viaExec {
		main = `<{{ exec("/t.jet") }}>`
		if c == 5 {
			want = "<>"
		} else {
			want = "<fb>"
		}
	}
	set := hxSet(nil, "/m.jet", main, "/t.jet", tmpl, "/ret.jet", `{{ return "fb" }}`, "/inc.jet", `{{ mayFail() }}`)
	vars := make(VarMap)
	vars.Set("r", []string{"e1"})
	vars.SetFunc("mayFail", hxFail)
	out, err := hxExec(set, "/m.jet", vars, "D")
	vfReach("rendered")
	vfAssert(err == nil, "try never lets the body's error escape")
	vfNote(out)
	vfAssert(out == want, "a return in the catch body leaves the scopes paired up")
	if viaExec {
		// the template that called exec goes on with its own variables
		o2, e2 := hxExec(hxSet(nil, "/m.jet", `{{ e := "mine" }}{{ exec("/t.jet") }}|{{ e }}|{{ isset(q) }}`, "/t.jet", tmpl, "/ret.jet", `{{ return "fb" }}`), "/m.jet", vars, "D")
		v := "fb"
		if c == 5 {
			v = ""
		}
		vfAssert(e2 == nil && o2 == v+"|mine|false", "and so does its caller")
	}
}
