package jet

import (
	"reflect"
	"time"
)

// ---- C05: if renders exactly one branch; range runs once per element, else iff empty ----

// c05Value returns a Go value of a symbolic kind with a symbolic payload, together with
// the reference truthiness "anything but false, 0, the empty string and nil".
// Empty-but-non-nil slices and maps are truthy (they are not nil).
func c05Value(tag string) (v interface{}, truthy bool, desc string) {
	k := ndChoice(tag+".kind", 14)
	switch k {
	case 0:
		b := ndBool(tag + ".b")
		return b, b, "bool"
	case 1:
		i := ndInt(tag + ".i")
		return i, i != 0, "int"
	case 2:
		i := ndInt64(tag + ".i64")
		return i, i != 0, "int64"
	case 3:
		u := ndUint64(tag + ".u64")
		return u, u != 0, "uint64"
	case 4:
		f := ndFloat64(tag + ".f")
		return f, !(f == 0), "float64" // NaN is not zero
	case 5:
		s := ndName(tag+".s", 1)
		return s, s != "", "string"
	case 6:
		return nil, false, "nil"
	case 7:
		var p *int
		return p, false, "nil pointer"
	case 8:
		x := 0
		return &x, true, "pointer"
	case 9:
		var m map[string]int
		return m, false, "nil map"
	case 10:
		var s []int
		return s, false, "nil slice"
	case 11:
		return []int{}, true, "empty slice"
	case 12:
		return map[string]int{}, true, "empty map"
	default:
		b := ndByte(tag + ".u8")
		return b, b != 0, "uint8"
	}
}

// H_C05_truthy: {{ if v }}T{{ else }}F{{ end }} for a value of each kind with symbolic
// payload: the rendered branch follows "anything but false, 0, the empty string and nil".
//
//gosym:reach true,false
func H_C05_truthy() {
	v, truthy, _ := c05Value("v")
	set := hxSet(nil, "/m.jet", `{{ if v }}T{{ else }}F{{ end }}|{{ if !v }}N{{ end }}|{{ v ? "a" : "b" }}`)
	vars := make(VarMap)
	vars.Set("v", v)
	out, err := hxExec(set, "/m.jet", vars, nil)
	vfAssert(err == nil, "renders")
	if truthy {
		vfReach("true")
		vfAssert(out == "T||a", "truthy value takes the if branch")
	} else {
		vfReach("false")
		vfAssert(out == "F|N|b", "falsy value takes the else branch")
	}
}

// H_C05_truthyViaDot: the same values reached as '.' - as the data given to Execute, as an
// element of a []interface{} and as a value of a map[string]interface{} ranged without
// variables, and as a field of interface type: the branch taken follows the same rule
// (a value held in an interface is as true as the value itself).
//
//gosym:reach true,false
func H_C05_truthyViaDot() {
	v, truthy, _ := c05Value("v")
	site := ndChoice("site", 4)
	srcs := []string{
		`{{ if . }}T{{ else }}F{{ end }}`,
		`{{ range xs }}{{ if . }}T{{ else }}F{{ end }}{{ end }}`,
		`{{ range m }}{{ if . }}T{{ else }}F{{ end }}{{ end }}`,
		`{{ if h.V }}T{{ else }}F{{ end }}`,
	}
	set := hxSet(nil, "/m.jet", srcs[site])
	vars := make(VarMap)
	vars.Set("xs", []interface{}{v})
	vars.Set("m", map[string]interface{}{"k": v})
	vars.Set("h", struct{ V interface{} }{v})
	out, err := hxExec(set, "/m.jet", vars, v)
	vfAssert(err == nil, "renders")
	if truthy {
		vfReach("true")
		vfAssert(out == "T", "truthy value takes the if branch")
	} else {
		vfReach("false")
		vfAssert(out == "F", "falsy value takes the else branch")
	}
}

// H_C05_rangeViaDot: a rangeable value of each kind held in an interface (an element of a
// []interface{} ranged without variables, so that it is '.') is ranged like the value
// itself: once per element in order, else iff empty.
//
//gosym:reach looped,empty
func H_C05_rangeViaDot() {
	kinds := []string{"slice", "ifaceSlice", "map", "ranger", "chan", "ptrSlice", "array"}
	kd := ndChoice("subject", len(kinds))
	n := ndChoice("n", 3)
	elems := make([]string, n)
	for i := range elems {
		elems[i] = "e" + ndItoa(i)
	}
	var subj interface{}
	switch kinds[kd] {
	case "slice":
		subj = elems
	case "ifaceSlice":
		is := make([]interface{}, n)
		for i := range is {
			is[i] = elems[i]
		}
		subj = is
	case "map":
		vfAssume(n <= 1)
		m := map[string]string{}
		for i := 0; i < n; i++ {
			m["mk"] = elems[i]
		}
		subj = m
	case "ranger":
		subj = &c05Ranger{n: n, index: true}
		for i := 0; i < n; i++ {
			elems[i] = "v" + ndItoa(i)
		}
	case "chan":
		ch := make(chan string, 4)
		for _, e := range elems {
			ch <- e
		}
		close(ch)
		subj = ch
	case "ptrSlice":
		subj = &elems
	default:
		vfAssume(n == 2)
		subj = [2]string{elems[0], elems[1]}
	}
	set := hxSet(nil, "/m.jet", `{{ range outer }}[{{ range . }}({{ . }}){{ else }}E{{ end }}]{{ end }}`)
	vars := make(VarMap)
	vars.Set("outer", []interface{}{subj})
	out, err := hxExec(set, "/m.jet", vars, "D")
	vfAssert(err == nil, "renders")
	want := ""
	for _, e := range elems {
		want += "(" + e + ")"
	}
	if n == 0 {
		vfReach("empty")
		want = "E"
	} else {
		vfReach("looped")
	}
	vfNote(out)
	vfAssert(out == "["+want+"]", "a rangeable value held in an interface is ranged like the value itself")
}

// H_C05_chain: if / else if / else chains of every shape (with and without else-if and
// else, with and without a declaration prefix) over two symbolic conditions: exactly one
// branch renders, the first whose condition is truthy, else the else branch if present;
// each branch body is a recording probe, so "exactly one" is checked on the call log too.
//
//gosym:reach rendered
func H_C05_chain() {
	shapes := []string{
		`{{ if c1 }}{{ A() }}{{ end }}`,
		`{{ if c1 }}{{ A() }}{{ else }}{{ C() }}{{ end }}`,
		`{{ if c1 }}{{ A() }}{{ else if c2 }}{{ B() }}{{ end }}`,
		`{{ if c1 }}{{ A() }}{{ else if c2 }}{{ B() }}{{ else }}{{ C() }}{{ end }}`,
		`{{ if x := c1; x }}{{ A() }}{{ else if y := c2; y }}{{ B() }}{{ else }}{{ C() }}{{ end }}`,
		`{{ if c1 }}{{ A() }}{{ else }}{{ if c2 }}{{ B() }}{{ else }}{{ C() }}{{ end }}{{ end }}`,
	}
	s := ndChoice("shape", len(shapes))
	c1 := ndBool("c1")
	v2, c2, _ := c05Value("c2")
	log := &hxLog{}
	set := hxSet(nil, "/m.jet", "["+shapes[s]+"]")
	vars := make(VarMap)
	vars.Set("c1", c1)
	vars.Set("c2", v2)
	vars.SetFunc("A", log.probe("A", "a"))
	vars.SetFunc("B", log.probe("B", "b"))
	vars.SetFunc("C", log.probe("C", "c"))
	out, err := hxExec(set, "/m.jet", vars, nil)
	vfReach("rendered")
	vfAssert(err == nil, "renders")
	want := ""
	switch {
	case c1:
		want = "A"
	case s >= 2 && c2:
		want = "B"
	case s == 1 || s >= 3:
		want = "C"
	}
	vfAssert(log.String() == want, "exactly one branch ran, the first truthy one")
	lower := ""
	if want != "" {
		lower = string([]byte{want[0] + 32})
	}
	vfAssert(out == "["+lower+"]", "exactly one branch rendered")
}

// c05Ranger is a custom Ranger yielding n (key, value) pairs; ProvidesIndex is configurable.
type c05Ranger struct {
	n, i  int
	index bool
}

func (r *c05Ranger) Range() (reflect.Value, reflect.Value, bool) {
	if r.i >= r.n {
		return reflect.Value{}, reflect.Value{}, true
	}
	k, v := reflect.ValueOf("k"+ndItoa(r.i)), reflect.ValueOf("v"+ndItoa(r.i))
	r.i++
	return k, v, false
}
func (r *c05Ranger) ProvidesIndex() bool { return r.index }

// c05ChanRanger and c05MapRanger are custom Rangers whose underlying kinds (chan, map) are
// ones jet can range over natively: their own Range must still be the one used.
type c05ChanRanger chan string

func (c c05ChanRanger) Range() (reflect.Value, reflect.Value, bool) {
	v, ok := <-c
	if !ok {
		return reflect.Value{}, reflect.Value{}, true
	}
	return reflect.Value{}, reflect.ValueOf("R" + v), false
}
func (c c05ChanRanger) ProvidesIndex() bool { return false }

type c05MapRanger map[string]*int

func (m c05MapRanger) Range() (reflect.Value, reflect.Value, bool) {
	p := m["pos"]
	if *p >= *m["n"] {
		return reflect.Value{}, reflect.Value{}, true
	}
	k, v := reflect.ValueOf("k"+ndItoa(*p)), reflect.ValueOf("v"+ndItoa(*p))
	*p++
	return k, v, false
}
func (m c05MapRanger) ProvidesIndex() bool { return true }

// H_C05_rangeForms: the nine range forms (no variable, one, two; := and =; '_' in either
// position of the two-variable forms) over each kind
// of rangeable value with a symbolic number n <= K of elements (K = 2 quick / 3 thorough):
// the body runs once per element, in order, binding key/value/'.' as documented; the else
// branch renders exactly when there are no elements; two variables over an index-less
// ranger is an error.
//
//gosym:reach looped,empty,twovar-error
func H_C05_rangeForms() {
	K := 2
	if vfTier() == 1 {
		K = 3
	}
	forms := []string{
		`{{ range S }}({{ . }}){{ else }}E{{ end }}`,
		`{{ range v := S }}({{ v }};{{ . }}){{ else }}E{{ end }}`,
		`{{ range k, v := S }}({{ k }}={{ v }};{{ . }}){{ else }}E{{ end }}`,
		`{{ v = S2 }}{{ range v = S }}({{ v }};{{ . }}){{ else }}E{{ end }}`,
		`{{ k = S2 }}{{ v = S2 }}{{ range k, v = S }}({{ k }}={{ v }};{{ . }}){{ else }}E{{ end }}`,
		// discards: the two-variable forms with '_' in either position
		`{{ range _, v := S }}(_={{ v }};{{ . }}){{ else }}E{{ end }}`,
		`{{ range k, _ := S }}({{ k }}=_;{{ . }}){{ else }}E{{ end }}`,
		`{{ v = S2 }}{{ range _, v = S }}(_={{ v }};{{ . }}){{ else }}E{{ end }}`,
		`{{ k = S2 }}{{ range k, _ = S }}({{ k }}=_;{{ . }}){{ else }}E{{ end }}`,
	}
	kinds := []string{"slice", "array", "ifaceSlice", "chan", "ranger", "rangerNoIndex", "ptrSlice", "map", "nilSlice", "nilMap", "emptyMap", "chanRanger", "mapRanger"}
	f := ndChoice("form", len(forms))
	kd := ndChoice("subject", len(kinds))
	n := ndChoice("n", K+1)
	var subj interface{}
	elems := make([]string, n)
	keys := make([]string, n)
	for i := 0; i < n; i++ {
		elems[i] = "e" + ndItoa(i)
		keys[i] = ndItoa(i)
	}
	hasIndex := true
	switch kinds[kd] {
	case "slice":
		subj = elems
	case "array":
		var a [3]string
		copy(a[:], elems)
		vfAssume(n == 3) // arrays have a fixed length
		subj = a
	case "ifaceSlice":
		is := make([]interface{}, n)
		for i := range is {
			is[i] = elems[i]
		}
		subj = is
	case "chan":
		ch := make(chan string, 4)
		for _, e := range elems {
			ch <- e
		}
		close(ch)
		subj = ch
		hasIndex = false
	case "ranger":
		subj = &c05Ranger{n: n, index: true}
		for i := 0; i < n; i++ {
			elems[i], keys[i] = "v"+ndItoa(i), "k"+ndItoa(i)
		}
	case "rangerNoIndex":
		subj = &c05Ranger{n: n, index: false}
		for i := 0; i < n; i++ {
			elems[i], keys[i] = "v"+ndItoa(i), "k"+ndItoa(i)
		}
		hasIndex = false
	case "ptrSlice":
		subj = &elems
	case "chanRanger": // a Ranger by value whose kind is chan
		ch := make(chan string, 4)
		for i, e := range elems {
			ch <- e
			elems[i] = "R" + e
		}
		close(ch)
		subj = c05ChanRanger(ch)
		hasIndex = false
	case "mapRanger": // a Ranger by value whose kind is map
		pos, cnt := 0, n
		subj = c05MapRanger{"pos": &pos, "n": &cnt}
		for i := 0; i < n; i++ {
			elems[i], keys[i] = "v"+ndItoa(i), "k"+ndItoa(i)
		}
	case "nilSlice": // a typed nil slice has no elements
		vfAssume(n == 0)
		var ns []string
		subj = ns
	case "nilMap":
		vfAssume(n == 0)
		var nm map[string]string
		subj = nm
	case "emptyMap":
		vfAssume(n == 0)
		subj = map[int]string{}
	default:
		vfAssume(n <= 1) // map iteration order is unspecified: at most one entry here
		m := map[string]string{}
		for i := 0; i < n; i++ {
			m["mk"] = elems[i]
			keys[i] = "mk"
		}
		subj = m
	}
	set := hxSet(nil, "/m.jet", "{{ k := 0 }}{{ v := 0 }}["+forms[f]+"]{{ . }}")
	vars := make(VarMap)
	vars.Set("S", subj)
	vars.Set("S2", "init")
	out, err := hxExec(set, "/m.jet", vars, "D")
	twoVar := f == 2 || f >= 4
	if twoVar && !hasIndex {
		vfReach("twovar-error")
		vfAssert(err != nil, "two variables over an index-less ranger is an error")
		return
	}
	vfAssert(err == nil, "renders")
	if err != nil {
		return
	}
	want := ""
	if n == 0 {
		vfReach("empty")
		want = "E"
	} else {
		vfReach("looped")
	}
	for i := 0; i < n; i++ {
		switch f {
		case 0:
			want += "(" + elems[i] + ")"
		case 1, 3:
			// one variable: the index if the ranger provides one... no: the documented
			// one-variable form binds the value when there is no index, else the key
			if hasIndex {
				want += "(" + keys[i] + ";" + elems[i] + ")"
			} else {
				want += "(" + elems[i] + ";D)"
			}
		case 5, 7:
			want += "(_=" + elems[i] + ";D)"
		case 6, 8:
			want += "(" + keys[i] + "=_;D)"
		default:
			want += "(" + keys[i] + "=" + elems[i] + ";D)"
		}
	}
	vfNote(out)
	vfAssert(out == "["+want+"]D", "once per element, in order, with the documented bindings; else iff empty; '.' restored")
}

// H_C05_ints: range over ints(from, to) for symbolic from < to (to-from <= K): the body
// runs for from, from+1, ..., to-1 with indices 0, 1, ...; ints() rejects to <= from.
//
//gosym:reach looped,rejected
func H_C05_ints() {
	K := int64(3)
	if vfTier() == 1 {
		K = 5
	}
	from := ndInt64("from")
	to := ndInt64("to")
	vfAssume(from > -1000 && from < 1000 && to > -1000 && to < 1000)
	log := &hxLog{}
	set := hxSet(nil, "/m.jet", `{{ range i, v := ints(from, to) }}{{ rec(i, v) }}{{ else }}E{{ end }}`)
	vars := make(VarMap)
	vars.Set("from", from)
	vars.Set("to", to)
	var seenI, seenV []int64
	vars.SetFunc("rec", func(a Arguments) reflect.Value {
		seenI = append(seenI, a.Get(0).Int())
		seenV = append(seenV, a.Get(1).Int())
		log.add("x")
		return reflect.ValueOf("")
	})
	if to <= from {
		_, err := hxExec(set, "/m.jet", vars, nil)
		vfReach("rejected")
		vfAssert(err != nil, "ints(a,b) with b <= a is rejected")
		return
	}
	vfAssume(to-from <= K)
	out, err := hxExec(set, "/m.jet", vars, nil)
	vfReach("looped")
	vfAssert(err == nil, "renders")
	vfAssert(out == "", "else branch not rendered")
	vfAssert(int64(len(seenV)) == to-from, "one iteration per integer in [from, to)")
	for k := range seenV {
		vfAssert(seenI[k] == int64(k), "indices count from 0")
		vfAssert(seenV[k] == from+int64(k), "values are from, from+1, ...")
	}
}

// H_C05_nested: nested ranges over two slices reuse pooled rangers: the inner loop always
// starts at element 0 and the outer loop continues where it was.
//
//gosym:reach rendered
func H_C05_nested() {
	n := ndChoice("n", 3)
	m := ndChoice("m", 3)
	a := make([]int, n)
	b := make([]int, m)
	for i := range a {
		a[i] = i
	}
	for i := range b {
		b[i] = i
	}
	pre := ""
	switch ndChoice("before", 4) {
	case 1:
		pre = `{{ range none }}x{{ else }}E{{ end }}`
	case 2:
		pre = `{{ range none }}x{{ end }}{{ range none }}y{{ else }}E{{ end }}`
	case 3:
		pre = `{{ range m0 }}x{{ else }}E{{ end }}{{ range b }}{{ end }}`
	}
	set := hxSet(nil, "/m.jet", pre+`{{ range x := a }}{{ range y := b }}({{ x }}{{ y }}){{ end }}{{ range y := b }}[{{ x }}{{ y }}]{{ end }}{{ end }}`)
	vars := make(VarMap)
	vars.Set("a", a)
	vars.Set("b", b)
	vars.Set("none", []int{})
	vars.Set("m0", map[string]int{})
	out, err := hxExec(set, "/m.jet", vars, nil)
	vfReach("rendered")
	vfAssert(err == nil, "renders")
	want := ""
	if pre != "" {
		want = "E"
	}
	for i := 0; i < n; i++ {
		for j := 0; j < m; j++ {
			want += "(" + ndItoa(i) + ndItoa(j) + ")"
		}
		for j := 0; j < m; j++ {
			want += "[" + ndItoa(i) + ndItoa(j) + "]"
		}
	}
	vfAssert(out == want, "nested loops over pooled rangers interleave correctly")
}

// ---- generated nestings (thorough) ----

// c05Gen builds a construct of the given kind around the rendered inner template / its
// reference output, with symbolic conditions and element counts drawn under tag.
//   kind 0: if c ... end                 1: if c ... else ELSE end
//   kind 2: if c1 A else if c2 ... else ELSE end
//   kind 3: range s (no variable; '.' is the element)      4: range k, v := s ... else ELSE end
//   kind 5: range v = s (pre-declared)
// inner is placed in the body (place 0) or in the else branch (place 1, kinds with else).
func c05Gen(tag string, kind, place int, inner func(dot string) (string, string), dot string, vars VarMap) (src string, want string) {
	in := func(d string) (string, string) {
		if inner == nil {
			return "x", "x"
		}
		return inner(d)
	}
	switch kind {
	case 0, 1, 2:
		c1, c2 := ndBool(tag+".c1"), ndBool(tag+".c2")
		vars.Set(tag+"c1", c1)
		vars.Set(tag+"c2", c2)
		bs, bw := in(dot)
		body, alt := "T"+bs, "E"
		bodyW, altW := "T"+bw, "E"
		if place == 1 && kind != 0 {
			body, alt, bodyW, altW = "T", "E"+bs, "T", "E"+bw
		}
		switch kind {
		case 0:
			src = `{{ if ` + tag + `c1 }}` + body + `{{ end }}`
			if c1 {
				want = bodyW
			}
		case 1:
			src = `{{ if ` + tag + `c1 }}` + body + `{{ else }}` + alt + `{{ end }}`
			want = altW
			if c1 {
				want = bodyW
			}
		default:
			src = `{{ if ` + tag + `c1 }}A{{ else if ` + tag + `c2 }}` + body + `{{ else }}` + alt + `{{ end }}`
			switch {
			case c1:
				want = "A"
			case c2:
				want = bodyW
			default:
				want = altW
			}
		}
		return
	}
	n := ndChoice(tag+".n", 3)
	elems := make([]string, n)
	for i := range elems {
		elems[i] = tag + ndItoa(i)
	}
	vars.Set(tag+"s", elems)
	head := map[int]string{3: `{{ range ` + tag + `s }}`, 4: `{{ range ` + tag + `k, ` + tag + `v := ` + tag + `s }}`, 5: `{{ ` + tag + `v := "" }}{{ range ` + tag + `v = ` + tag + `s }}`}[kind]
	// the inner construct is rendered once per element (place 0) or in the else branch
	if place == 1 {
		es, ew := in(dot)
		src = head + `[{{ . }}]{{ else }}E` + es + `{{ end }}`
		for _, e := range elems {
			d := dot
			if kind == 3 || kind == 5 {
				d = e
			}
			want += "[" + d + "]"
		}
		if n == 0 {
			want = "E" + ew
		}
		return
	}
	src = head + `[{{ . }}]`
	first := true
	for _, e := range elems {
		d := dot
		if kind == 3 || kind == 5 {
			d = e // the one-variable form binds the index and leaves the element as '.'
		}
		bs, bw := in(d)
		if first {
			src += bs
			first = false
		}
		want += "[" + d + "]" + bw
	}
	if first {
		bs, _ := in(dot)
		src += bs
	}
	src += `{{ else }}E{{ end }}`
	if n == 0 {
		want = "E"
	}
	return
}

// H_C05_generated (thorough): every nesting of two constructs out of six kinds (if,
// if/else, if/else-if/else, and range in its no-variable, two-variable := and one-variable
// = forms), the inner one in the outer's body or else branch, with symbolic conditions and
// symbolic element counts (0..2): the output equals a reference evaluation - exactly one
// branch of every chain, once per element in order, else iff empty, '.' rebound only by
// the no-variable and one-variable ranges and restored afterwards.
//
//gosym:reach rendered
//gosym:thorough-only
//gosym:opts maxpaths=400000 wall=1500
func H_C05_generated() {
	ko, ki := ndChoice("outer", 6), ndChoice("inner", 7)
	po, pi := ndChoice("outer.place", 2), ndChoice("inner.place", 2)
	vars := make(VarMap)
	var inner func(dot string) (string, string)
	if ki < 6 {
		// the inner construct's template text must not depend on the iteration, only its
		// reference output does (through '.'): conditions and counts are drawn once
		var memoSrc string
		drawn := false
		innerVars := vars
		var c1, c2 bool
		var n int
		inner = func(dot string) (string, string) {
			if !drawn {
				drawn = true
				s, _ := c05Gen("i", ki, pi, nil, dot, innerVars)
				memoSrc = s
				if ki <= 2 {
					c1, _ = innerVars["ic1"].Interface().(bool)
					c2, _ = innerVars["ic2"].Interface().(bool)
				} else {
					n = innerVars["is"].Len()
				}
			}
			return memoSrc, c05InnerWant(ki, pi, c1, c2, n, dot)
		}
	}
	src, want := c05Gen("o", ko, po, inner, "D", vars)
	set := hxSet(nil, "/m.jet", src+`|{{ . }}`)
	out, err := hxExec(set, "/m.jet", vars, "D")
	vfReach("rendered")
	vfNote(src)
	vfAssert(err == nil, "renders")
	vfNote(out)
	vfAssert(out == want+"|D", "one branch per chain, once per element in order, else iff empty, '.' restored")
}

// c05InnerWant: the reference output of an inner construct (without further nesting) whose
// conditions / element count are fixed, when '.' is dot at its position.
func c05InnerWant(kind, place int, c1, c2 bool, n int, dot string) string {
	switch kind {
	case 0:
		if c1 {
			return "Tx"
		}
		return ""
	case 1:
		if place == 1 {
			if c1 {
				return "T"
			}
			return "Ex"
		}
		if c1 {
			return "Tx"
		}
		return "E"
	case 2:
		switch {
		case c1:
			return "A"
		case c2:
			if place == 1 {
				return "T"
			}
			return "Tx"
		}
		if place == 1 {
			return "Ex"
		}
		return "E"
	}
	if n == 0 {
		if place == 1 {
			return "Ex"
		}
		return "E"
	}
	w := ""
	for i := 0; i < n; i++ {
		d := dot
		if kind == 3 || kind == 5 {
			d = "i" + ndItoa(i)
		}
		w += "[" + d + "]"
		if place == 0 {
			w += "x"
		}
	}
	return w
}

// H_C05_chanProducer: range over a channel whose producer is still running: the channel is
// unbuffered or buffered (capacity 0..2), some elements are already in the buffer, the rest
// is sent - and the channel closed - by a goroutine that only gets going while the range is
// waiting. The body runs once per element sent, in order, until the channel is closed; the
// else branch only for a channel closed without elements.
//
//gosym:reach rendered
func H_C05_chanProducer() {
	capn := ndChoice("cap", 3)
	pre := ndChoice("prefilled", capn+1)
	total := ndChoice("total", 4)
	vfAssume(pre <= total)
	form := ndChoice("form", 3)
	ch := make(chan int, capn)
	for i := 0; i < pre; i++ {
		ch <- i + 1
	}
	go func() {
		if !vfSymbolic() {
			time.Sleep(30 * time.Millisecond) // natively: let the range get to the channel first
		}
		for i := pre; i < total; i++ {
			ch <- i + 1
		}
		close(ch)
	}()
	src := []string{
		`{{ range v := ch }}[{{ v }}]{{ else }}E{{ end }}`,
		`{{ range ch }}[{{ . }}]{{ else }}E{{ end }}`,
		`{{ range one }}{{ range v := ch }}[{{ v }}]{{ else }}E{{ end }}{{ end }}`,
	}[form]
	set := hxSet(nil, "/m.jet", src)
	vars := make(VarMap)
	vars.Set("ch", ch)
	vars.Set("one", []int{1})
	out, err := hxExec(set, "/m.jet", vars, nil)
	vfReach("rendered")
	vfAssert(err == nil, "renders")
	want := ""
	for i := 0; i < total; i++ {
		want += "[" + ndItoa(i+1) + "]"
	}
	if total == 0 {
		want = "E"
	}
	vfNote(out)
	vfAssert(out == want, "the body runs once per element sent until the channel is closed")
}
