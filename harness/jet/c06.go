package jet

import "reflect"

// ---- C06: field, index and method access reach Go data uniformly and fail loudly ----

type c06Inner struct {
	Leaf int64
	Name string
}

type c06Embedded struct {
	Promoted int64
}

type c06PtrEmbedded struct {
	ViaPtr int64
}

// three levels of by-value embedding with several promoted fields each
type C06L3 struct{ X3, Y3, Z3 int64 }
type C06L2 struct {
	C06L3
	X2, Y2 int64
}
type C06L1 struct {
	C06L2
	X1 int64
}

type C06L0 struct {
	C06L1
	X0 int64
}

// a field name declared at depth 0 and again in an embedded struct: depth 0 wins in Go
type C06Shadowed struct{ Name, Only int64 }
type c06Shadow struct {
	Name int64
	C06Shadowed
}

// the embedded struct declared first
type c06Shadow2 struct {
	C06Shadowed
	Name int64
}

type c06Outer struct {
	c06Embedded
	*c06PtrEmbedded
	A      int64
	In     c06Inner
	PIn    *c06Inner
	If     interface{}
	List   []int64
	Arr    [3]int64
	Str    string
	SMap   map[string]int64
	IMap   map[int]int64
	Nested map[string][]c06Inner
	hidden int64
}

func (o c06Outer) ValM() int64       { return o.A + 1 }
func (o *c06Outer) PtrM() int64      { return o.A + 2 }
func (o c06Outer) Add(x int64) int64 { return o.A + x }
func (i c06Inner) Double() int64     { return i.Leaf * 2 }

// named non-struct types with pointer-receiver methods
type c06NamedSlice []int64

func (s *c06NamedSlice) PFirst() int64 { return (*s)[0] }
func (s c06NamedSlice) VLast() int64   { return s[len(s)-1] }

type c06NamedInt int64

func (n *c06NamedInt) PVal() int64 { return int64(*n) + 1 }

type c06NamedMap map[string]int64

func (m *c06NamedMap) PGet() int64 { return (*m)["k"] }

// exported names need not be ASCII
func (o c06Outer) Überblick() int64      { return o.A + 3 }
func (o *c06Outer) Ändern(x int64) int64 { return o.A - x }
func (m c06NamedMap) Älteste() int64     { return m["k"] + 1 }
func (i c06Inner) Ökonomie() int64       { return i.Leaf + 4 }

type C06EA struct{ X, OnlyA int64 }
type C06EC struct{ X, OnlyC int64 }
type C06EB struct{ C06EC }
type c06EmbPtr struct {
	*C06EA
	C06EB
}
type c06Self struct {
	*c06Self
	V int64
}

type c06Stadt struct {
	Größe int64
	Ärzte []int64
}

// c06Access: access paths with the Go expression that reads the same datum.
var c06Access = []struct {
	src  string
	want func(d *c06Outer) int64
}{
	{"d.A", func(d *c06Outer) int64 { return d.A }},
	{`d["A"]`, func(d *c06Outer) int64 { return d.A }},
	{"d.Promoted", func(d *c06Outer) int64 { return d.Promoted }},
	{"d.ViaPtr", func(d *c06Outer) int64 { return d.ViaPtr }},
	{"d.In.Leaf", func(d *c06Outer) int64 { return d.In.Leaf }},
	{`d.In["Leaf"]`, func(d *c06Outer) int64 { return d.In.Leaf }},
	{`d["In"]["Leaf"]`, func(d *c06Outer) int64 { return d.In.Leaf }},
	{"d.PIn.Leaf", func(d *c06Outer) int64 { return d.PIn.Leaf }},
	{"d.If.Leaf", func(d *c06Outer) int64 { return d.If.(*c06Inner).Leaf }},
	{"d.List[1]", func(d *c06Outer) int64 { return d.List[1] }},
	{"d.Arr[2]", func(d *c06Outer) int64 { return d.Arr[2] }},
	{"d.SMap.k", func(d *c06Outer) int64 { return d.SMap["k"] }},
	{`d.SMap["k"]`, func(d *c06Outer) int64 { return d.SMap["k"] }},
	{"d.IMap[ik]", func(d *c06Outer) int64 { return d.IMap[7] }},
	{"d.IMap[7]", func(d *c06Outer) int64 { return d.IMap[7] }},
	{`d.Nested.n[0].Leaf`, func(d *c06Outer) int64 { return d.Nested["n"][0].Leaf }},
	{"d.ValM()", func(d *c06Outer) int64 { return d.A + 1 }},
	{"d.PtrM()", func(d *c06Outer) int64 { return d.A + 2 }},
	{"d.Add(5)", func(d *c06Outer) int64 { return d.A + 5 }},
	{"d.In.Double()", func(d *c06Outer) int64 { return d.In.Leaf * 2 }},
	{"d.PIn.Double()", func(d *c06Outer) int64 { return d.PIn.Leaf * 2 }},
	{"pp.A", func(d *c06Outer) int64 { return d.A }},
	{"pp.In.Leaf", func(d *c06Outer) int64 { return d.In.Leaf }},
	{"v.A", func(d *c06Outer) int64 { return d.A }},
	{"v.ValM()", func(d *c06Outer) int64 { return d.A + 1 }},
	{"v.List[0]", func(d *c06Outer) int64 { return d.List[0] }},
	{".A", func(d *c06Outer) int64 { return d.A }},
	{".In.Leaf", func(d *c06Outer) int64 { return d.In.Leaf }},
	{".SMap.k", func(d *c06Outer) int64 { return d.SMap["k"] }},
	{"deep.X3 * z + deep.Y3 * z + deep.Z3", func(d *c06Outer) int64 { return 13 }},
	{"deep.Z3 * z + deep.X3", func(d *c06Outer) int64 { return 11 }},
	{"deep.Y3", func(d *c06Outer) int64 { return 12 }},
	{"deep.Y2 * z + deep.X2", func(d *c06Outer) int64 { return 21 }},
	{"deep.X1", func(d *c06Outer) int64 { return 31 }},
	{"deep4.X3 * z + deep4.Y3 * z + deep4.Z3 * z + deep4.X3", func(d *c06Outer) int64 { return 11 }},
	{"deep4.Z3 * z + deep4.Y3", func(d *c06Outer) int64 { return 12 }},
	{"deep4.X2 * z + deep4.Y2 * z + deep4.X1 * z + deep4.X0 * z + deep4.Z3", func(d *c06Outer) int64 { return 13 }},
	{"deep4.X2", func(d *c06Outer) int64 { return 21 }},
	{"ns.PFirst()", func(d *c06Outer) int64 { return 7 }},
	{"ns.VLast()", func(d *c06Outer) int64 { return 9 }},
	{"ni.PVal()", func(d *c06Outer) int64 { return 42 }},
	{"nm.PGet()", func(d *c06Outer) int64 { return 5 }},
	{"hold.NS.PFirst()", func(d *c06Outer) int64 { return 7 }},
	{"sh.Name", func(d *c06Outer) int64 { return 100 }},
	{"sh.Only * z + sh.Name", func(d *c06Outer) int64 { return 100 }},
	{"sh.Only", func(d *c06Outer) int64 { return 300 }},
	{"sh2.Name", func(d *c06Outer) int64 { return 100 }},
	{"sh2.Only * z + sh2.Name", func(d *c06Outer) int64 { return 100 }},
	// fields promoted through an UNEXPORTED embedded struct are promoted like any other:
	// the shallower one wins over a deeper exported field of the same name
	{"un.X", func(d *c06Outer) int64 { return 1 }},
	{"un.Y * z + un.X", func(d *c06Outer) int64 { return 1 }},
	{"un.Y", func(d *c06Outer) int64 { return 5 }},
	{"un2.X", func(d *c06Outer) int64 { return 7 }},
	// maps whose key type is a defined type: the template's plain string / integer key is
	// converted to it (same kind, different type)
	{"colors.red", func(d *c06Outer) int64 { return 0xf00 }},
	{`colors["red"]`, func(d *c06Outer) int64 { return 0xf00 }},
	{"colors[ck]", func(d *c06Outer) int64 { return 0xf00 }},
	{"byID[idk]", func(d *c06Outer) int64 { return 77 }},
	{"byID[7]", func(d *c06Outer) int64 { return 77 }},
	// a value held in a non-empty interface type (struct field, slice element, map value):
	// all of the dynamic value's fields, indexes and methods are reachable, not only the
	// interface's own methods
	{"holder.Shape.W", func(d *c06Outer) int64 { return 3 }},
	{`holder.Shape["H"]`, func(d *c06Outer) int64 { return 4 }},
	{"holder.Shape.Tags[1]", func(d *c06Outer) int64 { return 8 }},
	{"holder.Shape.Label()", func(d *c06Outer) int64 { return 34 }},
	{"holder.Shape.Area()", func(d *c06Outer) int64 { return 12 }},
	{"holder.Shapes[0].W", func(d *c06Outer) int64 { return 3 }},
	{"holder.ByName.r.H", func(d *c06Outer) int64 { return 4 }},
	{"holder.PShape.W * z + holder.PShape.Area()", func(d *c06Outer) int64 { return 12 }},
	// the embedded type was looked at on its own first: the embedding type's own / shallower
	// field of the same name still wins
	{"baseAlone.ID * z + baseAlone.Name * z + user.Name", func(d *c06Outer) int64 { return 30 }},
	{"deepAlone.Title * z + doc.Title", func(d *c06Outer) int64 { return 50 }},
	// a method with a pointer receiver that tolerates a nil receiver is called through a nil
	// pointer exactly as Go calls it (in a variable, a field, behind an interface)
	{"emptyList.Len()", func(d *c06Outer) int64 { return 0 }},
	{"lists.Tail.Len() * z + lists.Len()", func(d *c06Outer) int64 { return 1 }},
	{"lists.IfTail.Len() * z + lists.V", func(d *c06Outer) int64 { return 1 }},
	// arrays: elements by index, through pointers, of arrays
	{"arr2[1][0]", func(d *c06Outer) int64 { return 30 }},
	{"parr[2]", func(d *c06Outer) int64 { return 3 }},
	// the same method reached through a pointer and then on a plain value (and the other
	// way round): the method sets of T and *T are numbered differently
	{"d.ValM() * z + v.ValM()", func(d *c06Outer) int64 { return d.A + 1 }},
	{"v.ValM() * z + d.ValM()", func(d *c06Outer) int64 { return d.A + 1 }},
	{"d.Add(1) * z + v.Add(2) * z + d.PtrM()", func(d *c06Outer) int64 { return d.A + 2 }},
	{"vmap.k.ValM() * z + d.ValM() * z + vmap.k.Add(4)", func(d *c06Outer) int64 { return d.A + 4 }},
	// a field promoted through an embedded POINTER at depth 1 wins over one promoted
	// through embedded structs at depth 2, as in Go; names only the deeper struct has, and
	// names only the pointer's struct has, are reachable too
	{"ep.X", func(d *c06Outer) int64 { return 1 }},
	{"ep.OnlyA * z + ep.X", func(d *c06Outer) int64 { return 1 }},
	{"ep.OnlyC", func(d *c06Outer) int64 { return 3 }},
	{"ep.OnlyA", func(d *c06Outer) int64 { return 9 }},
	{"pep.X", func(d *c06Outer) int64 { return 1 }},
	{"selfp.V", func(d *c06Outer) int64 { return 5 }},
	// the empty string is a key like any other, as a literal and from a variable
	{`emap[""]`, func(d *c06Outer) int64 { return 5 }},
	{`emap[""] * z + emap[ek]`, func(d *c06Outer) int64 { return 5 }},
	{`enest[""].Leaf`, func(d *c06Outer) int64 { return 6 }},
	{`enest[""]["Leaf"]`, func(d *c06Outer) int64 { return 6 }},
	// exported field and method names that do not start with an ASCII letter
	{"d.Überblick()", func(d *c06Outer) int64 { return d.A + 3 }},
	{"v.Überblick()", func(d *c06Outer) int64 { return d.A + 3 }},
	{"d.Ändern(5)", func(d *c06Outer) int64 { return d.A - 5 }},
	{"nm.Älteste()", func(d *c06Outer) int64 { return 6 }},
	{"d.In.Ökonomie()", func(d *c06Outer) int64 { return d.In.Leaf + 4 }},
	{"d.Nested.n[0].Ökonomie()", func(d *c06Outer) int64 { return d.Nested["n"][0].Leaf + 4 }},
	{"stadt.Größe", func(d *c06Outer) int64 { return 9 }},
	{`stadt["Größe"] * z + stadt.Ärzte[1]`, func(d *c06Outer) int64 { return 2 }},
}

type c06List struct {
	V      int64
	Tail   *c06List
	IfTail interface{}
}

func (l *c06List) Len() int64 {
	if l == nil {
		return 0
	}
	return 1 + l.Tail.Len()
}

type c06Shaper interface{ Area() int64 }
type c06Rect struct {
	W, H int64
	Tags []int64
}

func (r c06Rect) Area() int64  { return r.W * r.H }
func (r c06Rect) Label() int64 { return r.W*10 + r.H }

type c06Holder struct {
	Shape  c06Shaper
	PShape c06Shaper
	Shapes []c06Shaper
	ByName map[string]c06Shaper
}
type C06Base struct{ ID, Name int64 }
type c06User struct {
	C06Base
	Name int64
}
type C06DInner struct{ Title int64 }
type C06Deep struct{ C06DInner }
type C06Flat struct{ Title int64 }
type c06Doc struct {
	C06Deep
	C06Flat
}

// c06Result has fields of interface types that hold nil: they exist and yield nil.
type c06Result struct {
	Err   error
	Label interface{ String() string }
	Extra interface{}
}

type c06Color string
type c06ID int64

type c06unexp struct{ X, Y int64 }
type C06UDeep struct{ X int64 }
type C06UMid struct{ C06UDeep }
type c06UOuter struct {
	c06unexp
	C06UMid
}
type c06UOuter2 struct{ c06unexp }

func c06Data() *c06Outer {
	d := &c06Outer{
		c06Embedded:    c06Embedded{Promoted: ndInt64("promoted")},
		c06PtrEmbedded: &c06PtrEmbedded{ViaPtr: ndInt64("viaptr")},
		A:              ndInt64("A"),
		In:             c06Inner{Leaf: ndInt64("in.leaf")},
		PIn:            &c06Inner{Leaf: ndInt64("pin.leaf")},
		If:             &c06Inner{Leaf: ndInt64("if.leaf")},
		List:           []int64{ndInt64("l0"), ndInt64("l1"), ndInt64("l2")},
		Str:            "xyz",
		SMap:           map[string]int64{"k": ndInt64("smap.k")},
		IMap:           map[int]int64{7: ndInt64("imap.7")},
		Nested:         map[string][]c06Inner{"n": {{Leaf: ndInt64("nested")}}},
	}
	d.Arr = [3]int64{ndInt64("a0"), ndInt64("a1"), ndInt64("a2")}
	return d
}

// H_C06_access: 39 access paths (three-level promotion and shadowed names included) (fields incl. promoted ones through embedded structs and
// embedded pointers, a.b vs a["b"], slice/array/map elements, maps with int keys, methods
// on values and pointers, through pointers / pointer-to-pointer / interfaces, from a
// variable and from '.') over a data graph whose leaves are symbolic: the value reached is
// the one stored in the data, for all leaf values.
//
//gosym:reach reached
func H_C06_access() {
	c := ndChoice("path", len(c06Access))
	d := c06Data()
	var got reflect.Value
	set := hxSet(nil, "/m.jet", `{{ cap(`+c06Access[c].src+`) }}`)
	vars := make(VarMap)
	vars.Set("d", d)
	vars.Set("pp", &d)
	vars.Set("v", *d)
	vars.Set("ik", 7)
	vars.Set("z", int64(0))
	vars.Set("deep", C06L1{C06L2: C06L2{C06L3: C06L3{11, 12, 13}, X2: 21, Y2: 22}, X1: 31})
	vars.Set("deep4", C06L0{C06L1: C06L1{C06L2: C06L2{C06L3: C06L3{11, 12, 13}, X2: 21, Y2: 22}, X1: 31}, X0: 41})
	ns := c06NamedSlice{7, 8, 9}
	ni := c06NamedInt(41)
	nm := c06NamedMap{"k": 5}
	vars.Set("ns", &ns)
	vars.Set("ni", &ni)
	vars.Set("nm", &nm)
	vars.Set("hold", &struct{ NS c06NamedSlice }{ns})
	rect := c06Rect{3, 4, []int64{7, 8}}
	vars.Set("holder", c06Holder{Shape: rect, PShape: &rect, Shapes: []c06Shaper{rect}, ByName: map[string]c06Shaper{"r": rect}})
	var emptyList *c06List
	vars.Set("emptyList", emptyList)
	vars.Set("lists", &c06List{V: 1, IfTail: emptyList})
	vars.Set("arr2", [2][2]int64{{10, 20}, {30, 40}})
	vars.Set("parr", &[3]int64{1, 2, 3})
	vars.Set("stadt", c06Stadt{9, []int64{1, 2}})
	vars.Set("vmap", map[string]c06Outer{"k": *d})
	vars.Set("ep", c06EmbPtr{&C06EA{1, 9}, C06EB{C06EC{2, 3}}})
	vars.Set("pep", &c06EmbPtr{&C06EA{1, 9}, C06EB{C06EC{2, 3}}})
	vars.Set("selfp", c06Self{nil, 5})
	vars.Set("emap", map[string]int64{"": 5, "x": 7})
	vars.Set("ek", "")
	vars.Set("enest", map[string]c06Inner{"": {Leaf: 6}})
	vars.Set("baseAlone", C06Base{10, 20})
	vars.Set("user", c06User{C06Base{10, 20}, 30})
	vars.Set("deepAlone", C06Deep{C06DInner{40}})
	vars.Set("doc", c06Doc{C06Deep{C06DInner{40}}, C06Flat{50}})
	vars.Set("colors", map[c06Color]int64{"red": 0xf00})
	vars.Set("ck", "red")
	vars.Set("byID", map[c06ID]int64{7: 77})
	vars.Set("idk", int64(7))
	vars.Set("un", c06UOuter{c06unexp{1, 5}, C06UMid{C06UDeep{2}}})
	vars.Set("un2", &c06UOuter2{c06unexp{7, 8}})
	vars.Set("sh", c06Shadow{Name: 100, C06Shadowed: C06Shadowed{Name: 200, Only: 300}})
	vars.Set("sh2", c06Shadow2{Name: 100, C06Shadowed: C06Shadowed{Name: 200, Only: 300}})
	vars.SetFunc("cap", c04Capture(&got))
	_, err := hxExec(set, "/m.jet", vars, d)
	vfReach("reached")
	vfAssert(err == nil, "the access succeeds")
	if err != nil {
		return
	}
	gi, ok := c04Int(got)
	vfAssert(ok, "an integer is reached")
	vfAssert(gi == c06Access[c].want(d), "no access yields a value other than the one stored in the data")
}

// H_C06_index: indexing slices, arrays and strings with a symbolic index of int, uint and
// float kind, and slicing with symbolic bounds: in range -> the element / sub-slice Go
// gives; out of range (including negative, huge and wrapped values) -> an error; never a
// wrong element and never a panic.
//
//gosym:reach inrange,outofrange
func H_C06_index() {
	kind := ndChoice("ikind", 4)
	target := ndChoice("target", 3)
	var idx interface{}
	var n int64
	valid := true
	switch kind {
	case 0:
		v := ndInt64("i")
		idx, n = v, v
	case 1:
		v := ndUint64("u")
		idx, n = v, int64(v)
		valid = v < 1<<62
	case 2:
		v := ndInt32("i32")
		idx, n = v, int64(v)
	default:
		v := ndFloat64("f")
		vfAssume(v > -1e6 && v < 1e6)
		idx, n = v, int64(v)
	}
	data := []int64{10, 20, 30}
	srcs := []string{`{{ cap(s[i]) }}`, `{{ cap(a[i]) }}`, `{{ cap(str[i]) }}`}
	var got reflect.Value
	set := hxSet(nil, "/m.jet", srcs[target])
	vars := make(VarMap)
	vars.Set("s", data)
	vars.Set("a", [3]int64{10, 20, 30})
	vars.Set("str", "\x0a\x14\x1e")
	vars.Set("i", idx)
	vars.SetFunc("cap", c04Capture(&got))
	_, err := hxExec(set, "/m.jet", vars, nil)
	if valid && n >= 0 && n < 3 {
		vfReach("inrange")
		vfAssert(err == nil, "an in-range index succeeds")
		if err == nil {
			var g int64
			if got.Kind() == reflect.Uint8 {
				g = int64(got.Uint())
			} else {
				g, _ = c04Int(got)
			}
			vfAssert(g == data[n], "the element at that index is returned")
		}
	} else {
		vfReach("outofrange")
		vfAssert(err != nil, "an out-of-range index is an error")
	}
}

// H_C06_slice: s[i:j] with symbolic bounds (each present or omitted) on a string and a
// slice: the Go sub-slice when 0 <= i <= j <= len, otherwise an error.
//
//gosym:reach ok,error
func H_C06_slice() {
	form := ndChoice("form", 3)
	onString := ndBool("string")
	i, j := ndInt64("i"), ndInt64("j")
	srcs := []string{`{{ cap(len(x[i:j])) }}{{ cap2(x[i:j]) }}`, `{{ cap(len(x[i:])) }}{{ cap2(x[i:]) }}`, `{{ cap(len(x[:j])) }}{{ cap2(x[:j]) }}`}
	lo, hi := i, j
	if form == 1 {
		hi = 4
	}
	if form == 2 {
		lo = 0
	}
	var gotLen, gotVal reflect.Value
	set := hxSet(nil, "/m.jet", srcs[form])
	vars := make(VarMap)
	if onString {
		vars.Set("x", "abcd")
	} else {
		// a slice with spare capacity: elements beyond len must stay unreachable
		backing := []string{"a", "b", "c", "d", "secret1", "secret2"}
		vars.Set("x", backing[:4])
	}
	vars.Set("i", i)
	vars.Set("j", j)
	vars.SetFunc("cap", c04Capture(&gotLen))
	vars.SetFunc("cap2", c04Capture(&gotVal))
	_, err := hxExec(set, "/m.jet", vars, nil)
	if lo >= 0 && lo <= hi && hi <= 4 {
		vfReach("ok")
		vfAssert(err == nil, "in-range bounds succeed")
		if err == nil {
			vfAssert(gotLen.Int() == hi-lo, "the sub-slice has j-i elements")
			if onString {
				vfAssert(gotVal.String() == "abcd"[lo:hi], "the sub-string is Go's")
			} else if hi > lo {
				vfAssert(gotVal.Index(0).String() == []string{"a", "b", "c", "d"}[lo], "the sub-slice starts at i")
			}
		}
	} else {
		vfReach("error")
		vfAssert(err != nil, "out-of-range slice bounds are an error")
	}
}

// H_C06_failures: unexported and missing fields, nil dereferences at each level (symbolic
// nil-ness), missing methods and indexes of the wrong kind are errors; an absent map key
// yields nil (renders nothing, no error).
//
//gosym:reach error,absent
func H_C06_failures() {
	bad := []string{"d.hidden", "d.Nope", "d.In.Nope", "d.PIn.Leaf", "d.If.Leaf", "d.ViaPtr", "d.Nope()", `d.List["x"]`, "d.A.B", "d.SMap.k.z", "np.A", "d.IMap.k",
		"mm.nobody.leaf", "mm.nobody.leaf.more", "d.Nested.zz.Leaf", "v.hidden", "np.ValM()", "np.Add(1)", "d.PIn.Double()"}
	c := ndChoice("case", len(bad)+5)
	d := &c06Outer{A: 1, SMap: map[string]int64{"k": 1}, IMap: map[int]int64{7: 1}, List: []int64{1}}
	var np *c06Outer
	vars := make(VarMap)
	vars.Set("d", d)
	vars.Set("np", np)
	vars.Set("v", *d)
	vars.Set("mm", map[string]map[string]string{"present": {"leaf": "x"}})
	vars.Set("res", &c06Result{})
	if c >= len(bad) {
		// (a nil value of an interface-typed field exists and is nil: it renders the way a nil
		// interface{} field does, tests false, equals nil, is not set)
		srcs := []string{`[{{ d.SMap.absent }}]`, `[{{ d.IMap[8] }}]`, `{{ if true }}[{{ res.Err }}|{{ res.Label }}]{{ end }}`, `[{{ if res.Err }}T{{ end }}{{ res.Err == nil ? "" : "x" }}]`, `[{{ isset(res.Err) ? "x" : "" }}]`}
		set := hxSet(nil, "/m.jet", srcs[c-len(bad)], "/ref.jet", `[{{ res.Extra }}|{{ res.Extra }}]`)
		out, err := hxExec(set, "/m.jet", vars, nil)
		vfReach("absent")
		vfAssert(err == nil, "an absent key / a nil interface-typed field is not an error")
		want := "[]"
		if c-len(bad) == 2 {
			want, _ = hxExec(set, "/ref.jet", vars, nil)
		}
		vfAssert(out == want, "an absent key yields nil; a nil interface-typed field renders like any nil")
		return
	}
	set := hxSet(nil, "/m.jet", `{{ `+bad[c]+` }}`)
	_, err := hxExec(set, "/m.jet", vars, nil)
	vfReach("error")
	vfAssert(err != nil, "the invalid access is an error")
	// ... and stays one: a second evaluation (struct field cache now warm) fails as well
	_, err2 := hxExec(set, "/m.jet", vars, nil)
	vfAssert(err2 != nil, "the invalid access is still an error on the second evaluation")
}

// ---- generated access paths (thorough) ----

// C06Rec is a recursive node that can be left through every kind of link.
type C06Rec struct {
	V         int64
	Next      *C06Rec
	Val       *C06RecVal // a struct value holding the next node
	M         map[string]*C06Rec
	IM        map[int]*C06Rec
	L         []*C06Rec
	Arr       [2]*C06Rec
	I         interface{}
	PP        **C06Rec
	C06RecEmb // promoted field Prom
	hidden    *C06Rec
}

type C06RecVal struct{ Inner C06RecInner }
type C06RecInner struct{ To *C06Rec }
type C06RecEmb struct{ Prom *C06Rec }

// pointer methods are nil-safe (a panic inside user code is the user's); the value method
// cannot be: calling it through a nil pointer is jet's nil dereference to report
func (r *C06Rec) Get() *C06Rec {
	if r == nil {
		return nil
	}
	return r.Next
}
func (r C06Rec) GetV() *C06Rec { return r.Next }
func (r *C06Rec) At(i int) *C06Rec {
	if r == nil || i >= len(r.L) {
		return nil
	}
	return r.L[i]
}

// c06Links: the template spelling of each link kind and how the data graph realises it.
var c06Links = []struct {
	src  string
	link func(from, to *C06Rec)
}{
	{".Next", func(f, t *C06Rec) { f.Next = t }},
	{".Val.Inner.To", func(f, t *C06Rec) { f.Val = &C06RecVal{C06RecInner{t}} }},
	{".M.k", func(f, t *C06Rec) { f.M = map[string]*C06Rec{"k": t, "other": nil} }},
	{`.M["k"]`, func(f, t *C06Rec) { f.M = map[string]*C06Rec{"k": t} }},
	{".IM[7]", func(f, t *C06Rec) { f.IM = map[int]*C06Rec{7: t, 8: nil} }},
	{".L[1]", func(f, t *C06Rec) { f.L = []*C06Rec{nil, t} }},
	{".Arr[1]", func(f, t *C06Rec) { f.Arr[1] = t }},
	{".I", func(f, t *C06Rec) { f.I = t }},
	{".PP", func(f, t *C06Rec) { p := t; f.PP = &p }},
	{".Prom", func(f, t *C06Rec) { f.Prom = t }},
	{".Get()", func(f, t *C06Rec) { f.Next = t }},
	{".GetV()", func(f, t *C06Rec) { f.Next = t }},
	{".At(1)", func(f, t *C06Rec) { f.L = []*C06Rec{nil, t} }},
}

// H_C06_generated (thorough): access paths of 1..3 links, each link one of 13 kinds (pointer
// field, fields of nested struct values, map entry as .k and as ["k"], int-keyed map, slice
// and array element, interface, pointer to pointer, promoted field, pointer and value
// methods, method with an argument), from a variable or from '.', ending in the leaf .V:
// the value reached is the symbolic value stored at the end of exactly that chain of links
// (every node carries a different symbolic leaf); with one link left nil (symbolic
// position) the access is an error instead.
//
//gosym:reach reached,broken
//gosym:thorough-only
//gosym:opts maxpaths=400000 wall=1500
func H_C06_generated() {
	n := 1 + ndChoice("links", 3)
	nodes := make([]*C06Rec, n+1)
	for k := range nodes {
		nodes[k] = &C06Rec{V: ndInt64("v" + ndItoa(k))}
	}
	broken := ndChoice("broken", n+1) // n: intact
	path := ""
	for k := 0; k < n; k++ {
		l := c06Links[ndChoice("l"+ndItoa(k), len(c06Links))]
		path += l.src
		if k != broken {
			l.link(nodes[k], nodes[k+1])
		}
	}
	fromDot := ndBool("dot")
	src := "d" + path + ".V"
	if fromDot {
		src = path + ".V"
	}
	var got reflect.Value
	set := hxSet(nil, "/m.jet", `{{ cap(`+src+`) }}`)
	vars := make(VarMap)
	vars.Set("d", nodes[0])
	vars.SetFunc("cap", c04Capture(&got))
	_, err := hxExec(set, "/m.jet", vars, nodes[0])
	vfNote(src)
	if broken < n {
		vfReach("broken")
		vfAssert(err != nil, "a nil link in the middle of an access path is an error")
		return
	}
	vfReach("reached")
	vfAssert(err == nil, "the access succeeds")
	if err != nil {
		return
	}
	gi, ok := c04Int(got)
	vfAssert(ok, "an integer is reached")
	vfAssert(gi == nodes[n].V, "no access yields a value other than the one stored in the data")
}

// H_C06_mapKeys: a map indexed with a key of another numeric kind (or a number where the
// keys are strings): the key is converted to the map's key type, and an entry is reached
// only if the key survives the conversion - 300 is not a key of a map[uint8]T, 1.5 not a
// key of a map[int]T, 65 not the key "A": those are absent keys (nil), never the entry
// the wrapped / truncated / re-interpreted key happens to name.
//
//gosym:reach present,absent
func H_C06_mapKeys() {
	k := ndInt64("k")
	vfAssume(k > -1000 && k < 1000)
	v := ndInt64("v")
	form := ndChoice("form", 8)
	vars := make(VarMap)
	vars.Set("k", k)
	var present bool
	var src string
	switch form {
	case 0:
		vars.Set("m", map[uint8]int64{44: v})
		src, present = `m[k]`, k == 44
	case 1:
		vars.Set("m", map[int8]int64{-3: v})
		src, present = `m[k]`, k == -3
	case 2:
		vars.Set("m", map[string]int64{"A": v})
		vars.Set("k65", 65)
		src, present = `m[k65]`, false // 65 is not "A"
	case 3:
		vars.Set("m", map[int]int64{1: v})
		vars.Set("f", 1.5)
		src, present = `m[f]`, false
	case 4:
		vars.Set("m", map[int]int64{1: v})
		src, present = `m[1]`, true // number literals are floats: 1.0 survives
	case 5:
		vars.Set("m", map[uint16]int64{300: v})
		src, present = `m[k]`, k == 300
	case 6:
		// keys of interface type are looked up as they are
		vars.Set("m", map[interface{}]int64{2: v, "s": 0})
		vars.Set("two", 2)
		src, present = `m[two]`, true
	default:
		// float keys: the index is converted as Go converts a constant (0.1 as a float32)
		vars.Set("m", map[float32]int64{0.1: v})
		vars.Set("f", 0.1)
		src, present = `m[f]`, true
	}
	var got reflect.Value
	vars.SetFunc("cap", c04Capture(&got))
	set := hxSet(nil, "/m.jet", `{{ isset(`+src+`) }}{{ cap(`+src+`) }}`)
	out, err := hxExec(set, "/m.jet", vars, nil)
	if form == 2 && err != nil {
		// (a number is no key for a map of strings: an error is as good as nil)
		vfReach("absent")
		return
	}
	vfAssert(err == nil, "the access succeeds")
	if present {
		vfReach("present")
		gi, ok := c04Int(got)
		vfAssert(out == "true" && ok && gi == v, "the entry stored under the key is reached")
	} else {
		vfReach("absent")
		vfAssert(out == "false" && !got.IsValid(), "a key that is not in the map yields nil, never another entry")
	}
}
