package jet

import "io/ioutil"

// ---- C19 (in-memory loader): all spellings that normalise to the same clean absolute
// path are one entry across Set, Delete, Exists and Open ----

type c19Entry struct {
	path    string
	content string
	live    bool
}

// c19Ref is the reference model: an association list keyed by the reference
// normalisation refResolve("/", p) (C15's independent segment-stack resolver).
type c19Ref struct{ e []c19Entry }

func (r *c19Ref) set(p, c string) {
	k := refResolve("/", p)
	for i := range r.e {
		if r.e[i].path == k {
			r.e[i].content, r.e[i].live = c, true
			return
		}
	}
	r.e = append(r.e, c19Entry{k, c, true})
}

func (r *c19Ref) del(p string) {
	k := refResolve("/", p)
	for i := range r.e {
		if r.e[i].path == k {
			r.e[i].live = false
		}
	}
}

func (r *c19Ref) get(p string) (string, bool) {
	k := refResolve("/", p)
	for i := range r.e {
		if r.e[i].path == k && r.e[i].live {
			return r.e[i].content, true
		}
	}
	return "", false
}

func c19Path(tag string, max int) string {
	p := ndName(tag, max)
	for i := 0; i < len(p); i++ {
		vfAssume(p[i] != '\\')
	}
	return p
}

// c19Run: a history of nops Set/Delete operations with symbolic path spellings (every
// byte arbitrary except backslash, length <= plen) and symbolic 1-byte contents, followed
// by Exists(q) and Open(q) for a symbolic spelling q: the loader agrees with the reference
// map keyed by the normalised path, and Exists(q) implies Open(q) yields the stored content.
func c19Run(nops, plen int) {
	l := NewInMemLoader()
	ref := &c19Ref{}
	for i := 0; i < nops; i++ {
		tag := "op" + ndItoa(i)
		p := c19Path(tag+".path", plen)
		if ndChoice(tag+".kind", 2) == 0 {
			c := ndString(tag+".content", 1)
			l.Set(p, c)
			ref.set(p, c)
		} else {
			l.Delete(p)
			ref.del(p)
		}
	}
	q := c19Path("q", plen)
	want, has := ref.get(q)
	got := l.Exists(q)
	vfAssert(got == has, "Exists agrees with the reference map")
	f, err := l.Open(q)
	if has {
		vfReach("hit")
		vfAssert(err == nil, "Open succeeds for an existing entry")
		if err == nil {
			b, rerr := ioutil.ReadAll(f)
			vfAssert(rerr == nil, "content readable")
			vfAssert(string(b) == want, "Open yields exactly the stored content")
		}
	} else {
		vfReach("miss")
		vfAssert(err != nil, "Open fails for a missing entry")
	}
}

// H_C19_inmem1: one operation then a query, spellings of up to 3 (quick) / 4 (thorough) bytes.
//
//gosym:reach hit,miss
func H_C19_inmem1() {
	n := 3
	if vfTier() == 1 {
		n = 4
	}
	c19Run(1, n)
}

// H_C19_inmem2: two operations (Set/Delete in any combination, so overwrite, delete of
// another spelling, re-add) then a query, spellings of up to 2 bytes; thorough adds a
// third operation.
//
//gosym:reach hit,miss
func H_C19_inmem2() {
	n := 2
	if vfTier() == 1 {
		n = 2 + ndChoice("nops3", 2)
	}
	c19Run(n, 2)
}
