package jet

import (
	"io/ioutil"
	"path"
)

// ---- C19 (in-memory loader): all spellings that normalise to the same clean absolute
// path are one entry across Set, Delete, Exists and Open ----

type c19Entry struct {
	path    string
	content string
	live    bool
}

// c19Ref is the reference model: an association list keyed by the reference
// normalisation refResolve("/", p) (C15's independent segment-stack resolver).
type c19Ref struct{ e []c19Entry }

func (r *c19Ref) set(p, c string) {
	k := refResolve("/", p)
	for i := range r.e {
		if r.e[i].path == k {
			r.e[i].content, r.e[i].live = c, true
			return
		}
	}
	r.e = append(r.e, c19Entry{k, c, true})
}

func (r *c19Ref) del(p string) {
	k := refResolve("/", p)
	for i := range r.e {
		if r.e[i].path == k {
			r.e[i].live = false
		}
	}
}

func (r *c19Ref) get(p string) (string, bool) {
	k := refResolve("/", p)
	for i := range r.e {
		if r.e[i].path == k && r.e[i].live {
			return r.e[i].content, true
		}
	}
	return "", false
}

func c19Path(tag string, max int) string {
	p := ndName(tag, max)
	for i := 0; i < len(p); i++ {
		vfAssume(p[i] != '\\')
	}
	return p
}

// c19Run: a history of nops Set/Delete operations with symbolic path spellings (every
// byte arbitrary except backslash, length <= plen) and symbolic 1-byte contents, followed
// by Exists(q) and Open(q) for a symbolic spelling q: the loader agrees with the reference
// map keyed by the normalised path, and Exists(q) implies Open(q) yields the stored content.
func c19Run(nops, plen int) {
	l := NewInMemLoader()
	ref := &c19Ref{}
	for i := 0; i < nops; i++ {
		tag := "op" + ndItoa(i)
		p := c19Path(tag+".path", plen)
		if ndChoice(tag+".kind", 2) == 0 {
			c := ndString(tag+".content", 1)
			l.Set(p, c)
			ref.set(p, c)
		} else {
			l.Delete(p)
			ref.del(p)
		}
	}
	q := c19Path("q", plen)
	want, has := ref.get(q)
	got := l.Exists(q)
	vfAssert(got == has, "Exists agrees with the reference map")
	f, err := l.Open(q)
	if has {
		vfReach("hit")
		vfAssert(err == nil, "Open succeeds for an existing entry")
		if err == nil {
			b, rerr := ioutil.ReadAll(f)
			vfAssert(rerr == nil, "content readable")
			vfAssert(string(b) == want, "Open yields exactly the stored content")
		}
	} else {
		vfReach("miss")
		vfAssert(err != nil, "Open fails for a missing entry")
	}
}

// H_C19_inmem1: one operation then a query, spellings of up to 3 (quick) / 4 (thorough) bytes.
//
//gosym:reach hit,miss
func H_C19_inmem1() {
	n := 3
	if vfTier() == 1 {
		n = 4
	}
	c19Run(1, n)
}

// H_C19_inmem2: two operations (Set/Delete in any combination, so overwrite, delete of
// another spelling, re-add) then a query, spellings of up to 2 bytes; thorough adds a
// third operation.
//
//gosym:reach hit,miss
//gosym:opts maxpaths=1500000
func H_C19_inmem2() {
	n := 2
	if vfTier() == 1 {
		n = 2 + ndChoice("nops3", 2)
	}
	c19Run(n, 2)
}

// ---- C19 (OS file-system loader) ----

// c19OSCheck: for the loader rooted at dir, Exists(p) is true exactly when p names a
// regular file of the tree as listed independently (vfListTree), never for a directory
// or a missing entry, and then Open(p) yields the file's bytes.
func c19OSCheck(l *OSFileSystemLoader, dir, p string, tree []string) {
	isFile, isDir := false, false
	hit := ""
	for _, e := range tree {
		if e[len(e)-1] != '/' && e == p {
			isFile = true
			hit = e
		}
		if e == p+"/" || (p == "/" && e == "/") {
			isDir = true
		}
	}
	got := l.Exists(p)
	if isDir {
		vfReach("dir")
		vfAssert(!got, "a directory is never reported as an existing template")
	}
	vfAssert(got == isFile, "Exists reports exactly the regular files below the root")
	if isFile {
		vfReach("file")
		f, err := l.Open(p)
		vfAssert(err == nil, "whenever Exists(p) is true, Open(p) succeeds")
		if err == nil {
			b, rerr := ioutil.ReadAll(f)
			f.Close()
			vfAssert(rerr == nil && string(b) == vfFileContent(dir+hit), "... and yields exactly the file's content")
			vfNote(string(b))
		}
	} else {
		vfReach("notfile")
	}
}

var c19OSRoots = []string{"/repo/testData/resolve", "/repo/testData/resolve/", "/repo/testData", "/repo/testData/resolve/sub", "/repo/loaders/../testData/resolve", "/verif/fixtures/ostree", "/verif/fixtures/oslinks"}
var c19OSDirs = []string{"/repo/testData/resolve", "/repo/testData/resolve", "/repo/testData", "/repo/testData/resolve/sub", "/repo/testData/resolve", "/verif/fixtures/ostree", "/verif/fixtures/oslinks"}

// H_C19_osShort: every clean absolute path of up to 4 (quick) / 5 (thorough) bytes - all
// bytes symbolic - against the real tree below /repo/testData (several spellings of the
// root directory): short names of directories ("/sub"), missing entries, "/.." forms.
//
//gosym:reach dir,notfile
func H_C19_osShort() {
	r := ndChoice("root", len(c19OSRoots))
	if r >= 5 {
		vfOSRoot("/verif/fixtures", "/repo")
	} else {
		vfOSRoot("/repo", "/repo")
	}
	n := 3 + vfTier()
	k := ndChoice("len", n+1)
	p := "/" + ndString("p", k)
	vfAssume(path.Clean(p) == p)
	vfAssume(!hxContains(p, "\x00"))
	l := NewOSFileSystemLoader(c19OSRoots[r])
	c19OSCheck(l, c19OSDirs[r], p, vfListTree(c19OSDirs[r]))
}

// H_C19_osNear: every entry of the real tree (files, directories, nested entries) and a
// few missing names, with one byte (two in the thorough tier) replaced by an arbitrary
// byte at every position - the exact name, every near miss, every '/' that turns a name
// into a nested path - kept when the result is still a clean absolute path.
//
//gosym:reach file,dir,notfile
func H_C19_osNear() {
	// "/repo/testData/resolve", "/repo/testData", and a fixture tree with unusual names (dots
	// inside names, leading dots, spaces, an empty file)
	// inside names, leading dots, spaces, an empty file), and one with symbolic links (to a
	// file: a template; to a directory: a directory; dangling: missing)
	r := []int{0, 2, 5, 6}[ndChoice("root", 4)]
	if r >= 5 {
		vfOSRoot("/verif/fixtures", "/repo")
	} else {
		vfOSRoot("/repo", "/repo")
	}
	tree := vfListTree(c19OSDirs[r])
	var universe []string
	for _, e := range tree {
		if len(e) > 1 && e[len(e)-1] == '/' {
			e = e[:len(e)-1]
		}
		if len(e) <= 24 {
			universe = append(universe, e)
		}
	}
	universe = append(universe, "/nope.jet", "/sub/nope", "/simple.jet/x", "/sub/extend/..")
	if r == 6 {
		universe = append(universe, "/gone.jet", "/gone.jet/x", "/alias.jet/x", "/shared/nope")
	}
	if len(universe) > 24 {
		universe = universe[:24]
	}
	base := universe[ndChoice("entry", len(universe))]
	b := []byte(base)
	for m := 0; m <= vfTier(); m++ {
		pos := ndChoice("pos"+string(rune('0'+m)), len(b))
		if pos > 0 {
			b[pos] = ndByte("b" + string(rune('0'+m)))
		}
	}
	p := string(b)
	vfAssume(path.Clean(p) == p)
	vfAssume(!hxContains(p, "\x00"))
	l := NewOSFileSystemLoader(c19OSRoots[r])
	c19OSCheck(l, c19OSDirs[r], p, tree)
}
