package jet

import "path"

// H_smoke_arith: trivial arithmetic check used by the engine self-test.
func H_smoke_arith() {
	x := ndInt64("x")
	y := ndInt64("y")
	vfAssume(x > 0 && x < 1000 && y > 0 && y < 1000)
	if x > y {
		vfReach("gt")
		vfAssert(x-y > 0, "diff-positive")
	} else {
		vfReach("le")
		vfAssert(y-x >= 0, "diff-nonneg")
	}
	vfAssert(x+y != 1999, "sum-bound-wrong") // violated at x=y=... no: max 999+999=1998 -> holds
}

// H_smoke_bug: must produce a violation (x*2 == 10 reachable).
func H_smoke_bug() {
	x := ndInt64("x")
	vfAssert(x*2 != 10, "times-two")
}

// H_smoke_path: symbolic string through the real path.Clean.
func H_smoke_path() {
	s := ndString("s", 3)
	c := path.Clean("/" + s)
	vfAssert(len(c) >= 1 && c[0] == '/', "rooted")
	vfAssert(len(c) <= 4, "no-growth")
}
