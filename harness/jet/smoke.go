package jet

import (
	"path"
	"sync"
)

// H_smoke_arith: trivial arithmetic check used by the engine self-test.
func H_smoke_arith() {
	x := ndInt64("x")
	y := ndInt64("y")
	vfAssume(x > 0 && x < 1000 && y > 0 && y < 1000)
	if x > y {
		vfReach("gt")
		vfAssert(x-y > 0, "diff-positive")
	} else {
		vfReach("le")
		vfAssert(y-x >= 0, "diff-nonneg")
	}
	vfAssert(x+y != 1999, "sum-bound-wrong") // violated at x=y=... no: max 999+999=1998 -> holds
}

// H_smoke_bug: must produce a violation (x*2 == 10 reachable).
func H_smoke_bug() {
	x := ndInt64("x")
	vfAssert(x*2 != 10, "times-two")
}

// H_smoke_path: symbolic string through the real path.Clean.
func H_smoke_path() {
	s := ndString("s", 3)
	c := path.Clean("/" + s)
	vfAssert(len(c) >= 1 && c[0] == '/', "rooted")
	vfAssert(len(c) <= 4, "no-growth")
}

// H_smoke_race: the race detector must report the unsynchronised counter and accept the
// mutex-protected one (control for the C11 harnesses).
func H_smoke_race() {
	protected := ndBool("protected")
	vfRace(2)
	var mu sync.Mutex
	var wg sync.WaitGroup
	n := 0
	for g := 0; g < 2; g++ {
		wg.Add(1)
		go func() {
			defer wg.Done()
			if protected {
				mu.Lock()
				n++
				mu.Unlock()
			} else {
				n++
			}
		}()
	}
	wg.Wait()
	vfAssert(n == 2 || !protected, "both increments happened")
}

// H_smoke_atomicity: no data race, but a lost update that only some schedules expose
// (read under one critical section, write under another): schedule exploration must find it.
func H_smoke_atomicity() {
	vfRace(2)
	var mu sync.Mutex
	var wg sync.WaitGroup
	n := 0
	for g := 0; g < 2; g++ {
		wg.Add(1)
		go func() {
			defer wg.Done()
			mu.Lock()
			t := n
			mu.Unlock()
			mu.Lock()
			n = t + 1
			mu.Unlock()
		}()
	}
	wg.Wait()
	vfAssert(n == 2, "no lost update")
}
