package jet

import "bytes"

// ---- C03: literal text is copied verbatim; only trim markers and comments remove bytes ----

var c03LeftC = []string{"{*", "[*", "<#", "{*", "<#", "{*", "<!--", "\u00a1", "<#", "{*"}
var c03RightC = []string{"*}", "*]", "#>", "*}", "#>", "*}", "-->", "!", "*}", "#}"}

func c03IsWS(b byte) bool { return b == ' ' || b == '\t' || b == '\r' || b == '\n' }

// c03Plain assumes that text t neither contains nor (with what follows) forms an action or
// comment delimiter: no occurrence of a left delimiter's first byte. Lone occurrences of
// the other delimiter characters ('}', '*', ']', ...) are allowed.
func c03Plain(t string, cfg int) {
	for i := 0; i < len(t); i++ {
		vfAssume(t[i] != c02Left[cfg][0] && t[i] != c03LeftC[cfg][0])
	}
}

func c03TrimRight(t string) string {
	n := len(t)
	for n > 0 && c03IsWS(t[n-1]) {
		n--
	}
	return t[:n]
}

func c03TrimLeft(t string) string {
	i := 0
	for i < len(t) && c03IsWS(t[i]) {
		i++
	}
	return t[i:]
}

func c03Render(set *Set, src string) (string, error) {
	t, err := set.Parse("/t.jet", src)
	if err != nil {
		return "", err
	}
	var buf bytes.Buffer
	err = t.Execute(&buf, nil, nil)
	return buf.String(), err
}

// H_C03_text: T1 A T2 with T1, T2 arbitrary text (N bytes each, any byte except a left
// delimiter's first byte) and A one of: plain action, action with left / right / both trim
// markers, comment - in the default and seven custom delimiter configurations (one with
// non-ASCII delimiters). The output
// is T1 (minus its trailing run of space/tab/CR/LF iff left trim) ++ the action's output
// ++ T2 (minus its leading run iff right trim); nothing else is added or removed, and text
// is not escaped.
//
//gosym:reach plain,ltrim,rtrim,both,comment
func H_C03_text() {
	cfgs := []int{0, 1, 5, 6, 7, 8, 9} // quick: default, "[[ ]]"+"[* *]", "<%= %>", "${ }"+"<!-- -->", non-ASCII guillemets + inverted exclamation mark
	if vfTier() == 1 {
		cfgs = []int{0, 1, 2, 3, 4, 5, 6, 7, 8, 9}
	}
	cfg := cfgs[ndChoice("cfg", len(cfgs))]
	form := ndChoice("form", 6)
	if cfg >= 8 {
		// one-sided comment configurations differ from the default only in comments
		vfAssume(form == 4)
	}
	// quick: 2 bytes on each side with the default delimiters, 1 byte with custom ones;
	// thorough: 2 bytes everywhere
	n := 1
	if (cfg == 0 && form != 4) || vfTier() == 1 {
		n = 2 // (the comment form has a symbolic body as well: one text byte per side in quick)
	}
	t1 := ndName("t1", n)
	t2 := ndName("t2", n)
	c03Plain(t1, cfg)
	c03Plain(t2, cfg)
	l, r := c02Left[cfg], c02Right[cfg]
	var a string
	w1, w2, mid := t1, t2, "x"
	switch form {
	case 0:
		vfReach("plain")
		a = l + `"x"` + r
	case 1:
		vfReach("ltrim")
		a = l + `- "x"` + r
		w1 = c03TrimRight(t1)
	case 2:
		vfReach("rtrim")
		a = l + `"x" -` + r
		w2 = c03TrimLeft(t2)
	case 3:
		vfReach("both")
		a = l + `- "x" -` + r
		w1, w2 = c03TrimRight(t1), c03TrimLeft(t2)
	case 5:
		// a dash followed by a tab / newline is a unary minus, not a trim marker
		vfReach("plain")
		ws := []string{"\t", "\n", "\r\n"}[ndChoice("dashws", 3)]
		a = l + "-" + ws + "1 " + r
		mid = "-1"
	default:
		vfReach("comment")
		// the comment body is symbolic too; it only must not contain the closing marker
		// (the first closing marker after the opening one ends the comment)
		body := ndName("cbody", 2)
		rc := c03RightC[cfg]
		closed := body + rc
		for i := 0; i < len(body); i++ {
			vfAssume(closed[i:i+len(rc)] != rc)
		}
		a = c03LeftC[cfg] + body + rc
		mid = ""
	}
	out, err := c03Render(c02Set(cfg), t1+a+t2)
	vfAssert(err == nil, "template parses and renders")
	if err != nil {
		return
	}
	vfNote(out)
	vfAssert(out == w1+mid+w2, "output is the text verbatim, minus exactly the trimmed runs, plus the action's output")
}

// H_C03_adjacent: two adjacent constructs with text only in between: T between
// (action|comment) and (action|comment) with every combination of the inner trim markers.
//
//gosym:reach rendered
func H_C03_adjacent() {
	n := 2
	if vfTier() == 1 {
		n = 3
	}
	t := ndName("t", n)
	c03Plain(t, 0)
	first := ndChoice("first", 3)
	second := ndChoice("second", 3)
	var a, b string
	w := t
	o1, o2 := "a", "b"
	switch first {
	case 0:
		a = `{{"a"}}`
	case 1:
		a = `{{"a" -}}`
		w = c03TrimLeft(w)
	default:
		a = `{* c *}`
		o1 = ""
	}
	switch second {
	case 0:
		b = `{{"b"}}`
	case 1:
		b = `{{- "b"}}`
		w = c03TrimRight(w)
	default:
		b = `{* d *}`
		o2 = ""
	}
	out, err := c03Render(c02Set(0), "<"+a+t+b+">")
	vfReach("rendered")
	vfAssert(err == nil, "template parses and renders")
	if err != nil {
		return
	}
	vfNote(out)
	vfAssert(out == "<"+o1+w+o2+">", "text between two constructs is verbatim minus the trimmed runs")
}

// H_C03_header: whitespace-only text next to a leading import clause is dropped and all
// other text is kept verbatim: T0 {{import "/i"}} T1 {{"x"}} T2.
//
//gosym:reach rendered,rejected
func H_C03_header() {
	t0 := ndName("t0", 2)
	t1 := ndName("t1", 2)
	t2 := ndName("t2", 1)
	for _, t := range []string{t0, t1, t2} {
		for i := 0; i < len(t); i++ {
			vfAssume(t[i] != '{' && t[i] < 0x80)
		}
	}
	isWS := func(t string) bool {
		for i := 0; i < len(t); i++ {
			b := t[i]
			if !(b == ' ' || b == '\t' || b == '\n' || b == '\v' || b == '\f' || b == '\r') {
				return false
			}
		}
		return true
	}
	set := c02Set(0)
	set.loader.(*InMemLoader).Set("/i", "{{block b()}}B{{end}}")
	out, err := c03Render(set, t0+`{{import "/i"}}`+t1+`{{"x"}}`+t2)
	if !isWS(t0) {
		vfReach("rejected")
		vfAssert(err != nil, "import after content is reported")
		return
	}
	vfReach("rendered")
	vfAssert(err == nil, "template parses and renders")
	if err != nil {
		return
	}
	w1 := t1
	if isWS(t1) {
		w1 = ""
	}
	vfNote(out)
	vfAssert(out == w1+"x"+t2, "only whitespace-only text next to the import clause is dropped")
}

// c03WS is a run of 0..max white-space characters, each one of blank, tab, CR, LF.
func c03WS(name string, max int) string {
	n := ndChoice(name+".len", max+1)
	s := ""
	for i := 0; i < n; i++ {
		s += []string{" ", "\t", "\n", "\r"}[ndChoice(name+"."+string(rune('0'+i)), 4)]
	}
	return s
}

// H_C03_innerSpace: the white space inside an action - between the left delimiter (or its
// trim marker) and the expression, and between the expression and the right delimiter (or
// its trim marker) - is any run of blanks, tabs and line breaks (0..2 characters per side,
// 0..3 in the thorough tier): it never shows in the output and does not change which of
// the surrounding text is trimmed. Default and "[[ ]]" delimiters; a second, plain action
// follows so that a marker mis-read in the first one is seen in the second.
//
//gosym:reach rendered
func H_C03_innerSpace() {
	max := 2
	if vfTier() == 1 {
		max = 3
	}
	cfg := []int{0, 1}[ndChoice("cfg", 2)]
	lt, rt := ndBool("ltrim"), ndBool("rtrim")
	ws1, ws2 := c03WS("ws1", max), c03WS("ws2", max)
	l, r := c02Left[cfg], c02Right[cfg]
	t1, t2, t3 := "a \n", " \tb ", "\nc"
	w1, w2 := t1, t2
	a := l
	if lt {
		a += "- " // the marker is the dash and one blank
		w1 = c03TrimRight(t1)
	}
	a += ws1 + `"x"` + ws2
	if rt {
		a += " -"
		w2 = c03TrimLeft(t2)
	}
	a += r
	out, err := c03Render(c02Set(cfg), t1+a+t2+l+`"y"`+r+t3)
	vfReach("rendered")
	vfNote(a)
	vfAssert(err == nil, "template parses and renders")
	if err != nil {
		return
	}
	vfNote(out)
	vfAssert(out == w1+"x"+w2+"y"+t3, "white space inside an action neither shows nor changes what is trimmed")
}

func c03Index(s, sub string) int {
	for i := 0; i+len(sub) <= len(s); i++ {
		if s[i:i+len(sub)] == sub {
			return i
		}
	}
	return -1
}

// H_C03_loneDelimiterChars: text made of the very characters delimiters are made of - the
// first and last byte of the left action delimiter and of the left comment marker - placed
// directly before and after a real action and a real comment, whenever they do not
// themselves form a delimiter (an independent scan decides where the first action and the
// first comment begin): the text is copied verbatim, the action rendered, the comment
// dropped. Seven delimiter configurations; up to two such characters before and between,
// one (thorough: two) after; thorough adds the delimiter's last byte to the alphabet.
//
//gosym:reach rendered
func H_C03_loneDelimiterChars() {
	cfg := []int{0, 1, 2, 3, 4, 5, 6}[ndChoice("cfg", 7)]
	l, r, lc, rc := c02Left[cfg], c02Right[cfg], c03LeftC[cfg], c03RightC[cfg]
	alpha := []string{l[:1], lc[:1], "x"}
	max3 := 1
	if vfTier() == 1 {
		alpha = append(alpha, l[len(l)-1:])
		max3 = 2
	}
	pick := func(name string, max int) string {
		n := ndChoice(name+".len", max+1)
		s := ""
		for i := 0; i < n; i++ {
			s += alpha[ndChoice(name+"."+string(rune('0'+i)), len(alpha))]
		}
		return s
	}
	t1, t2, t3 := pick("t1", 2), pick("t2", 2), pick("t3", max3)
	act := l + `"v"` + r
	com := lc + " c " + rc
	src := t1 + act + t2 + com + t3
	// the first action must be the one we wrote, the first comment likewise, and the tail
	// must not open anything
	vfAssume(c03Index(src, l) == len(t1))
	lcFirst := c03Index(src, lc)
	vfAssume(lcFirst < 0 || lcFirst > len(t1))
	rest2 := src[len(t1)+len(act):]
	vfAssume(c03Index(rest2, l) < 0 && c03Index(rest2, lc) == len(t2))
	rest := rest2[len(t2)+len(com):]
	vfAssume(c03Index(rest, l) < 0 && c03Index(rest, lc) < 0)
	out, err := c03Render(c02Set(cfg), src)
	vfReach("rendered")
	vfNote(src)
	vfAssert(err == nil, "template parses and renders")
	if err != nil {
		return
	}
	vfNote(out)
	vfAssert(out == t1+"v"+t2+t3, "lone delimiter characters are text; the action and the comment next to them are still recognised")
}
