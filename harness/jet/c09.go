package jet

import (
	"bytes"
	"reflect"
)

// ---- C09: include renders in place with the caller's variables; exec returns a value ----

// H_C09_include: include renders the named template at that point with the includer's
// variables and blocks visible and the given (or current) context, leaks no declaration or
// context change back, and an included template that extends others renders its root.
//
//gosym:reach rendered
func H_C09_include() {
	withCtx := ndBool("ctx")
	chain := ndChoice("chain", 3) // 0: plain, 1: extends one level, 2: extends two levels
	v := ndString("v", 1)
	inc := `{{ include "/i.jet" }}`
	if withCtx {
		inc = `{{ include "/i.jet" "C" }}`
	}
	body := `<{{ cv }}|{{ . }}|{{ yield callerBlock() }}{{ iy := 1 }}>`
	files := []string{
		"/main.jet", `{{ block callerBlock() }}CB{{ end }}{{ cv := v }}[` + inc + `]{{ isset(iy) }}|{{ . }}|{{ cv }}{{ yield callerBlock() }}`,
	}
	switch chain {
	case 0:
		files = append(files, "/i.jet", body)
	case 1:
		files = append(files, "/i.jet", `{{ extends "/r1.jet" }}IGN`, "/r1.jet", body)
	default:
		files = append(files, "/i.jet", `{{ extends "/r1.jet" }}IGN`, "/r1.jet", `{{ extends "/r2.jet" }}IGN1`, "/r2.jet", body)
	}
	set := hxSet([]Option{WithSafeWriter(nil)}, files...)
	vars := make(VarMap)
	vars.Set("v", v)
	out, err := hxExec(set, "/main.jet", vars, "D")
	vfReach("rendered")
	vfAssert(err == nil, "renders")
	ctx := "D"
	if withCtx {
		ctx = "C"
	}
	vfNote(out)
	vfAssert(out == "CB[<"+v+"|"+ctx+"|CB>]false|D|"+v+"CB", "included in place with the caller's variables, blocks and context; nothing leaks back")
}

// c09Exec: templates run by exec and the value the last executed return gives (or "" for nil).
var c09Exec = [][2]string{
	{`text only`, ""},
	{`{{ return "r1" }}`, "r1"},
	{`a{{ return "r1" }}b`, "r1"},
	{`{{ return "r1" }}{{ if true }}x{{ end }}`, "r1"},
	{`{{ return "r1" }}{{ range s }}x{{ end }}`, "r1"},
	{`{{ return "r1" }}{{ try }}x{{ end }}`, "r1"},
	{`{{ return "r1" }}{{ include "/plain.jet" }}`, "r1"},
	{`{{ return "r1" }}{{ return "r2" }}`, "r2"},
	{`{{ if true }}{{ return "r1" }}{{ end }}`, "r1"},
	{`{{ if false }}{{ return "r1" }}{{ end }}`, ""},
	{`{{ range s }}{{ return . }}{{ end }}`, "e1"},
	{`{{ try }}{{ return "r1" }}{{ end }}`, "r1"},
	{`{{ include "/ret.jet" }}`, "r3"},
	{`{{ block bb() }}{{ return "r1" }}{{ end }}`, ""},
	{`{{ x := "r1" }}{{ return x }}`, "r1"},
	{`{{ try }}{{ fail() }}{{ catch }}{{ return "r1" }}{{ end }}`, "r1"},
	{`{{ try }}{{ fail() }}{{ catch e }}{{ return "r1" }}{{ end }}tail`, "r1"},
	{`{{ return "r0" }}{{ try }}{{ fail() }}{{ catch }}c{{ end }}`, "r0"},
	{`{{ range s }}{{ if . == "e2" }}{{ return . }}{{ end }}{{ end }}`, "e2"},
	{`{{ yield rb() }}`, ""},
}

// H_C09_exec: exec runs a template like include but discards all of its output (text,
// actions, nested try, a renderer writing to the Runtime's writer) and evaluates to the
// value of the last return statement executed (nil if none); the caller's output
// destination is in effect again afterwards, also when the executed template fails.
//
//gosym:reach returned
func H_C09_exec() {
	c := ndChoice("tmpl", len(c09Exec))
	chain := ndChoice("chain", 3)
	body := `{{ import "/rblib.jet" }}noise<{{ "x" }}{{ try }}t{{ end }}` + c09Exec[c][0]
	files := []string{
		"/main.jet", `{{ block own() }}O{{ end }}[{{ exec("/e.jet") }}]after{{ yield own() }}`,
		"/plain.jet", `p`,
		"/ret.jet", `{{ return "r3" }}`,
		"/rblib.jet", `{{ block rb() }}{{ return "inblock" }}{{ end }}`,
	}
	switch chain {
	case 0:
		files = append(files, "/e.jet", body)
	case 1:
		files = append(files, "/e.jet", `{{ extends "/r1.jet" }}IGN`, "/r1.jet", body)
	default:
		files = append(files, "/e.jet", `{{ extends "/r1.jet" }}IGN`, "/r1.jet", `{{ extends "/r2.jet" }}IGN1`, "/r2.jet", body)
	}
	set := hxSet(nil, files...)
	vars := make(VarMap)
	vars.Set("s", []string{"e1", "e2"})
	vars.SetFunc("fail", hxFail)
	out, err := hxExec(set, "/main.jet", vars, nil)
	vfReach("returned")
	vfAssert(err == nil, "renders")
	vfNote(out)
	vfAssert(out == "O["+c09Exec[c][1]+"]afterO", "output discarded; value of the last executed return; writer and blocks restored")
}

// H_C09_execFails: when the executed template fails, the error propagates and the
// caller's writer is back in place (text after a surrounding try is rendered).
//
//gosym:reach rendered
func H_C09_execFails() {
	set := hxSet(nil,
		"/main.jet", `A{{ try }}{{ exec("/e.jet") }}{{ catch }}C{{ end }}B`,
		"/e.jet", `x{{ fail() }}y`,
	)
	vars := make(VarMap)
	vars.SetFunc("fail", hxFail)
	out, err := hxExec(set, "/main.jet", vars, nil)
	vfReach("rendered")
	vfAssert(err == nil, "the failure is caught by the caller's try")
	vfAssert(out == "ACB", "the caller's output destination is restored after a failing exec")
}

// H_C09_includeIfExists: behaves like include when the template exists (rendering it, with
// the optional context, root ancestor for an extends chain) and evaluates to true; renders
// nothing and evaluates to false when it does not exist.
//
//gosym:reach exists,missing
func H_C09_includeIfExists() {
	exists := ndBool("exists")
	chain := ndChoice("chain", 3)
	withCtx := ndBool("ctx")
	call := `includeIfExists("/i.jet")`
	if withCtx {
		call = `includeIfExists("/i.jet", "C")`
	}
	files := []string{"/main.jet", `{{ block own() }}OWN{{ end }}[{{ if ` + call + ` }}Y{{ else }}N{{ end }}]{{ . }}{{ yield own() }}{{ try }}{{ yield theirs() }}LEAK{{ catch }}{{ end }}`}
	body := `{{ block theirs() }}{{ end }}<{{ cv }}{{ . }}>`
	if exists {
		switch chain {
		case 0:
			files = append(files, "/i.jet", body)
		case 1:
			files = append(files, "/i.jet", `{{ extends "/r1.jet" }}IGN`, "/r1.jet", body)
		default:
			files = append(files, "/i.jet", `{{ extends "/r1.jet" }}IGN`, "/r1.jet", `{{ extends "/r2.jet" }}IGN1`, "/r2.jet", body)
		}
	}
	set := hxSet(nil, files...)
	ivars := make(VarMap)
	ivars.Set("cv", "V")
	out, err := hxExec(set, "/main.jet", ivars, "D")
	vfAssert(err == nil, "renders")
	if exists {
		vfReach("exists")
		ctx := "D"
		if withCtx {
			ctx = "C"
		}
		vfAssert(out == "OWN[<V"+ctx+">Y]DOWN", "existing template included in place; evaluates to true; the caller's blocks are intact afterwards")
	} else {
		vfReach("missing")
		vfAssert(out == "OWN[N]DOWN", "missing template renders nothing; evaluates to false")
	}
}

// H_C09_brokenTarget: include / exec / includeIfExists of a template that exists but
// does not parse is an error (not "missing"), on the first call and on a repeated one.
//
//gosym:reach failed
func H_C09_brokenTarget() {
	form := ndChoice("form", 3)
	calls := []string{`{{ include "/broken.jet" }}`, `{{ exec("/broken.jet") }}`, `{{ if includeIfExists("/broken.jet") }}Y{{ else }}N{{ end }}`}
	set := hxSet(nil, "/main.jet", `A`+calls[form]+`B`, "/broken.jet", `x{{ if }}`)
	_, err := hxExec(set, "/main.jet", nil, nil)
	vfReach("failed")
	vfAssert(err != nil, "a template that exists but cannot be parsed is an error")
	_, err2 := hxExec(set, "/main.jet", nil, nil)
	vfAssert(err2 != nil, "... also when asked again")
}

// H_C09_sites: an include / exec / includeIfExists call - with and without an explicit
// context, its template name written as an absolute literal, computed, or (include only)
// relative to the including file - placed at the top level, in a range body, a block with
// its own context, the content of a yield, a try body, and inside another included
// template in a sub-directory (relative name resolved against that file): the target sees
// the includer's variables and blocks and the given (else the site's current) context;
// afterwards '.' is the site's again and nothing the target declared is visible.
//
//gosym:reach include,exec,ifexists
func H_C09_sites() {
	kind := ndChoice("kind", 3)
	withCtx := ndBool("ctx")
	nameForm := ndChoice("name", 3) // 0 absolute literal, 1 computed, 2 relative (include only)
	site := ndChoice("site", 6)
	v := ndString("v", 1)
	vfAssume(kind == 0 || nameForm != 2)
	target := "i.jet"
	if kind == 1 {
		target = "e.jet"
	}
	var name string
	switch nameForm {
	case 0:
		name = `"/sub/` + target + `"`
	case 1:
		name = `"/sub/" + fname`
	default:
		name = `"sub/` + target + `"`
		if site == 5 {
			name = `"./` + target + `"` // the call lives in /sub/mid.jet
		}
	}
	ctxArg := ""
	var call string
	switch kind {
	case 0:
		if withCtx {
			ctxArg = ` "C"`
		}
		call = `{{ include ` + name + ctxArg + ` }}`
	case 1:
		if withCtx {
			ctxArg = `, "C"`
		}
		call = `[{{ exec(` + name + ctxArg + `) }}]`
	default:
		if withCtx {
			ctxArg = `, "C"`
		}
		call = `{{ if includeIfExists(` + name + ctxArg + `) }}Y{{ end }}{{ if includeIfExists("/sub/nope.jet") }}Z{{ end }}`
	}
	probe := `({{ . }}{{ isset(leak) }})`
	dot := "D"
	var body string
	switch site {
	case 0:
		body = call + probe
	case 1:
		body, dot = `{{ range r }}`+call+probe+`{{ end }}`, "e"
	case 2:
		body, dot = `{{ block bb() "B" }}`+call+probe+`{{ end }}`, "B"
	case 3:
		body = `{{ yield wrap() content }}` + call + probe + `{{ end }}`
	case 4:
		body = `{{ try }}` + call + probe + `{{ end }}`
	default:
		body = `{{ include "/sub/mid.jet" }}`
	}
	set := hxSet([]Option{WithSafeWriter(nil)},
		"/lib.jet", `{{ block wrap() }}<{{ yield content }}>{{ end }}`,
		"/main.jet", `{{ import "/lib.jet" }}{{ block own() }}O{{ end }}{{ v2 := v }}`+body+`|{{ . }}{{ isset(leak) }}`,
		"/sub/mid.jet", `M`+call+probe,
		"/sub/i.jet", `I[{{ . }}|{{ v2 }}|{{ yield own() }}]{{ leak := 1 }}`,
		"/sub/e.jet", `noise{{ leak := 1 }}{{ return . + v2 + "R" }}more`,
	)
	vars := make(VarMap)
	vars.Set("v", v)
	vars.Set("fname", target)
	vars.Set("r", []string{"e"})
	out, err := hxExec(set, "/main.jet", vars, "D")
	vfAssert(err == nil, "renders")
	ctx := dot
	if withCtx {
		ctx = "C"
	}
	var want string
	switch kind {
	case 0:
		vfReach("include")
		want = "I[" + ctx + "|" + v + "|O]"
	case 1:
		vfReach("exec")
		want = "[" + ctx + v + "R]"
	default:
		vfReach("ifexists")
		want = "I[" + ctx + "|" + v + "|O]Y"
	}
	want += "(" + dot + "false)"
	switch site {
	case 3:
		want = "<" + want + ">"
	case 5:
		want = "M" + want
	}
	vfNote(out)
	vfAssert(out == "O"+want+"|Dfalse", "the call renders / evaluates as documented at this site and leaks nothing back")
}

// H_C09_computedTwice: one include / exec / includeIfExists call site whose template name
// is computed from data is executed several times with different names - in a range over
// three names (symbolic order), and again in a second Execute with another name: every
// execution resolves the name it is given (nothing about the target is remembered at the
// call site).
//
//gosym:reach rendered
func H_C09_computedTwice() {
	kind := ndChoice("kind", 3)
	names := []string{"a", "b", "c"}
	o1, o2, o3 := ndChoice("n1", 3), ndChoice("n2", 3), ndChoice("n3", 3)
	order := []string{names[o1], names[o2], names[o3]}
	second := names[ndChoice("second", 3)]
	call := []string{
		`{{ include "/t/" + n + ".jet" }}`,
		`{{ exec("/e/" + n + ".jet") }}`,
		`{{ if includeIfExists("/t/" + n + ".jet") }}{{ end }}`,
	}[kind]
	set := hxSet([]Option{WithSafeWriter(nil)},
		"/m.jet", `{{ range _, n := order }}`+call+`;{{ end }}`,
		"/one.jet", `{{ n := pick }}`+call,
		"/t/a.jet", `A`, "/t/b.jet", `B`, "/t/c.jet", `C`,
		"/e/a.jet", `x{{ return "ra" }}`, "/e/b.jet", `y{{ return "rb" }}`, "/e/c.jet", `z{{ return "rc" }}`,
	)
	vars := make(VarMap)
	vars.Set("order", order)
	out, err := hxExec(set, "/m.jet", vars, nil)
	vfReach("rendered")
	vfAssert(err == nil, "renders")
	want := ""
	up := map[string]string{"a": "A", "b": "B", "c": "C"}
	for _, n := range order {
		if kind == 1 {
			want += "r" + n + ";"
		} else {
			want += up[n] + ";"
		}
	}
	vfNote(out)
	vfAssert(out == want, "each execution of the call site resolves the name it computes")
	// the same call site in another template, executed twice with different data
	for _, pick := range []string{order[0], second} {
		v2 := make(VarMap)
		v2.Set("pick", pick)
		o, e := hxExec(set, "/one.jet", v2, nil)
		w := up[pick]
		if kind == 1 {
			w = "r" + pick
		}
		vfAssert(e == nil && o == w, "a later Execute with another name renders that template")
	}
}

// H_C09_sites2 (thorough): the same three calls placed inside two nested constructs (each of
// range, block with its own context, content of a yield, try, if) in the main file or in a
// template included from it, with and without an explicit context: the target sees the
// innermost '.', afterwards '.' is the innermost construct's again, and nothing leaks.
//
//gosym:reach include,exec,ifexists
//gosym:thorough-only
func H_C09_sites2() {
	kind := ndChoice("kind", 3)
	withCtx := ndBool("ctx")
	viaMid := ndBool("viaMid")
	s1, s2 := ndChoice("outer", 5), ndChoice("inner", 5)
	v := ndString("v", 1)
	target := "/sub/i.jet"
	ctxArg := ""
	var call string
	switch kind {
	case 0:
		if withCtx {
			ctxArg = ` "C"`
		}
		call = `{{ include "` + target + `"` + ctxArg + ` }}`
	case 1:
		if withCtx {
			ctxArg = `, "C"`
		}
		call = `[{{ exec("/sub/e.jet"` + ctxArg + `) }}]`
	default:
		if withCtx {
			ctxArg = `, "C"`
		}
		call = `{{ if includeIfExists("` + target + `"` + ctxArg + `) }}Y{{ end }}`
	}
	probe := `({{ . }}{{ isset(leak) }})`
	wrap := func(site int, tag string, body string, dot string) (string, string, string, string) {
		// returns source, the '.' inside, and the text the construct adds before / after
		switch site {
		case 0:
			return `{{ range r` + tag + ` }}` + body + `{{ end }}`, "e" + tag, "", ""
		case 1:
			return `{{ block bb` + tag + `() "B` + tag + `" }}` + body + `{{ end }}`, "B" + tag, "", ""
		case 2:
			return `{{ yield wrap() content }}` + body + `{{ end }}`, dot, "<", ">"
		case 3:
			return `{{ try }}` + body + `{{ end }}`, dot, "", ""
		}
		return `{{ if true }}` + body + `{{ end }}`, dot, "", ""
	}
	// dots are determined outside-in, sources are built inside-out
	_, d1, pre1, post1 := wrap(s1, "1", "", "D")
	_, d2, pre2, post2 := wrap(s2, "2", "", d1)
	innerSrc, _, _, _ := wrap(s2, "2", call+probe, d1)
	outerSrc, _, _, _ := wrap(s1, "1", innerSrc+probe, "D")
	main := outerSrc
	if viaMid {
		main = `{{ include "/sub/mid.jet" }}`
	}
	set := hxSet([]Option{WithSafeWriter(nil)},
		"/lib.jet", `{{ block wrap() }}<{{ yield content }}>{{ end }}`,
		"/main.jet", `{{ import "/lib.jet" }}{{ block own() }}O{{ end }}{{ v2 := v }}`+main+`|{{ . }}{{ isset(leak) }}`,
		"/sub/mid.jet", `M`+outerSrc,
		"/sub/i.jet", `I[{{ . }}|{{ v2 }}|{{ yield own() }}]{{ leak := 1 }}`,
		"/sub/e.jet", `noise{{ leak := 1 }}{{ return . + v2 + "R" }}more`,
	)
	vars := make(VarMap)
	vars.Set("v", v)
	vars.Set("r1", []string{"e1"})
	vars.Set("r2", []string{"e2"})
	out, err := hxExec(set, "/main.jet", vars, "D")
	vfAssert(err == nil, "renders")
	ctx := d2
	if withCtx {
		ctx = "C"
	}
	var want string
	switch kind {
	case 0:
		vfReach("include")
		want = "I[" + ctx + "|" + v + "|O]"
	case 1:
		vfReach("exec")
		want = "[" + ctx + v + "R]"
	default:
		vfReach("ifexists")
		want = "I[" + ctx + "|" + v + "|O]Y"
	}
	want = pre1 + pre2 + want + "(" + d2 + "false)" + post2 + "(" + d1 + "false)" + post1
	if viaMid {
		want = "M" + want
	}
	vfNote(out)
	vfAssert(out == "O"+want+"|Dfalse", "the call renders / evaluates as documented inside two nested constructs and leaks nothing back")
}

// H_C09_ctxForms: include / exec / includeIfExists with the template name written as a
// literal or computed from '.' (a field of the data), and the context argument absent, a
// string, a field of '.', the nil literal, or a missing map entry: the name is evaluated in
// the CALLER's context; the target runs with exactly the given context - a given nil
// context is nil, not the caller's - and the caller's '.' is back afterwards.
//
//gosym:reach include,exec,ifexists
func H_C09_ctxForms() {
	kind := ndChoice("kind", 3)
	nameFromDot := ndBool("nameFromDot")
	cf := ndChoice("ctx", 5)
	type data struct{ Tpl, Exe, Item string }
	d := data{"/sub/i.jet", "/sub/e.jet", "ITEM"}
	ctxSrc := []string{"", `"C"`, `.Item`, `nil`, `mm["absent"]`}[cf]
	wantCtx := []string{"DATA", "C", "ITEM", "nil", "nil"}[cf]
	name := `"/sub/i.jet"`
	if kind == 1 {
		name = `"/sub/e.jet"`
	}
	if nameFromDot {
		name = ".Tpl"
		if kind == 1 {
			name = ".Exe"
		}
	}
	var call string
	switch kind {
	case 0:
		call = `{{ include ` + name + ` ` + ctxSrc + ` }}`
	case 1:
		call = `[{{ exec(` + name + c08If(ctxSrc != "", ", "+ctxSrc) + `) }}]`
	default:
		call = `{{ if includeIfExists(` + name + c08If(ctxSrc != "", ", "+ctxSrc) + `) }}Y{{ end }}`
	}
	set := hxSet([]Option{WithSafeWriter(nil)},
		"/main.jet", call+`|{{ desc() }}`,
		"/sub/i.jet", `I[{{ desc() }}]`,
		"/sub/e.jet", `noise{{ return desc() }}`,
	)
	vars := make(VarMap)
	vars.Set("mm", map[string]string{"k": "v"})
	vars.SetFunc("desc", func(a Arguments) reflect.Value {
		c := a.Runtime().Context()
		for c.IsValid() && (c.Kind() == reflect.Interface || c.Kind() == reflect.Ptr) && !c.IsNil() {
			c = c.Elem()
		}
		switch {
		case !c.IsValid() || ((c.Kind() == reflect.Interface || c.Kind() == reflect.Ptr) && c.IsNil()):
			return reflect.ValueOf("nil")
		case c.Kind() == reflect.String:
			return reflect.ValueOf(c.String())
		case c.Kind() == reflect.Struct:
			return reflect.ValueOf("DATA")
		}
		return reflect.ValueOf("?")
	})
	out, err := hxExec(set, "/main.jet", vars, d)
	vfAssert(err == nil, "renders")
	var want string
	switch kind {
	case 0:
		vfReach("include")
		want = "I[" + wantCtx + "]"
	case 1:
		vfReach("exec")
		want = "[" + wantCtx + "]"
	default:
		vfReach("ifexists")
		want = "I[" + wantCtx + "]Y"
	}
	vfNote(out)
	vfAssert(out == want+"|DATA", "the name is evaluated in the caller's context; the target gets exactly the given context; the caller's '.' is back afterwards")
}

// H_C09_recursiveInclude: a template that includes itself with a base case (a tree
// renderer), and a partial that is included by a template it imports blocks from, in
// production and development mode and when the top template comes from Set.Parse: include
// is run-time recursion, not a reference cycle - it renders.
//
//gosym:reach rendered
func H_C09_recursiveInclude() {
	dev := ndBool("dev")
	viaParse := ndBool("viaParse")
	sc := ndChoice("scenario", 2)
	type node struct {
		Name string
		Kids []*node
	}
	tree := &node{"a", []*node{{"b", []*node{{"c", nil}}}, {"d", nil}}}
	l := NewInMemLoader()
	l.Set("/views/tree.jet", `({{ .Name }}{{ range .Kids }}{{ include "tree.jet" . }}{{ end }})`)
	l.Set("/lib.jet", `{{ import "/row.jet" }}{{ block table() }}[{{ include "/row.jet" }}]{{ end }}`)
	l.Set("/row.jet", `{{ block cell() }}c{{ end }}r`)
	page := `{{ include "/views/tree.jet" . }}`
	want := "(a(b(c))(d))"
	if sc == 1 {
		page, want = `{{ import "/lib.jet" }}{{ yield table() }}`, "[cr]"
	}
	l.Set("/page.jet", page)
	set := NewSet(l, DevelopmentMode(dev), WithSafeWriter(nil))
	var t *Template
	var err error
	if viaParse {
		t, err = set.Parse("/page.jet", page)
	} else {
		t, err = set.GetTemplate("/page.jet")
	}
	vfAssert(err == nil, "loads")
	if err != nil {
		return
	}
	var buf bytes.Buffer
	err = t.Execute(&buf, nil, tree)
	vfReach("rendered")
	vfAssert(err == nil, "a recursive include with a base case renders")
	vfNote(buf.String())
	vfAssert(buf.String() == want, "each include renders the named template with the given context")
}

// H_C09_failedIncludeInTry: an include that fails at run time below a range (which has
// rebound '.'), a declaration and a block table of its own, inside a try with or without a
// catch clause: afterwards the includer's '.', variables and blocks are its own again.
//
//gosym:reach rendered
func H_C09_failedIncludeInTry() {
	withCatch := ndBool("catch")
	inRange := ndBool("inRange")
	catch := ""
	if withCatch {
		catch = `{{ catch }}c`
	}
	inc := `{{ try }}{{ include "/bad.jet" }}{{ end }}`
	if withCatch {
		inc = `{{ try }}{{ include "/bad.jet" }}` + catch + `{{ end }}`
	}
	body := inc + `[{{ . }}|{{ isset(leak) }}|{{ yield greet() }}]`
	if inRange {
		body = `{{ range one }}` + body + `{{ end }}`
	}
	set := hxSet([]Option{WithSafeWriter(nil)},
		"/m.jet", `{{ block greet() }}hello{{ end }}|`+body,
		"/bad.jet", `{{ block greet() }}HIJACKED{{ end }}{{ range items }}{{ leak := 1 }}{{ fail() }}{{ end }}`,
	)
	vars := make(VarMap)
	vars.Set("items", []string{"item0"})
	vars.Set("one", []string{"e"})
	vars.SetFunc("fail", hxFail)
	out, err := hxExec(set, "/m.jet", vars, "outer")
	vfReach("rendered")
	vfAssert(err == nil, "the failure stays inside the try")
	dot := "outer"
	if inRange {
		dot = "e"
	}
	want := "hello|"
	if withCatch {
		want += "c"
	}
	want += "[" + dot + "|false|hello]"
	vfNote(out)
	vfAssert(out == want, "a failed include leaks no context, declaration or block back, with or without a catch clause")
}

// c09Stmt is statement form f written for slot k of an executed template: its source and
// the value of the return it executes ("" with ret=false when it executes none).
func c09Stmt(f, k int) (src string, val string, ret bool) {
	n := ndItoa(k)
	switch f {
	case 0:
		return "text", "", false
	case 1:
		return `{{ return "r` + n + `" }}`, "r" + n, true
	case 2:
		return `{{ return nil }}`, "", true
	case 3:
		return `{{ if yes }}{{ return "i` + n + `" }}{{ end }}`, "i" + n, true
	case 4:
		return `{{ if no }}{{ return "n` + n + `" }}{{ end }}`, "", false
	case 5:
		return `{{ if no }}x{{ else }}{{ return "e` + n + `" }}{{ end }}`, "e" + n, true
	case 6:
		return `{{ try }}{{ return "t` + n + `" }}{{ end }}`, "t" + n, true
	case 7:
		return `{{ include "/ret.jet" "c` + n + `" }}`, "c" + n, true
	case 8:
		return `{{ range s }}{{ if . == "e2" }}{{ return "g` + n + `" }}{{ end }}{{ end }}`, "g" + n, true
	case 9:
		return `{{ return m.absent }}`, "", true
	case 10:
		return `{{ try }}{{ fail() }}{{ catch }}c{{ end }}`, "", false
	case 11:
		return `{{ range none }}x{{ end }}`, "", false
	case 12:
		return `{{ if no }}x{{ else if no }}y{{ end }}`, "", false
	case 13: // round 8: a return in the else list of a range over an empty collection
		return `{{ range none }}x{{ else }}{{ return "z` + n + `" }}{{ end }}`, "z" + n, true
	case 14: // ... in a catch body
		return `{{ try }}{{ fail() }}{{ catch }}{{ return "h` + n + `" }}{{ end }}`, "h" + n, true
	case 15: // ... in an else-if branch
		return `{{ if no }}x{{ else if yes }}{{ return "f` + n + `" }}{{ end }}`, "f" + n, true
	default: // ... in the else list of a range that has elements: not executed
		return `{{ range s }}{{ else }}{{ return "q` + n + `" }}{{ end }}`, "", false
	}
}

// H_C09_returnSequences: an executed template made of three statements, each one of
// seventeen forms - text, a return of a string / of nil / of an absent map entry, a return
// inside an if or else branch that runs or not, inside try, in an included file, inside a
// range, in the else list of an empty range, in a catch body, in an else-if branch, and
// constructs that return nothing (the else list of a non-empty range, a caught failure, an empty range, an if chain
// of which no branch runs): exec evaluates to the value given to the last return that was
// executed, whatever came before or comes after it.
//
//gosym:reach returned
func H_C09_returnSequences() {
	src, want := "", ""
	for k := 0; k < 3; k++ {
		s, v, ret := c09Stmt(ndChoice("stmt"+ndItoa(k), 17), k)
		src += s
		if ret {
			want = v
		}
	}
	set := hxSet(nil,
		"/main.jet", `[{{ exec("/e.jet") }}]<{{ . }}>`,
		"/e.jet", src,
		"/ret.jet", `{{ return . }}`,
	)
	vars := make(VarMap)
	vars.Set("s", []string{"e1", "e2"})
	vars.Set("none", []string{})
	vars.Set("m", map[string]string{})
	vars.Set("yes", true)
	vars.Set("no", false)
	vars.SetFunc("fail", hxFail)
	out, err := hxExec(set, "/main.jet", vars, "D")
	vfReach("returned")
	vfAssert(err == nil, "renders")
	vfNote(src)
	vfNote(out)
	vfAssert(out == "["+want+"]<D>", "exec evaluates to the value of the last return executed; '.' of the caller is untouched")
}

// H_C09_nestedNilReturn: a return of nil executed inside an if, try, range or included
// file after a return of a value: it is the last return executed, so exec evaluates to nil.
// (Failed on the pinned tree - the value of the earlier return survived - and was first
// recorded as a known finding; repaired by fix 2f91add.)
//
//gosym:reach returned
func H_C09_nestedNilReturn() {
	wrap := ndChoice("wrap", 5)
	inner := []string{
		`{{ if yes }}{{ return nil }}{{ end }}`,
		`{{ try }}{{ return nil }}{{ end }}`,
		`{{ include "/nil.jet" }}`,
		`{{ range s }}{{ return nil }}{{ end }}`,
		`{{ if yes }}{{ return m.absent }}{{ end }}`,
	}[wrap]
	set := hxSet(nil,
		"/main.jet", `[{{ exec("/e.jet") }}]`,
		"/e.jet", `{{ return "a" }}`+inner,
		"/nil.jet", `{{ return nil }}`,
	)
	vars := make(VarMap)
	vars.Set("s", []string{"e1", "e2"})
	vars.Set("m", map[string]string{})
	vars.Set("yes", true)
	out, err := hxExec(set, "/main.jet", vars, nil)
	vfReach("returned")
	vfAssert(err == nil, "renders")
	vfNote(out)
	vfAssert(out == "[]", "a nested return of nil is the last return executed")
}

type c09Name string

type c09Page struct {
	Part  c09Name
	Parts []c09Name
}

// H_C09_extendingTarget: the target of include / includeIfExists / exec extends a layout
// and overrides one of the layout's blocks (another is left at its default): the layout's
// body is rendered with the target's own definitions - at the top level, with an explicit
// context, and once per element inside a range; the template name is a string literal, a
// string variable, or a value of a named string type (variable, struct field, slice element).
//
//gosym:reach rendered
func H_C09_extendingTarget() {
	kind := ndChoice("kind", 3)
	nameForm := ndChoice("name", 5)
	name := []string{`"/ui/card.jet"`, `sname`, `nname`, `.Part`, `.Parts[1]`}[nameForm]
	var call1, callR string
	switch kind {
	case 0:
		call1, callR = `{{ include `+name+` "ann" }}`, `{{ include pg.Part . }}`
	case 1:
		call1, callR = `{{ if includeIfExists(`+name+`, "ann") }}{{ end }}`, `{{ if includeIfExists(pg.Part, .) }}{{ end }}`
	default:
		call1, callR = `{{ exec(`+name+`, "ann") }}`, `{{ exec(pg.Part, .) }}`
	}
	ret := ""
	if kind == 2 {
		ret = `{{ return "R" }}` // (a value returned through include would end the caller's range)
	}
	set := hxSet(nil,
		"/ui/page.jet", `{{ block title() }}page-title{{ end }}[`+call1+`]{{ range names }}(`+callR+`){{ end }}{{ yield title() }}`,
		"/ui/card.jet", `{{ extends "cardbase.jet" }}{{ block title() }}card:{{ . }}{{ end }}{{ block extra() }}x{{ end }}`,
		"/ui/cardbase.jet", `{{ block title() }}default-title{{ end }}|{{ block body() }}default-body{{ end }}|{{ yield title() }}`+ret,
	)
	pg := c09Page{Part: "/ui/card.jet", Parts: []c09Name{"/nope.jet", "/ui/card.jet"}}
	vars := make(VarMap)
	vars.Set("sname", "/ui/card.jet")
	vars.Set("nname", c09Name("/ui/card.jet"))
	vars.Set("pg", pg)
	vars.Set("names", []string{"bob", "cy"})
	out, err := hxExec(set, "/ui/page.jet", vars, pg)
	vfReach("rendered")
	vfAssert(err == nil, "renders")
	one := func(c string) string { return "card:" + c + "|default-body|card:" + c }
	want := "page-title[" + one("ann") + "](" + one("bob") + ")(" + one("cy") + ")page-title"
	if kind == 2 {
		want = "page-title[R](R)(R)page-title"
	}
	vfNote(out)
	vfAssert(out == want, "the target's own blocks are in effect while its layout renders; the caller's afterwards")
}
