package jet

// ---- C09: include renders in place with the caller's variables; exec returns a value ----

// H_C09_include: include renders the named template at that point with the includer's
// variables and blocks visible and the given (or current) context, leaks no declaration or
// context change back, and an included template that extends others renders its root.
//
//gosym:reach rendered
func H_C09_include() {
	withCtx := ndBool("ctx")
	chain := ndChoice("chain", 3) // 0: plain, 1: extends one level, 2: extends two levels
	v := ndString("v", 1)
	inc := `{{ include "/i.jet" }}`
	if withCtx {
		inc = `{{ include "/i.jet" "C" }}`
	}
	body := `<{{ cv }}|{{ . }}|{{ yield callerBlock() }}{{ iy := 1 }}>`
	files := []string{
		"/main.jet", `{{ block callerBlock() }}CB{{ end }}{{ cv := v }}[` + inc + `]{{ isset(iy) }}|{{ . }}|{{ cv }}{{ yield callerBlock() }}`,
	}
	switch chain {
	case 0:
		files = append(files, "/i.jet", body)
	case 1:
		files = append(files, "/i.jet", `{{ extends "/r1.jet" }}IGN`, "/r1.jet", body)
	default:
		files = append(files, "/i.jet", `{{ extends "/r1.jet" }}IGN`, "/r1.jet", `{{ extends "/r2.jet" }}IGN1`, "/r2.jet", body)
	}
	set := hxSet([]Option{WithSafeWriter(nil)}, files...)
	vars := make(VarMap)
	vars.Set("v", v)
	out, err := hxExec(set, "/main.jet", vars, "D")
	vfReach("rendered")
	vfAssert(err == nil, "renders")
	ctx := "D"
	if withCtx {
		ctx = "C"
	}
	vfNote(out)
	vfAssert(out == "CB[<"+v+"|"+ctx+"|CB>]false|D|"+v+"CB", "included in place with the caller's variables, blocks and context; nothing leaks back")
}

// c09Exec: templates run by exec and the value the last executed return gives (or "" for nil).
var c09Exec = [][2]string{
	{`text only`, ""},
	{`{{ return "r1" }}`, "r1"},
	{`a{{ return "r1" }}b`, "r1"},
	{`{{ return "r1" }}{{ if true }}x{{ end }}`, "r1"},
	{`{{ return "r1" }}{{ range s }}x{{ end }}`, "r1"},
	{`{{ return "r1" }}{{ try }}x{{ end }}`, "r1"},
	{`{{ return "r1" }}{{ include "/plain.jet" }}`, "r1"},
	{`{{ return "r1" }}{{ return "r2" }}`, "r2"},
	{`{{ if true }}{{ return "r1" }}{{ end }}`, "r1"},
	{`{{ if false }}{{ return "r1" }}{{ end }}`, ""},
	{`{{ range s }}{{ return . }}{{ end }}`, "e1"},
	{`{{ try }}{{ return "r1" }}{{ end }}`, "r1"},
	{`{{ include "/ret.jet" }}`, "r3"},
	{`{{ block bb() }}{{ return "r1" }}{{ end }}`, ""},
	{`{{ x := "r1" }}{{ return x }}`, "r1"},
	{`{{ try }}{{ fail() }}{{ catch }}{{ return "r1" }}{{ end }}`, "r1"},
	{`{{ try }}{{ fail() }}{{ catch e }}{{ return "r1" }}{{ end }}tail`, "r1"},
	{`{{ return "r0" }}{{ try }}{{ fail() }}{{ catch }}c{{ end }}`, "r0"},
	{`{{ range s }}{{ if . == "e2" }}{{ return . }}{{ end }}{{ end }}`, "e2"},
	{`{{ yield rb() }}`, ""},
}

// H_C09_exec: exec runs a template like include but discards all of its output (text,
// actions, nested try, a renderer writing to the Runtime's writer) and evaluates to the
// value of the last return statement executed (nil if none); the caller's output
// destination is in effect again afterwards, also when the executed template fails.
//
//gosym:reach returned
func H_C09_exec() {
	c := ndChoice("tmpl", len(c09Exec))
	chain := ndChoice("chain", 3)
	body := `{{ import "/rblib.jet" }}noise<{{ "x" }}{{ try }}t{{ end }}` + c09Exec[c][0]
	files := []string{
		"/main.jet", `{{ block own() }}O{{ end }}[{{ exec("/e.jet") }}]after{{ yield own() }}`,
		"/plain.jet", `p`,
		"/ret.jet", `{{ return "r3" }}`,
		"/rblib.jet", `{{ block rb() }}{{ return "inblock" }}{{ end }}`,
	}
	switch chain {
	case 0:
		files = append(files, "/e.jet", body)
	case 1:
		files = append(files, "/e.jet", `{{ extends "/r1.jet" }}IGN`, "/r1.jet", body)
	default:
		files = append(files, "/e.jet", `{{ extends "/r1.jet" }}IGN`, "/r1.jet", `{{ extends "/r2.jet" }}IGN1`, "/r2.jet", body)
	}
	set := hxSet(nil, files...)
	vars := make(VarMap)
	vars.Set("s", []string{"e1", "e2"})
	vars.SetFunc("fail", hxFail)
	out, err := hxExec(set, "/main.jet", vars, nil)
	vfReach("returned")
	vfAssert(err == nil, "renders")
	vfNote(out)
	vfAssert(out == "O["+c09Exec[c][1]+"]afterO", "output discarded; value of the last executed return; writer and blocks restored")
}

// H_C09_execFails: when the executed template fails, the error propagates and the
// caller's writer is back in place (text after a surrounding try is rendered).
//
//gosym:reach rendered
func H_C09_execFails() {
	set := hxSet(nil,
		"/main.jet", `A{{ try }}{{ exec("/e.jet") }}{{ catch }}C{{ end }}B`,
		"/e.jet", `x{{ fail() }}y`,
	)
	vars := make(VarMap)
	vars.SetFunc("fail", hxFail)
	out, err := hxExec(set, "/main.jet", vars, nil)
	vfReach("rendered")
	vfAssert(err == nil, "the failure is caught by the caller's try")
	vfAssert(out == "ACB", "the caller's output destination is restored after a failing exec")
}

// H_C09_includeIfExists: behaves like include when the template exists (rendering it, with
// the optional context, root ancestor for an extends chain) and evaluates to true; renders
// nothing and evaluates to false when it does not exist.
//
//gosym:reach exists,missing
func H_C09_includeIfExists() {
	exists := ndBool("exists")
	chain := ndChoice("chain", 3)
	withCtx := ndBool("ctx")
	call := `includeIfExists("/i.jet")`
	if withCtx {
		call = `includeIfExists("/i.jet", "C")`
	}
	files := []string{"/main.jet", `{{ block own() }}OWN{{ end }}[{{ if ` + call + ` }}Y{{ else }}N{{ end }}]{{ . }}{{ yield own() }}{{ try }}{{ yield theirs() }}LEAK{{ catch }}{{ end }}`}
	body := `{{ block theirs() }}{{ end }}<{{ cv }}{{ . }}>`
	if exists {
		switch chain {
		case 0:
			files = append(files, "/i.jet", body)
		case 1:
			files = append(files, "/i.jet", `{{ extends "/r1.jet" }}IGN`, "/r1.jet", body)
		default:
			files = append(files, "/i.jet", `{{ extends "/r1.jet" }}IGN`, "/r1.jet", `{{ extends "/r2.jet" }}IGN1`, "/r2.jet", body)
		}
	}
	set := hxSet(nil, files...)
	ivars := make(VarMap)
	ivars.Set("cv", "V")
	out, err := hxExec(set, "/main.jet", ivars, "D")
	vfAssert(err == nil, "renders")
	if exists {
		vfReach("exists")
		ctx := "D"
		if withCtx {
			ctx = "C"
		}
		vfAssert(out == "OWN[<V"+ctx+">Y]DOWN", "existing template included in place; evaluates to true; the caller's blocks are intact afterwards")
	} else {
		vfReach("missing")
		vfAssert(out == "OWN[N]DOWN", "missing template renders nothing; evaluates to false")
	}
}

// H_C09_brokenTarget: include / exec / includeIfExists of a template that exists but
// does not parse is an error (not "missing"), on the first call and on a repeated one.
//
//gosym:reach failed
func H_C09_brokenTarget() {
	form := ndChoice("form", 3)
	calls := []string{`{{ include "/broken.jet" }}`, `{{ exec("/broken.jet") }}`, `{{ if includeIfExists("/broken.jet") }}Y{{ else }}N{{ end }}`}
	set := hxSet(nil, "/main.jet", `A`+calls[form]+`B`, "/broken.jet", `x{{ if }}`)
	_, err := hxExec(set, "/main.jet", nil, nil)
	vfReach("failed")
	vfAssert(err != nil, "a template that exists but cannot be parsed is an error")
	_, err2 := hxExec(set, "/main.jet", nil, nil)
	vfAssert(err2 != nil, "... also when asked again")
}
