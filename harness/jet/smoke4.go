package jet

func H_smoke_parseerr() {
	l := &c15Loader{files: map[string]string{}}
	set := NewSet(l)
	_, err := set.Parse("/a", `{{extends "x"}}`)
	vfAssert(err != nil, "err")
	vfAssert(vfLive() == 0, "no goroutine left")
}
