package embedfs

import (
	"embed"
	"io/ioutil"
)

//go:embed testData
var c19FS embed.FS

// H_C19_embedfs: the embed loader over the repository's own embedded test data, for
// several spellings of the root directory and every clean absolute path of a small
// universe (files, directories, missing entries, nested directories): Exists(p) is true
// exactly for the regular files below the root, and whenever it is true Open(p) yields the
// file's content.
//
//gosym:reach file,notfile
func H_C19_embedfs() {
	vfEmbedRoot("/repo/loaders/embedfs", "testData")
	roots := []string{"testData/includeIfNotExists", "testData/includeIfNotExists/", "testData", "testData/", "./testData/includeIfNotExists", "."}
	rootDirs := []string{"testData/includeIfNotExists", "testData/includeIfNotExists", "testData", "testData", "testData/includeIfNotExists", ""}
	paths := []string{"/existent.jet", "/exists.jet", "/nope.jet", "/", "/includeIfNotExists", "/includeIfNotExists/existent.jet", "/testData/includeIfNotExists/wcontext.jet", "/testData", "/loader.go"}
	r := ndChoice("root", len(roots))
	p := ndChoice("path", len(paths))
	l := NewLoader(roots[r], c19FS)
	// reference: the regular files below the embedded directory, as listed on disk
	files := map[string]bool{}
	for _, e := range vfListTree("/repo/loaders/embedfs") {
		if len(e) > 10 && e[:10] == "/testData/" && e[len(e)-1] != '/' {
			files[e[1:]] = true
		}
	}
	full := rootDirs[r] + paths[p]
	if rootDirs[r] == "" {
		full = paths[p][1:]
	}
	want := files[full]
	got := l.Exists(paths[p])
	vfAssert(got == want, "Exists reports exactly the regular files below the root")
	if want {
		vfReach("file")
		f, err := l.Open(paths[p])
		vfAssert(err == nil, "whenever Exists(p) is true, Open(p) succeeds")
		if err == nil {
			b, rerr := ioutil.ReadAll(f)
			vfAssert(rerr == nil && len(b) > 0, "... and yields the file's content")
			f.Close()
		}
	} else {
		vfReach("notfile")
	}
}
