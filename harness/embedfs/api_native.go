package embedfs

import (
	"encoding/json"
	"math"
	"os"
	"runtime"
	"time"
)

func ndLiveGoroutines() int {
	for k := 0; k < 20; k++ {
		runtime.Gosched()
		if runtime.NumGoroutine() <= vfBaseGoroutines+1 {
			break
		}
		time.Sleep(5 * time.Millisecond)
	}
	n := runtime.NumGoroutine() - vfBaseGoroutines - 1
	if n < 0 {
		n = 0
	}
	return n
}

var ndModelMap map[string]uint64

func ndModel(name string) uint64 {
	if ndModelMap == nil {
		ndModelMap = map[string]uint64{}
		if p := os.Getenv("GOSYM_MODEL"); p != "" {
			b, err := os.ReadFile(p)
			if err == nil {
				var raw struct {
					Model map[string]uint64 `json:"model"`
				}
				if json.Unmarshal(b, &raw) == nil && raw.Model != nil {
					ndModelMap = raw.Model
				}
			}
		}
	}
	return ndModelMap[name]
}

func ndFloatFromBits(b uint64) float64 { return math.Float64frombits(b) }
