package main

import (
	"encoding/json"
	"flag"
	"fmt"
	"math/rand"
	"os"
	"path/filepath"
	"regexp"
	"sort"
	"strconv"
	"strings"
	"time"

	"gosym/interp"
)

// harnessMeta is parsed from the harness sources.
type harnessMeta struct {
	Name     string
	Dir      string   // directory under /verif/harness
	Prop     string   // C01..C20 (from the name H_Cxx_...)
	Reach    []string // labels that must be reached on at least one feasible path
	Thorough bool     // only run in the thorough tier
	Opts     map[string]int64
	Doc      string
}

var metaRe = regexp.MustCompile(`(?m)((?:^//.*\n)*)^func (H_(C\d\d)_\w+)\(\)`)

func scanHarnesses(verifDir string) (map[string]*harnessMeta, error) {
	out := map[string]*harnessMeta{}
	for hd := range harnessDirs {
		dir := filepath.Join(verifDir, "harness", hd)
		ents, err := os.ReadDir(dir)
		if err != nil {
			continue
		}
		for _, e := range ents {
			if !strings.HasSuffix(e.Name(), ".go") {
				continue
			}
			src, err := os.ReadFile(filepath.Join(dir, e.Name()))
			if err != nil {
				return nil, err
			}
			for _, m := range metaRe.FindAllSubmatch(src, -1) {
				hm := &harnessMeta{Name: string(m[2]), Dir: hd, Prop: string(m[3]), Opts: map[string]int64{}}
				for _, line := range strings.Split(string(m[1]), "\n") {
					line = strings.TrimSpace(strings.TrimPrefix(line, "//"))
					switch {
					case strings.HasPrefix(line, "gosym:reach "):
						for _, l := range strings.Split(strings.TrimPrefix(line, "gosym:reach "), ",") {
							if l = strings.TrimSpace(l); l != "" {
								hm.Reach = append(hm.Reach, l)
							}
						}
					case strings.HasPrefix(line, "gosym:thorough-only"):
						hm.Thorough = true
					case strings.HasPrefix(line, "gosym:opts "):
						for _, kv := range strings.Fields(strings.TrimPrefix(line, "gosym:opts ")) {
							p := strings.SplitN(kv, "=", 2)
							if len(p) == 2 {
								n, _ := strconv.ParseInt(p[1], 10, 64)
								hm.Opts[p[0]] = n
							}
						}
					default:
						if line != "" && hm.Doc == "" {
							hm.Doc = line
						}
					}
				}
				out[hm.Name] = hm
			}
		}
	}
	return out, nil
}

type knownFinding struct {
	Status   string            `json:"status"` // known | fixed
	Property string            `json:"property"`
	Harness  string            `json:"harness,omitempty"`
	Label    string            `json:"label,omitempty"`
	Where    map[string]uint64 `json:"where,omitempty"` // model values that identify the finding
	MsgHas   string            `json:"msg_contains,omitempty"`
	Commit   string            `json:"commit,omitempty"`
	What     string            `json:"what"`
}

func loadFindings(verifDir string) []knownFinding {
	b, err := os.ReadFile(filepath.Join(verifDir, "known_findings.json"))
	if err != nil {
		return nil
	}
	var f []knownFinding
	json.Unmarshal(b, &f)
	return f
}

func (k *knownFinding) matches(prop, harness string, v *interp.Violation) bool {
	if k.Status != "known" || k.Property != prop {
		return false
	}
	if k.Harness != "" && k.Harness != harness {
		return false
	}
	if k.Label != "" && k.Label != v.Label {
		return false
	}
	if k.MsgHas != "" && !strings.Contains(v.Msg, k.MsgHas) {
		return false
	}
	for name, val := range k.Where {
		if v.Model[name] != val {
			return false
		}
	}
	return true
}

type replayFile struct {
	Property string            `json:"property"`
	Harness  string            `json:"harness"`
	Dir      string            `json:"dir"`
	Label    string            `json:"label"`
	Msg      string            `json:"msg"`
	Tier     int               `json:"tier"`
	Model    map[string]uint64 `json:"model"`
	Notes    []string          `json:"notes,omitempty"`
	Native   string            `json:"native_outcome,omitempty"`
}

// confirms reports whether the native outcome reproduces the engine's violation.
func confirms(v *interp.Violation, r nativeResult) bool {
	switch v.Label {
	case "panic":
		return r.Outcome == "panic" || r.Outcome == "crash"
	case "crash":
		if strings.Contains(v.Msg, "unbounded recursion") && r.Outcome == "timeout" {
			// natively an unbounded recursion ends in a fatal stack overflow or, when every
			// level is slow (a lexer goroutine per level), does not end within the limit
			return true
		}
		return r.Outcome == "crash" || r.Outcome == "panic"
	case "deadlock", "hang":
		return r.Outcome == "timeout"
	}
	if strings.HasPrefix(v.Label, "lock: ") || strings.HasPrefix(v.Label, "race: ") {
		// natively a lock-discipline violation shows as a data race or a crash under the race
		// detector's stress run - or, when a lock is left held, as a hang of the next writer
		return r.Outcome == "race" || r.Outcome == "crash" || (strings.HasPrefix(v.Label, "lock: ") && r.Outcome == "timeout")
	}
	if r.Outcome == "fail" {
		for _, l := range r.Labels {
			if l == v.Label {
				return true
			}
		}
	}
	// an assertion placed after a crash point: a crash also demonstrates the violation
	return false
}

func cmdCheck(args []string) int {
	fs := flag.NewFlagSet("check", flag.ExitOnError)
	tierS := fs.String("tier", envOr("VERIF_TIER", "quick"), "quick or thorough")
	workers := fs.Int("workers", 0, "number of workers (default: all cores)")
	only := fs.String("only", "", "run only this harness")
	noEvidence := fs.Bool("no-evidence", false, "do not write the evidence file")
	if len(args) < 1 {
		fmt.Fprintln(os.Stderr, "usage: gosym check <id> [--tier quick|thorough]")
		return 2
	}
	id := args[0]
	fs.Parse(args[1:])
	tier := 0
	if *tierS == "thorough" {
		tier = 1
	}
	seed, _ := strconv.ParseInt(envOr("VERIF_SEED", "1"), 10, 64)
	repo := envOr("GOSYM_REPO", "/repo")
	verif := envOr("GOSYM_VERIF", "/verif")
	start := time.Now()

	metas, err := scanHarnesses(verif)
	if err != nil {
		fmt.Fprintln(os.Stderr, "scan:", err)
		return 2
	}
	var hs []*harnessMeta
	for _, m := range metas {
		if m.Prop == id && (*only == "" || *only == m.Name) {
			if m.Thorough && tier == 0 {
				continue
			}
			hs = append(hs, m)
		}
	}
	sort.Slice(hs, func(a, b int) bool { return hs[a].Name < hs[b].Name })
	if len(hs) == 0 {
		fmt.Fprintf(os.Stderr, "no harness for property %s\n", id)
		return 2
	}
	p, err := loadProgram(repo, verif)
	if err != nil {
		fmt.Fprintln(os.Stderr, "INCONCLUSIVE: cannot load /repo with the harness overlay:", err)
		return 2
	}
	nw := *workers
	if nw <= 0 {
		nw = 16
	}
	opts := interp.DefaultOptions()
	opts.Workers = nw
	opts.Tier = tier
	if tier == 1 {
		opts.QueryTimeoutMs = 60000
		opts.MaxSamples = 24
	}
	pool, err := interp.NewPool(p.cfg, nw, opts)
	if err != nil {
		fmt.Fprintln(os.Stderr, "INCONCLUSIVE: engine start failed:", err)
		return 2
	}
	defer pool.Close()

	findings := loadFindings(verif)
	rng := rand.New(rand.NewSource(seed))
	ev := newEvidence(id, tier, seed)
	inconclusive := []string{}
	violations := 0
	replayDir := filepath.Join(verif, "replays", id)

	for _, hm := range hs {
		h := p.findHarness(hm.Name)
		if h == nil {
			inconclusive = append(inconclusive, "harness function missing: "+hm.Name)
			continue
		}
		o := opts
		if v, ok := hm.Opts["maxpaths"]; ok {
			o.MaxPaths = int(v)
		}
		if v, ok := hm.Opts["steps"]; ok {
			o.MaxSteps = v
		}
		if v, ok := hm.Opts["decisions"]; ok {
			o.MaxDecisions = int(v)
		}
		if v, ok := hm.Opts["workers"]; ok && int(v) < o.Workers {
			o.Workers = int(v)
		}
		if v, ok := hm.Opts["sample"]; ok {
			o.SampleEvery = int(v)
		}
		if v, ok := hm.Opts["maxviol"]; ok {
			o.MaxViolations = int(v)
		}
		if v, ok := hm.Opts["wall"]; ok {
			o.MaxWallS = float64(v)
		}
		hr := pool.Run(h, o)
		fmt.Fprintf(os.Stderr, "[%s] paths=%d %v decisions=%d asserts=%d/%d unk=%d wall=%.1fs solver=%.1fs\n",
			hm.Name, hr.Paths, hr.Outcomes, hr.Decisions, hr.AssertsOK, hr.AssertsOK+hr.AssertsUnk, hr.Unknowns, hr.Wall, hr.Solver.Seconds)
		ev.addHarness(hm, hr)

		// problems that make the harness inconclusive
		for m, n := range hr.ProblemMsgs {
			inconclusive = append(inconclusive, fmt.Sprintf("%s: %d path(s): %s", hm.Name, n, firstLine(m)))
			fmt.Fprintf(os.Stderr, "   PROBLEM x%d: %s\n", n, m)
		}
		if hr.AssertsUnk > 0 {
			inconclusive = append(inconclusive, fmt.Sprintf("%s: %d assertion queries answered unknown", hm.Name, hr.AssertsUnk))
		}
		if hr.Solver.Errors > 0 {
			inconclusive = append(inconclusive, fmt.Sprintf("%s: solver reported %d errors", hm.Name, hr.Solver.Errors))
		}
		if hr.PathCapHit {
			inconclusive = append(inconclusive, fmt.Sprintf("%s: path cap reached with work remaining", hm.Name))
		}
		for _, l := range hm.Reach {
			if hr.Reach[l] == 0 && len(hr.Violations) == 0 {
				inconclusive = append(inconclusive, fmt.Sprintf("%s: reachability witness %q not hit (vacuous?)", hm.Name, l))
			}
		}

		// --- replay violation candidates natively ---
		type group struct{ vs []interp.Violation }
		groups := map[string]*group{}
		var order []string
		for _, v := range hr.Violations {
			gk := v.Label
			if v.Label == "panic" || v.Label == "crash" {
				m := v.Msg
				if len(m) > 90 {
					m = m[:90]
				}
				gk = v.Label + "|" + m
			}
			if strings.HasPrefix(v.Label, "race: ") {
				// one native confirmation (a stress run under the Go race detector) per
				// harness: the labels differ in the pair of code locations only
				gk = "race"
			}
			// candidates that a listed known finding describes are replayed in a group of
			// their own, so that they cannot stand in for a different violation under the
			// same label
			for k := range findings {
				if findings[k].matches(id, hm.Name, &v) {
					gk += fmt.Sprintf("|known#%d", k)
					break
				}
			}
			g := groups[gk]
			if g == nil {
				g = &group{}
				groups[gk] = g
				order = append(order, gk)
			}
			if len(g.vs) < 3 {
				g.vs = append(g.vs, v)
			}
		}
		for _, label := range order {
			g := groups[label]
			confirmed := -1
			var res []nativeResult
			var rerr error
			for k := range g.vs {
				var r1 []nativeResult
				r1, rerr = runNative(repo, verif, hm.Dir, []nativeCase{{Harness: hm.Name, Model: g.vs[k].Model, Tier: tier}}, 20*time.Second)
				if rerr != nil {
					break
				}
				res = append(res, r1[0])
				if confirms(&g.vs[k], r1[0]) {
					confirmed = k
					break
				}
			}
			if rerr != nil {
				inconclusive = append(inconclusive, fmt.Sprintf("%s: native replay failed: %v", hm.Name, rerr))
				continue
			}
			if confirmed < 0 {
				inconclusive = append(inconclusive, fmt.Sprintf("%s: SPURIOUS counterexample for %q (native outcome %s %v %s); model %v",
					hm.Name, label, res[0].Outcome, res[0].Labels, res[0].Msg, g.vs[0].Model))
				ev.Spurious++
				continue
			}
			v := g.vs[confirmed]
			ev.Replayed++
			known := false
			for k := range findings {
				if findings[k].matches(id, hm.Name, &v) {
					fmt.Printf("KNOWN-FINDING: property=%s %s\n", id, findings[k].What)
					ev.Known = append(ev.Known, findings[k].What)
					known = true
					break
				}
			}
			if known {
				continue
			}
			os.MkdirAll(replayDir, 0755)
			rf := replayFile{Property: id, Harness: hm.Name, Dir: hm.Dir, Label: v.Label, Msg: v.Msg, Tier: tier,
				Model: v.Model, Notes: v.Notes, Native: res[confirmed].Outcome + " " + strings.Join(res[confirmed].Labels, ",") + " " + res[confirmed].Msg}
			b, _ := json.MarshalIndent(rf, "", " ")
			path := filepath.Join(replayDir, fmt.Sprintf("%s-%s.json", hm.Name, sanitize(v.Label)))
			os.WriteFile(path, b, 0644)
			fmt.Printf("VIOLATION property=%s replay=%s\n", id, path)
			fmt.Printf("  harness=%s label=%s: %s\n  model=%v\n  notes=%q\n  native=%s\n", hm.Name, v.Label, v.Msg, v.Model, v.Notes, rf.Native)
			violations++
		}

		// --- cross-validate sampled passing paths against the native build ---
		if len(hr.PathSamples) > 0 {
			n := 4
			if tier == 1 {
				n = 10
			}
			idx := rng.Perm(len(hr.PathSamples))
			if len(idx) > n {
				idx = idx[:n]
			}
			var cases []nativeCase
			for _, k := range idx {
				cases = append(cases, nativeCase{Harness: hm.Name, Model: hr.PathSamples[k].Model, Tier: tier})
			}
			res, err := runNative(repo, verif, hm.Dir, cases, 20*time.Second)
			if err != nil {
				inconclusive = append(inconclusive, fmt.Sprintf("%s: native validation failed to run: %v", hm.Name, err))
			} else {
				for j, k := range idx {
					s := hr.PathSamples[k]
					r := res[j]
					ok := r.Outcome == "pass" && equalNotes(s.Notes, r.Notes)
					if ok {
						ev.Validated++
					} else {
						inconclusive = append(inconclusive, fmt.Sprintf("%s: TRANSLATION MISMATCH on a passing path: native %s %v %s; engine notes %q native notes %q; model %v",
							hm.Name, r.Outcome, r.Labels, r.Msg, s.Notes, r.Notes, s.Model))
					}
				}
			}
		}
	}

	ev.Violations = violations
	ev.Inconclusive = inconclusive
	ev.Wall = time.Since(start).Seconds()
	ev.Hooks = interp.HooksUsed()
	sort.Strings(ev.Hooks)
	if !*noEvidence {
		if err := ev.write(verif); err != nil {
			fmt.Fprintln(os.Stderr, "cannot write evidence:", err)
			return 2
		}
	}
	if violations > 0 {
		return 1
	}
	if len(inconclusive) > 0 {
		for _, m := range inconclusive {
			fmt.Fprintln(os.Stderr, "INCONCLUSIVE:", m)
		}
		return 2
	}
	fmt.Printf("OK property=%s tier=%s harnesses=%d paths=%d obligations=%d validated=%d wall=%.1fs\n",
		id, *tierS, len(hs), ev.States, ev.Obligations, ev.Validated, ev.Wall)
	return 0
}

func equalNotes(a, b []string) bool {
	if len(a) != len(b) {
		return false
	}
	for k := range a {
		if a[k] != b[k] {
			return false
		}
	}
	return true
}

func firstLine(s string) string {
	if k := strings.IndexByte(s, '\n'); k >= 0 {
		return s[:k]
	}
	return s
}

func sanitize(s string) string {
	var sb strings.Builder
	for _, c := range s {
		if (c >= 'a' && c <= 'z') || (c >= 'A' && c <= 'Z') || (c >= '0' && c <= '9') || c == '-' || c == '_' {
			sb.WriteRune(c)
		} else {
			sb.WriteByte('_')
		}
	}
	return sb.String()
}

func cmdReplay(args []string) int {
	if len(args) < 1 {
		fmt.Fprintln(os.Stderr, "usage: gosym replay <file>")
		return 2
	}
	b, err := os.ReadFile(args[0])
	if err != nil {
		fmt.Fprintln(os.Stderr, err)
		return 2
	}
	var rf replayFile
	if err := json.Unmarshal(b, &rf); err != nil {
		fmt.Fprintln(os.Stderr, err)
		return 2
	}
	repo := envOr("GOSYM_REPO", "/repo")
	verif := envOr("GOSYM_VERIF", "/verif")
	res, err := runNative(repo, verif, rf.Dir, []nativeCase{{Harness: rf.Harness, Model: rf.Model, Tier: rf.Tier}}, 20*time.Second)
	if err != nil {
		fmt.Fprintln(os.Stderr, err)
		return 2
	}
	r := res[0]
	fmt.Printf("native outcome: %s labels=%v msg=%s notes=%q\n", r.Outcome, r.Labels, r.Msg, r.Notes)
	v := interp.Violation{Label: rf.Label}
	if confirms(&v, r) {
		fmt.Printf("REPRODUCED property=%s harness=%s label=%s\n", rf.Property, rf.Harness, rf.Label)
		return 1
	}
	fmt.Println("not reproduced")
	return 0
}
