package main

// Native replay: the same harness functions, compiled by the ordinary Go toolchain
// into the real package (go test -overlay), driven by solver models.

import (
	"bufio"
	"bytes"
	"encoding/json"
	"fmt"
	"os"
	"os/exec"
	"path/filepath"
	"regexp"
	"sort"
	"strings"
	"time"
)

type nativeCase struct {
	Harness string            `json:"harness"`
	Model   map[string]uint64 `json:"model"`
	Tier    int               `json:"tier"`
}

type nativeResult struct {
	Outcome string   // pass | fail | panic | spurious | crash | timeout | error
	Labels  []string // failed assertion labels
	Msg     string
	Notes   []string
}

var harnessFuncRe = regexp.MustCompile(`(?m)^func (H_\w+)\(\)`)

// pkgNameOf returns the package clause of a Go file.
func pkgNameOf(src []byte) string {
	m := regexp.MustCompile(`(?m)^package (\w+)`).FindSubmatch(src)
	if m == nil {
		return ""
	}
	return string(m[1])
}

// runNative executes the cases of one harness directory natively, in one test process
// where possible. hd is the directory name under /verif/harness.
func runNative(repo, verifDir, hd string, cases []nativeCase, perCaseTimeout time.Duration) ([]nativeResult, error) {
	pd := harnessDirs[hd]
	tmp, err := os.MkdirTemp("", "gosym-replay-")
	if err != nil {
		return nil, err
	}
	defer os.RemoveAll(tmp)
	dir := filepath.Join(verifDir, "harness", hd)
	ents, err := os.ReadDir(dir)
	if err != nil {
		return nil, err
	}
	replace := map[string]string{}
	var names []string
	pkgName := ""
	for _, e := range ents {
		if e.IsDir() || !strings.HasSuffix(e.Name(), ".go") {
			continue
		}
		src, err := os.ReadFile(filepath.Join(dir, e.Name()))
		if err != nil {
			return nil, err
		}
		if pkgName == "" {
			pkgName = pkgNameOf(src)
		}
		for _, m := range harnessFuncRe.FindAllSubmatch(src, -1) {
			names = append(names, string(m[1]))
		}
		replace[filepath.Join(repo, pd, "zz_verif_"+e.Name())] = filepath.Join(dir, e.Name())
	}
	sort.Strings(names)
	var tb bytes.Buffer
	fmt.Fprintf(&tb, "package %s\n\nimport (\n\t\"encoding/json\"\n\t\"fmt\"\n\t\"os\"\n\t\"runtime\"\n\t\"runtime/debug\"\n\t\"testing\"\n\t\"time\"\n)\n\n", pkgName)
	fmt.Fprintf(&tb, "var verifHarnesses = map[string]func(){\n")
	for _, n := range names {
		fmt.Fprintf(&tb, "\t%q: %s,\n", n, n)
	}
	fmt.Fprintf(&tb, "}\n")
	tb.WriteString(`
type verifCase struct {
	Harness string            ` + "`json:\"harness\"`" + `
	Model   map[string]uint64 ` + "`json:\"model\"`" + `
	Tier    int               ` + "`json:\"tier\"`" + `
}

func TestVerifReplay(t *testing.T) {
	debug.SetMaxStack(128 << 20) // unbounded recursion is detected quickly
	b, err := os.ReadFile(os.Getenv("GOSYM_CASES"))
	if err != nil {
		t.Fatal(err)
	}
	var cases []verifCase
	if err := json.Unmarshal(b, &cases); err != nil {
		t.Fatal(err)
	}
	for i, c := range cases {
		fmt.Printf("VERIF-BEGIN %d\n", i)
		os.Stdout.Sync()
		ndModelMap = c.Model
		if ndModelMap == nil {
			ndModelMap = map[string]uint64{}
		}
		vfTierValue = c.Tier
		vfFailures = nil
		vfNotes = nil
		vfBaseGoroutines = runtime.NumGoroutine()
		done := make(chan string, 1)
		go func() {
			defer func() {
				if r := recover(); r != nil {
					if _, ok := r.(vfAssumeFailed); ok {
						done <- "spurious"
						return
					}
					done <- fmt.Sprintf("panic %T %v", r, r)
					return
				}
				done <- "done"
			}()
			h := verifHarnesses[c.Harness]
			if h == nil {
				panic("no such harness " + c.Harness)
			}
			h()
		}()
		var res string
		select {
		case res = <-done:
		case <-time.After(` + fmt.Sprint(int(perCaseTimeout.Seconds())) + ` * time.Second):
			res = "timeout"
		}
		for _, n := range vfNotes {
			fmt.Printf("VERIF-NOTE %d %q\n", i, n)
		}
		switch {
		case res == "done" && len(vfFailures) == 0:
			fmt.Printf("VERIF-CASE %d pass\n", i)
		case res == "done":
			q, _ := json.Marshal(vfFailures)
			fmt.Printf("VERIF-CASE %d fail %s\n", i, q)
		default:
			fmt.Printf("VERIF-CASE %d %s\n", i, res)
		}
		os.Stdout.Sync()
		if res == "timeout" {
			return // the stuck goroutine cannot be stopped; later cases are rerun separately
		}
	}
}
`)
	testFile := filepath.Join(tmp, "replay_test.go")
	if err := os.WriteFile(testFile, tb.Bytes(), 0644); err != nil {
		return nil, err
	}
	replace[filepath.Join(repo, pd, "zz_verif_replay_test.go")] = testFile
	ovb, _ := json.Marshal(map[string]interface{}{"Replace": replace})
	ovFile := filepath.Join(tmp, "overlay.json")
	os.WriteFile(ovFile, ovb, 0644)

	results := make([]nativeResult, len(cases))
	for k := range results {
		results[k].Outcome = ""
	}
	start := 0
	for start < len(cases) {
		batch := cases[start:]
		cb, _ := json.Marshal(batch)
		casesFile := filepath.Join(tmp, "cases.json")
		os.WriteFile(casesFile, cb, 0644)
		total := time.Duration(len(batch))*perCaseTimeout + 120*time.Second
		argv := []string{"test", "-v", "-vet=off", "-count=1", "-overlay", ovFile,
			"-run", "^TestVerifReplay$", "-timeout", fmt.Sprintf("%ds", int(total.Seconds()))}
		race := false
		for _, c := range batch {
			if strings.HasPrefix(c.Harness, "H_C11_") {
				race = true // lock-discipline findings are confirmed under the Go race detector
			}
		}
		if race {
			argv = append(argv, "-race")
		}
		argv = append(argv, "./"+pd)
		cmd := exec.Command("go", argv...)
		cmd.Dir = repo
		cmd.Env = append(os.Environ(), "GOFLAGS=-mod=mod", "GOPROXY=off", "GOSUMDB=off", "GOTOOLCHAIN=local",
			"GOSYM_CASES="+casesFile)
		if race {
			cmd.Env = append(cmd.Env, "CGO_ENABLED=1")
		}
		out, _ := cmd.CombinedOutput()
		// parse
		sc := bufio.NewScanner(bytes.NewReader(out))
		sc.Buffer(make([]byte, 1<<20), 1<<24)
		began := -1
		finished := -1
		sawAny := false
		for sc.Scan() {
			line := sc.Text()
			var idx int
			switch {
			case strings.HasPrefix(line, "VERIF-BEGIN "):
				fmt.Sscanf(line, "VERIF-BEGIN %d", &idx)
				began = idx
				sawAny = true
			case strings.HasPrefix(line, "VERIF-NOTE "):
				var q string
				rest := strings.TrimPrefix(line, "VERIF-NOTE ")
				sp := strings.IndexByte(rest, ' ')
				if sp > 0 {
					fmt.Sscanf(rest[:sp], "%d", &idx)
					q = rest[sp+1:]
					var s string
					if _, err := fmt.Sscanf(q, "%q", &s); err == nil {
						results[start+idx].Notes = append(results[start+idx].Notes, s)
					} else {
						results[start+idx].Notes = append(results[start+idx].Notes, q)
					}
				}
			case strings.HasPrefix(line, "VERIF-CASE "):
				rest := strings.TrimPrefix(line, "VERIF-CASE ")
				f := strings.SplitN(rest, " ", 3)
				fmt.Sscanf(f[0], "%d", &idx)
				r := &results[start+idx]
				finished = idx
				switch f[1] {
				case "pass":
					r.Outcome = "pass"
				case "fail":
					r.Outcome = "fail"
					if len(f) > 2 {
						json.Unmarshal([]byte(f[2]), &r.Labels)
					}
				case "spurious":
					r.Outcome = "spurious"
				case "timeout":
					r.Outcome = "timeout"
				case "panic":
					r.Outcome = "panic"
					if len(f) > 2 {
						r.Msg = f[2]
					}
				default:
					r.Outcome = "error"
					r.Msg = rest
				}
			}
		}
		if !sawAny {
			return nil, fmt.Errorf("native replay did not run (build failure?):\n%s", tail(string(out), 3000))
		}
		if race && (strings.Contains(string(out), "DATA RACE") || strings.Contains(string(out), "concurrent map")) {
			for k := range batch {
				if results[start+k].Outcome == "pass" || results[start+k].Outcome == "" {
					results[start+k].Outcome = "race"
					results[start+k].Msg = "Go race detector: DATA RACE / concurrent map access"
				}
			}
		}
		if finished < began {
			// the process died inside case 'began' (e.g. a panic in a background goroutine)
			r := &results[start+began]
			r.Outcome = "crash"
			r.Msg = crashSummary(string(out))
			start = start + began + 1
			continue
		}
		if results[start+finished].Outcome == "timeout" {
			start = start + finished + 1
			continue
		}
		start = len(cases)
	}
	return results, nil
}

func crashSummary(out string) string {
	for _, line := range strings.Split(out, "\n") {
		if strings.HasPrefix(line, "panic:") || strings.HasPrefix(line, "fatal error:") {
			return line
		}
	}
	return tail(out, 400)
}

func tail(s string, n int) string {
	if len(s) > n {
		return s[len(s)-n:]
	}
	return s
}
