package main

// gosym selftest: translator validation. The repository's own Test functions are run
// (concretely) inside the engine and their verdicts compared with `go test` on the real
// build. A test the real build passes must pass in the engine, or be reported as not
// executable by the engine (something it does not model); a test that fails only in the
// engine is an engine defect and makes the selftest fail. A driver that must fail
// (control) shows that failures are not swallowed.

import (
	"encoding/json"
	"fmt"
	"go/ast"
	"go/parser"
	"go/token"
	"os"
	"os/exec"
	"path/filepath"
	"sort"
	"strings"
	"time"

	"gosym/interp"
)

type stTest struct {
	dir, pkg, name string
}

func listRepoTests(repo string) ([]stTest, map[string]string, error) {
	var out []stTest
	pkgName := map[string]string{}
	for _, pd := range harnessDirs {
		dir := filepath.Join(repo, pd)
		ents, err := os.ReadDir(dir)
		if err != nil {
			continue
		}
		for _, e := range ents {
			if !strings.HasSuffix(e.Name(), "_test.go") || strings.HasPrefix(e.Name(), "zz_verif_") {
				continue
			}
			fset := token.NewFileSet()
			f, err := parser.ParseFile(fset, filepath.Join(dir, e.Name()), nil, 0)
			if err != nil {
				return nil, nil, err
			}
			pkgName[pd] = f.Name.Name
			if src, err := os.ReadFile(filepath.Join(dir, e.Name())); err == nil {
				for _, ln := range strings.Split(string(src), "\n") {
					if strings.HasPrefix(ln, "//go:embed ") {
						pkgName["embed:"+pd] = strings.TrimSuffix(strings.Fields(ln)[1], "/*")
					}
				}
			}
			for _, d := range f.Decls {
				fd, ok := d.(*ast.FuncDecl)
				if !ok || fd.Recv != nil || !strings.HasPrefix(fd.Name.Name, "Test") || fd.Name.Name == "TestMain" {
					continue
				}
				if fd.Type.Params == nil || len(fd.Type.Params.List) != 1 {
					continue
				}
				out = append(out, stTest{dir: pd, pkg: f.Name.Name, name: fd.Name.Name})
			}
		}
	}
	sort.Slice(out, func(a, b int) bool {
		if out[a].dir != out[b].dir {
			return out[a].dir < out[b].dir
		}
		return out[a].name < out[b].name
	})
	return out, pkgName, nil
}

func stHarnessName(t stTest) string { return "H_selftest_" + t.name }

type nativeVerdict struct {
	pass bool
	subs int
}

// nativeTestVerdicts runs the real test suite once (go test -json) and returns the verdict
// of every top-level test, keyed by "<dir>/<TestName>".
func nativeTestVerdicts(repo string) (map[string]nativeVerdict, error) {
	cmd := exec.Command("go", "test", "-json", "-vet=off", "-count=1", "-timeout", "10m", "./...")
	cmd.Dir = repo
	cmd.Env = append(os.Environ(), "GOFLAGS=-mod=mod", "GOPROXY=off", "GOSUMDB=off", "GOTOOLCHAIN=local")
	out, _ := cmd.Output()
	res := map[string]nativeVerdict{}
	for _, line := range strings.Split(string(out), "\n") {
		if !strings.HasPrefix(line, "{") {
			continue
		}
		var ev struct{ Action, Package, Test string }
		if json.Unmarshal([]byte(line), &ev) != nil || ev.Test == "" {
			continue
		}
		if ev.Action != "pass" && ev.Action != "fail" {
			continue
		}
		dir := strings.TrimPrefix(strings.TrimPrefix(ev.Package, modPath), "/")
		if dir == "" {
			dir = "."
		}
		top := ev.Test
		sub := false
		if k := strings.IndexByte(top, '/'); k >= 0 {
			top, sub = top[:k], true
		}
		if !strings.HasPrefix(top, "Test") {
			continue // tests started through testing.RunTests report under their own name
		}
		key := dir + "/" + top
		v, seen := res[key]
		if !seen {
			v.pass = true
		}
		if sub {
			v.subs++
		}
		if ev.Action == "fail" {
			v.pass = false
		}
		res[key] = v
	}
	if len(res) == 0 {
		return nil, fmt.Errorf("go test produced no verdicts:\n%s", tail(string(out), 2000))
	}
	return res, nil
}

func cmdSelftest(args []string) int {
	repo := envOr("GOSYM_REPO", "/repo")
	verif := envOr("GOSYM_VERIF", "/verif")
	tests, pkgName, err := listRepoTests(repo)
	if only := os.Getenv("GOSYM_SELFTEST_RUN"); only != "" {
		var keep []stTest
		for _, t := range tests {
			if strings.Contains(t.name, only) {
				keep = append(keep, t)
			}
		}
		tests = keep
	}
	if err != nil {
		fmt.Fprintln(os.Stderr, "selftest:", err)
		return 2
	}
	extra := map[string][]byte{}
	byDir := map[string][]stTest{}
	for _, t := range tests {
		byDir[t.dir] = append(byDir[t.dir], t)
	}
	for dir, ts := range byDir {
		var sb strings.Builder
		fmt.Fprintf(&sb, "package %s\n\nimport \"testing\"\n\nfunc vfRunTest(name string, f func(*testing.T)) {}\n\n", pkgName[dir])
		for _, t := range ts {
			pre := ""
			if pat := pkgName["embed:"+dir]; pat != "" {
				pre = fmt.Sprintf("vfEmbedRoot(%q, %q); ", filepath.Join(repo, dir), pat)
			}
			fmt.Fprintf(&sb, "func %s() { %svfOSRoot(%q, %q); vfRunTest(%q, %s) }\n", stHarnessName(t), pre, repo, filepath.Join(repo, dir), t.name, t.name)
		}
		// controls: the failure plumbing must work
		fmt.Fprintf(&sb, "func H_selftest_ctlErrorf() { vfRunTest(\"ctl\", func(t *testing.T) { t.Errorf(\"control %%d\", 1) }) }\n")
		fmt.Fprintf(&sb, "func H_selftest_ctlFatalInRun() { vfRunTest(\"ctl\", func(t *testing.T) { t.Run(\"s\", func(t *testing.T) { defer func() {}(); t.Fatal(\"control\"); panic(\"not reached\") }) }) }\n")
		fmt.Fprintf(&sb, "func H_selftest_ctlPass() { vfRunTest(\"ctl\", func(t *testing.T) { t.Run(\"s\", func(t *testing.T) { t.Log(\"fine\") }) }) }\n")
		extra[filepath.Join(repo, dir, "zz_verif_selftest_test.go")] = []byte(sb.String())
	}
	t0 := time.Now()
	natCh := make(chan map[string]nativeVerdict, 1)
	natErr := make(chan error, 1)
	go func() {
		v, err := nativeTestVerdicts(repo)
		natErr <- err
		natCh <- v
	}()
	p, err := loadProgramX(repo, verif, true, extra)
	if err != nil {
		fmt.Fprintln(os.Stderr, "load:", err)
		return 2
	}
	opts := interp.DefaultOptions()
	opts.Workers = 1
	opts.MaxSteps = 400_000_000
	opts.MaxWallS = 300
	pool, err := interp.NewPool(p.cfg, 1, opts)
	if err != nil {
		fmt.Fprintln(os.Stderr, "pool:", err)
		return 2
	}
	defer pool.Close()
	fmt.Fprintf(os.Stderr, "selftest: %d repository tests, engine ready in %.1fs\n", len(tests), time.Since(t0).Seconds())
	if err := <-natErr; err != nil {
		fmt.Fprintln(os.Stderr, "selftest:", err)
		return 2
	}
	native := <-natCh

	type row struct {
		Test, Native, Engine, Detail string
	}
	var rows []row
	agree, notExec, mismatch := 0, 0, 0
	runOne := func(pkgPath, h string) (string, string) {
		sp := p.pkgs[pkgPath]
		if sp == nil || sp.Func(h) == nil {
			return "missing", "no driver " + h
		}
		hr := pool.Run(sp.Func(h), opts)
		if len(hr.ProblemMsgs) > 0 {
			var ms []string
			for m := range hr.ProblemMsgs {
				ms = append(ms, firstLine(m))
			}
			sort.Strings(ms)
			return "not-executable", strings.Join(ms, "; ")
		}
		if len(hr.Violations) > 0 {
			v := hr.Violations[0]
			return "fail", v.Label + ": " + v.Msg
		}
		if hr.Outcomes["ok"] == 1 {
			return "pass", ""
		}
		return "not-executable", fmt.Sprint(hr.Outcomes, hr.CutMsgs)
	}
	pathOf := func(dir string) string {
		if dir == "." {
			return modPath
		}
		return modPath + "/" + dir
	}
	rc := 0
	// controls
	for dir := range byDir {
		for _, c := range []struct{ h, want string }{{"H_selftest_ctlErrorf", "fail"}, {"H_selftest_ctlFatalInRun", "fail"}, {"H_selftest_ctlPass", "pass"}} {
			got, detail := runOne(pathOf(dir), c.h)
			if got != c.want {
				fmt.Printf("SELFTEST-CONTROL-BROKEN %s/%s: want %s got %s (%s)\n", dir, c.h, c.want, got, detail)
				rc = 2
			}
		}
	}
	for _, t := range tests {
		key := t.dir + "/" + t.name
		nv, ok := native[key]
		nat := "missing"
		if ok {
			nat = map[bool]string{true: "pass", false: "fail"}[nv.pass]
		}
		got, detail := runOne(pathOf(t.dir), stHarnessName(t))
		rows = append(rows, row{key, nat, got, detail})
		switch {
		case got == "not-executable" || got == "missing":
			notExec++
			fmt.Printf("  %-44s native=%s engine=%s  %s\n", key, nat, got, detail)
		case got == nat:
			agree++
		default:
			mismatch++
			rc = 1
			fmt.Printf("SELFTEST-MISMATCH %s native=%s engine=%s %s\n", key, nat, got, detail)
		}
	}
	natSubs := 0
	for _, v := range native {
		natSubs += v.subs
	}
	fmt.Printf("selftest: %d top-level repository tests: %d same verdict in the engine, %d not executable by the engine, %d MISMATCH; %d sub-tests executed in the engine (%.1fs)\n",
		len(tests), agree, notExec, mismatch, interp.SelftestSubtests, time.Since(t0).Seconds())
	_ = natSubs
	rep := map[string]interface{}{
		"generated": time.Now().UTC().Format(time.RFC3339), "tests": len(tests), "agree": agree,
		"not_executable": notExec, "mismatch": mismatch, "engine_subtests": interp.SelftestSubtests, "rows": rows,
	}
	if b, err := json.MarshalIndent(rep, "", " "); err == nil {
		
		os.WriteFile(filepath.Join(verif, "selftest_report.json"), b, 0o644)
	}
	return rc
}
