package main

import (
	"flag"
	"fmt"
	"os"
	"runtime/pprof"
	"sort"
	"time"

	"gosym/interp"
)

func main() {
	if p := os.Getenv("GOSYM_CPUPROFILE"); p != "" {
		f, _ := os.Create(p)
		pprof.StartCPUProfile(f)
		rc := realMain()
		pprof.StopCPUProfile()
		os.Exit(rc)
	}
	os.Exit(realMain())
}

func realMain() int {
	if len(os.Args) < 2 {
		fmt.Fprintln(os.Stderr, "usage: gosym run <harness>... | check <id> [--tier quick|thorough] | replay <file>")
		return 2
	}
	switch os.Args[1] {
	case "run":
		return cmdRun(os.Args[2:])
	case "check":
		return cmdCheck(os.Args[2:])
	case "replay":
		return cmdReplay(os.Args[2:])
	case "selftest":
		return cmdSelftest(os.Args[2:])
	}
	fmt.Fprintln(os.Stderr, "unknown command", os.Args[1])
	return 2
}

func envOr(k, d string) string {
	if v := os.Getenv(k); v != "" {
		return v
	}
	return d
}

func cmdRun(args []string) int {
	fs := flag.NewFlagSet("run", flag.ExitOnError)
	workers := fs.Int("workers", 4, "number of workers")
	trace := fs.Bool("trace", false, "trace calls")
	maxPaths := fs.Int("max-paths", 100000, "path cap")
	fs.Parse(args)
	repo := envOr("GOSYM_REPO", "/repo")
	verif := envOr("GOSYM_VERIF", "/verif")
	t0 := time.Now()
	p, err := loadProgram(repo, verif)
	if err != nil {
		fmt.Fprintln(os.Stderr, "load:", err)
		return 2
	}
	fmt.Fprintf(os.Stderr, "loaded+built SSA in %.1fs\n", time.Since(t0).Seconds())
	opts := interp.DefaultOptions()
	opts.Workers = *workers
	opts.Trace = *trace
	opts.MaxPaths = *maxPaths
	t1 := time.Now()
	pool, err := interp.NewPool(p.cfg, *workers, opts)
	if err != nil {
		fmt.Fprintln(os.Stderr, "pool:", err)
		return 2
	}
	defer pool.Close()
	fmt.Fprintf(os.Stderr, "pool of %d ready in %.1fs\n", *workers, time.Since(t1).Seconds())
	rc := 0
	for _, name := range fs.Args() {
		h := p.findHarness(name)
		if h == nil {
			fmt.Fprintln(os.Stderr, "no such harness:", name)
			rc = 2
			continue
		}
		hr := pool.Run(h, opts)
		printResult(hr)
		if len(hr.Violations) > 0 {
			rc = 1
		}
	}
	return rc
}

func printResult(hr *interp.HarnessResult) {
	fmt.Printf("== %s: paths=%d outcomes=%v steps=%d decisions=%d assertsOK=%d assertsUnk=%d unknowns=%d leaks=%d wall=%.2fs solver{q=%d sat=%d unsat=%d unk=%d err=%d %.2fs max=%.2fs}\n",
		hr.Harness, hr.Paths, hr.Outcomes, hr.Steps, hr.Decisions, hr.AssertsOK, hr.AssertsUnk, hr.Unknowns, hr.Leaks, hr.Wall,
		hr.Solver.Queries, hr.Solver.Sat, hr.Solver.Unsat, hr.Solver.Unknown, hr.Solver.Errors, hr.Solver.Seconds, hr.Solver.MaxQuery)
	var labels []string
	for l := range hr.Reach {
		labels = append(labels, fmt.Sprintf("%s:%d", l, hr.Reach[l]))
	}
	sort.Strings(labels)
	fmt.Printf("   reach: %v\n", labels)
	for m, n := range hr.CutMsgs {
		fmt.Printf("   cut x%d: %s\n", n, m)
	}
	for m, n := range hr.ProblemMsgs {
		fmt.Printf("   PROBLEM x%d: %s\n", n, m)
	}
	for _, d := range hr.ProblemDetail {
		fmt.Printf("   DETAIL: %s\n", d)
	}
	for _, v := range hr.Violations {
		fmt.Printf("   VIOLATION-CANDIDATE label=%s msg=%s decisions=%s model=%v notes=%v\n", v.Label, v.Msg, v.Decisions, v.Model, v.Notes)
	}
	for _, s := range hr.Samples {
		if len(s) > 300 {
			s = s[:300] + "…"
		}
		fmt.Printf("   sample pc: %s\n", s)
	}
}


