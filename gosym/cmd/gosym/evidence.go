package main

import (
	"encoding/json"
	"fmt"
	"os"
	"path/filepath"
	"sort"
	"strings"

	"gosym/interp"
)

type harnessEvidence struct {
	Name        string         `json:"name"`
	Doc         string         `json:"doc,omitempty"`
	Paths       int            `json:"paths"`
	Outcomes    map[string]int `json:"outcomes"`
	Decisions   int            `json:"branch_decisions"`
	AssertsOK   int            `json:"assertions_discharged_unsat"`
	AssertsUnk  int            `json:"assertions_unknown"`
	Candidates  int            `json:"counterexample_candidates"`
	Cut         map[string]int `json:"paths_cut_at_bound,omitempty"`
	Reach       map[string]int `json:"reach_labels,omitempty"`
	Steps       int64          `json:"ssa_instructions_executed"`
	Wall        float64        `json:"wall_s"`
	SolverQ     int            `json:"solver_queries"`
	SolverSat   int            `json:"solver_sat"`
	SolverUnsat int            `json:"solver_unsat"`
	SolverUnk   int            `json:"solver_unknown"`
	SolverS     float64        `json:"solver_s"`
	Leaks       int            `json:"goroutines_left_alive"`
}

type evidence struct {
	ID           string
	Tier         int
	Seed         int64
	States       int
	Transitions  int
	Obligations  int
	Validated    int
	Replayed     int
	Spurious     int
	Violations   int
	Known        []string
	Inconclusive []string
	Wall         float64
	Harnesses    []harnessEvidence
	Samples      []interface{}
	Funcs        map[string]bool
	Hooks        []string
	Distinct     map[string]bool
	SolverS      float64
	Queries      int
}

func newEvidence(id string, tier int, seed int64) *evidence {
	return &evidence{ID: id, Tier: tier, Seed: seed, Funcs: map[string]bool{}, Distinct: map[string]bool{}}
}

func (e *evidence) addHarness(hm *harnessMeta, hr *interp.HarnessResult) {
	he := harnessEvidence{
		Name: hm.Name, Doc: hm.Doc, Paths: hr.Paths, Outcomes: hr.Outcomes, Decisions: hr.Decisions,
		AssertsOK: hr.AssertsOK, AssertsUnk: hr.AssertsUnk, Candidates: len(hr.Violations),
		Cut: hr.CutMsgs, Reach: hr.Reach, Steps: hr.Steps, Wall: hr.Wall,
		SolverQ: hr.Solver.Queries, SolverSat: hr.Solver.Sat, SolverUnsat: hr.Solver.Unsat, SolverUnk: hr.Solver.Unknown,
		SolverS: hr.Solver.Seconds, Leaks: hr.Leaks,
	}
	e.Harnesses = append(e.Harnesses, he)
	e.States += hr.Outcomes["ok"]
	e.Transitions += hr.Decisions
	e.Obligations += hr.AssertsOK
	e.SolverS += hr.Solver.Seconds
	e.Queries += hr.Solver.Queries
	for f := range hr.Funcs {
		e.Funcs[f] = true
	}
	for k, s := range hr.PathSamples {
		e.Distinct[hm.Name+"|"+s.Decisions] = true
		if k < 2 {
			e.Samples = append(e.Samples, map[string]interface{}{
				"harness": hm.Name, "decisions": s.Decisions, "path_condition": s.PC, "model": s.Model, "observed": s.Notes,
			})
		}
	}
}

func (e *evidence) write(verifDir string) error {
	tier := "quick"
	if e.Tier == 1 {
		tier = "thorough"
	}
	var funcs []string
	for f := range e.Funcs {
		if strings.Contains(f, "CloudyKit") && !strings.Contains(f, ".H_C") && !strings.Contains(f, ".nd") && !strings.Contains(f, ".vf") {
			funcs = append(funcs, f)
		}
	}
	sort.Strings(funcs)
	samples := e.Samples
	if len(samples) == 0 {
		samples = []interface{}{"no passing path sampled"}
	}
	cov := map[string]interface{}{
		"states":                        e.States,
		"transitions":                   e.Transitions,
		"traces_validated_against_impl": e.Validated + e.Replayed,
		"samples":                       samples,
		"evaluations":                   e.States,
		"distinct_nontrivial":           e.States,
		"rule":                          "one evaluation = one feasible symbolic path of a harness (a distinct sequence of solver-decided branch outcomes over the real SSA); every path is distinct by construction and non-trivial in that each stands for the set of all inputs satisfying its path condition",
		"obligations":                   e.Obligations,
		"discharged":                    e.Obligations,
		"explanation":                   "bounded symbolic execution of the real code's SSA (go/ssa rebuilt from /repo on this run); each harness assertion and each implicit-panic site is decided by z3 for all values within the stated bounds",
		"functions_encoded":             funcs,
		"functions_encoded_count":       len(funcs),
		"solver_queries":                e.Queries,
		"solver_s":                      e.SolverS,
		"harnesses":                     e.Harnesses,
		"summaries_used":                e.Hooks,
		"counterexamples_replayed":      e.Replayed,
		"spurious_counterexamples":      e.Spurious,
		"passing_paths_validated_natively": e.Validated,
		"known_findings":                e.Known,
		"inconclusive":                  e.Inconclusive,
		"exhaustive":                    false,
	}
	doc := map[string]interface{}{
		"property_id": e.ID,
		"tier":        tier,
		"seed":        e.Seed,
		"level":       "model_checking",
		"coverage":    cov,
		"assumptions": assumptionsFor(e.ID),
		"wall_s":      e.Wall,
		"violations":  e.Violations,
	}
	b, err := json.MarshalIndent(doc, "", " ")
	if err != nil {
		return err
	}
	dir := filepath.Join(verifDir, "evidence")
	os.MkdirAll(dir, 0755)
	return os.WriteFile(filepath.Join(dir, e.ID+".json"), b, 0644)
}

var commonAssumptions = []string{
	"amd64, 64-bit int, Go 1.23.5 standard library as linked into the engine and into /repo's build",
	"reflect is a model over go/types (gosym/interp/reflect.go), validated by native replay of sampled paths",
	"fmt formatting is a model (wording not claimed); sync.Pool reuses the most recently Put object; sync.Mutex/RWMutex are state machines (blocking only in C11's schedule exploration)",
	"goroutines run as deterministic coroutines (exact for jet's single-producer lexer)",
	"strings have a concrete length per path (lengths are enumerated up to the harness bound), bytes are symbolic",
	"bounds (string lengths, collection sizes, template skeleton lists) are those stated in each harness's doc comment and DESIGN.md §5; inputs beyond them are outside the claim",
}

func assumptionsFor(id string) []string {
	a := append([]string{}, commonAssumptions...)
	switch id {
	case "C11":
		a = append(a,
			"C11 schedules: 2 goroutines, one operation each; the second operation starts at any synchronisation or blocking point of the first (both orders); tier quick: no further preemption, thorough: one preemptive switch at any synchronisation operation; blocked goroutines yield FIFO",
			"C11 race detection: vector-clock happens-before over every cell the interpreter touches, with the edges of the Go memory model (go, unlock->lock, channel send->receive, Pool.Put->Get, Once, WaitGroup, atomics, sync.Map); channel operations are not preemption points; sync.Pool reuse is LIFO",
		)
	case "C19":
		a = append(a,
			"C19 file-system loaders: os.Stat/Open/ReadFile/File.Read and embed.FS.Open are answered from the real directory trees /repo/testData and /repo/loaders/embedfs/testData (concrete inputs of the check; no symbolic links; only 'does not exist' errors); the path spelling is symbolic",
		)
	case "C14":
		a = append(a, "C14 json/writeJson: operands are handed to the real encoding/json by a summary (symbolic operands concretised)")
	}
	return a
}

var _ = fmt.Sprint
