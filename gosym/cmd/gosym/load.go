package main

import (
	"fmt"
	"os"
	"path/filepath"
	"sort"
	"strings"

	"golang.org/x/tools/go/packages"
	"golang.org/x/tools/go/ssa"
	"golang.org/x/tools/go/ssa/ssautil"

	"gosym/interp"
)

const modPath = "github.com/CloudyKit/jet/v6"

// harnessDirs maps a directory under /verif/harness to the package directory in the repo.
var harnessDirs = map[string]string{
	"jet":     ".",
	"utils":   "utils",
	"multi":   "loaders/multi",
	"httpfs":  "loaders/httpfs",
	"embedfs": "loaders/embedfs",
}

var initAllow = []string{
	modPath, modPath + "/utils", modPath + "/loaders/multi", modPath + "/loaders/httpfs", modPath + "/loaders/embedfs",
	"github.com/CloudyKit/fastprinter",
	"unicode", "unicode/utf8", "strings", "bytes", "path", "path/filepath", "strconv",
	"html", "io", "io/fs", "sort", "text/template", "text/template/parse", "math", "math/bits", "internal/filepathlite", "internal/oserror",
	"internal/stringslite", "unicode/utf16", "net/url", "slices", "cmp", "io/ioutil", "internal/itoa", "internal/byteorder",
}

type program struct {
	prog     *ssa.Program
	pkgs     map[string]*ssa.Package // by import path
	cfg      *interp.Config
	repo     string
	verifDir string
	overlay  map[string][]byte
	files    []string
}

func overlayFiles(repo, verifDir string) (map[string][]byte, []string, error) {
	ov := map[string][]byte{}
	var names []string
	for hd, pd := range harnessDirs {
		dir := filepath.Join(verifDir, "harness", hd)
		ents, err := os.ReadDir(dir)
		if err != nil {
			continue
		}
		for _, e := range ents {
			if e.IsDir() || !strings.HasSuffix(e.Name(), ".go") || strings.HasSuffix(e.Name(), "_test.go") {
				continue
			}
			b, err := os.ReadFile(filepath.Join(dir, e.Name()))
			if err != nil {
				return nil, nil, err
			}
			virt := filepath.Join(repo, pd, "zz_verif_"+e.Name())
			ov[virt] = b
			names = append(names, filepath.Join(dir, e.Name()))
		}
	}
	sort.Strings(names)
	return ov, names, nil
}

func loadProgram(repo, verifDir string) (*program, error) {
	return loadProgramX(repo, verifDir, false, nil)
}

// loadProgramX loads the packages under test with the harness overlay; with tests set the
// test variants (package + its _test.go files + extra overlay files) are loaded as well and
// are the ones harnesses are looked up in.
func loadProgramX(repo, verifDir string, tests bool, extra map[string][]byte) (*program, error) {
	ov, names, err := overlayFiles(repo, verifDir)
	if err != nil {
		return nil, err
	}
	for k, v := range extra {
		ov[k] = v
	}
	cfg := &packages.Config{
		Mode:    packages.LoadAllSyntax,
		Dir:     repo,
		Overlay: ov,
		Tests:   tests,
		Env:     append(os.Environ(), "GOFLAGS=-mod=mod", "GOPROXY=off", "GOSUMDB=off", "GOTOOLCHAIN=local", "CGO_ENABLED=0"),
	}
	pats := []string{modPath, modPath + "/utils", modPath + "/loaders/multi", modPath + "/loaders/httpfs", modPath + "/loaders/embedfs"}
	initial, err := packages.Load(cfg, pats...)
	if err != nil {
		return nil, err
	}
	nerr := 0
	packages.Visit(initial, nil, func(p *packages.Package) {
		for _, e := range p.Errors {
			fmt.Fprintf(os.Stderr, "load error: %s: %v\n", p.PkgPath, e)
			nerr++
		}
	})
	if nerr > 0 {
		return nil, fmt.Errorf("%d package load errors (harness does not type-check against the current /repo?)", nerr)
	}
	prog, _ := ssautil.AllPackages(initial, ssa.InstantiateGenerics|ssa.SanityCheckFunctions)
	prog.Build()
	p := &program{prog: prog, pkgs: map[string]*ssa.Package{}, repo: repo, verifDir: verifDir, overlay: ov, files: names}
	for _, sp := range prog.AllPackages() {
		p.pkgs[sp.Pkg.Path()] = sp
	}
	var reset []*ssa.Package
	if tests {
		// plain packages first, then their test variants (which shadow them in p.pkgs)
		variants := map[string][]*ssa.Package{}
		packages.Visit(initial, nil, func(lp *packages.Package) {
			if sp := prog.Package(lp.Types); sp != nil && lp.Types != nil {
				isTest := strings.Contains(lp.ID, "[")
				if isTest {
					variants[lp.PkgPath] = append(variants[lp.PkgPath], sp)
					p.pkgs[lp.PkgPath] = sp
				} else {
					variants[lp.PkgPath] = append([]*ssa.Package{sp}, variants[lp.PkgPath]...)
				}
			}
		})
		for _, path := range pats {
			reset = append(reset, variants[path]...)
		}
	} else {
		for _, path := range pats {
			if sp := p.pkgs[path]; sp != nil {
				reset = append(reset, sp)
			}
		}
	}
	if fp := p.pkgs["github.com/CloudyKit/fastprinter"]; fp != nil {
		reset = append(reset, fp)
	}
	p.cfg = &interp.Config{
		Prog:        prog,
		InitAllow:   initAllow,
		ResetPkgs:   reset,
		HarnessPkgs: pats,
	}
	return p, nil
}

// findHarness locates a harness function by name in any of the packages under test.
func (p *program) findHarness(name string) *ssa.Function {
	for _, path := range p.cfg.HarnessPkgs {
		if sp := p.pkgs[path]; sp != nil {
			if f := sp.Func(name); f != nil {
				return f
			}
		}
	}
	return nil
}
