package interp

// Path exploration: forking by re-execution over a decision log.

import (
	"fmt"
	"go/token"
	"go/types"
	"math"
	"os"
	"runtime"
	"runtime/debug"
	"sort"
	"strings"
	"sync"
	"time"

	"golang.org/x/tools/go/ssa"
)

type abortKind int

const (
	abortAssume      abortKind = iota // an Assume was false/infeasible: path silently dropped
	abortCut                          // a stated bound was reached: counted, outside the claim
	abortUnsupported                  // the engine cannot model something: inconclusive
	abortEngine                       // internal engine error: inconclusive
	abortBudget                       // step budget exhausted
	abortDeadlock                     // all goroutines blocked
	abortKilled                       // goroutine torn down at path end
	abortCrash                        // uncaught panic in a non-main goroutine (process crash)
)

type pathAbort struct {
	kind abortKind
	msg  string
}

func (p pathAbort) String() string {
	return fmt.Sprintf("abort(%d): %s", p.kind, p.msg)
}

// Options bound the exploration. Every bound that is hit is reported.
type Options struct {
	MaxDecisions   int
	MaxSteps       int64
	MaxConcretize  int
	MaxPaths       int
	Workers        int
	QueryTimeoutMs int
	SolverArgv     []string
	Trace          bool
	MaxViolations  int
	Tier           int // 0 quick, 1 thorough (read by harnesses through vfTier)
	MaxCallDepth   int
	MaxWallS       float64 // wall-clock cap per harness; hitting it is reported as a cap, never as success
	MaxSamples     int // ok-paths whose model is kept for native cross-validation
	SampleEvery    int
}

func DefaultOptions() Options {
	return Options{
		MaxDecisions:   4000,
		MaxSteps:       30_000_000,
		MaxConcretize:  300,
		MaxPaths:       200000,
		Workers:        runtime.NumCPU(),
		QueryTimeoutMs: 20000,
		MaxViolations:  5,
		MaxWallS:       900,
		MaxCallDepth:   3000,
		MaxSamples:     12,
		SampleEvery:    1,
	}
}

// Violation is a counterexample to an assertion (or an escaped panic, crash, deadlock).
type Violation struct {
	Label     string            `json:"label"`
	Msg       string            `json:"msg"`
	Model     map[string]uint64 `json:"model"`
	Decisions string            `json:"decisions"`
	Notes     []string          `json:"notes,omitempty"`
}

// Sample is a fully explored path with a model of its path condition and the values
// the harness noted (vfNote) evaluated under that model; used for native cross-validation.
type Sample struct {
	Decisions string            `json:"decisions"`
	Model     map[string]uint64 `json:"model"`
	Notes     []string          `json:"notes"`
	PC        string            `json:"pc,omitempty"`
}

type PathResult struct {
	Sample     *Sample
	Decisions  []bool
	Outcome    string // ok | assume | cut | unsupported | engine | budget
	Msg        string
	Violations []Violation
	Reach      []string
	Steps      int64
	NewDec     int
	Asserts    int // assertion queries discharged (unsat) on this path
	AssertsUnk int
	PCSample   string
	Leaks      int
}

// workItem is a decision prefix to explore. vals records, per decision index, the
// candidate constant chosen by a concretisation at that decision, so that re-execution
// asks exactly the same question (solver models are not deterministic across runs).
type workItem struct {
	dec  []bool
	vals map[int]uint64
}

type pathState struct {
	prefixVals map[int]uint64
	vals       map[int]uint64
	prefix     []bool
	decisions  []bool
	pc         []*Term
	steps      int64
	violations []Violation
	reach      []string
	notes      []value
	pcSet      map[*Term]bool
	lastModel  map[string]uint64
	modelPC    int // number of pc conjuncts lastModel is known to satisfy
	asserts    int
	assertsUnk int
	newDec     int
	siblings   []workItem
	unknowns   int
}

func decString(d []bool) string {
	var sb strings.Builder
	for _, b := range d {
		if b {
			sb.WriteByte('1')
		} else {
			sb.WriteByte('0')
		}
	}
	return sb.String()
}

// modelOK reports whether the cached model satisfies the whole path condition.
func (i *interpreter) modelOK() bool {
	p := i.path
	if p.lastModel == nil {
		return false
	}
	memo := map[*Term]uint64{}
	for k := p.modelPC; k < len(p.pc); k++ {
		if !i.evalOK(p.pc[k], p.lastModel, memo) {
			return false
		}
	}
	p.modelPC = len(p.pc)
	return true
}

func (i *interpreter) evalOK(t *Term, m map[string]uint64, memo map[*Term]uint64) (ok bool) {
	defer func() {
		if r := recover(); r != nil {
			ok = false
		}
	}()
	return t.eval(m, memo) == 1
}

// currentModel returns a model of the path condition.
func (i *interpreter) currentModel() map[string]uint64 {
	if i.modelOK() {
		return i.path.lastModel
	}
	res, m := i.solver.check(nil, true)
	if res != resSat {
		if res == resUnsat {
			panic(pathAbort{kind: abortAssume, msg: "path condition infeasible"})
		}
		i.path.unknowns++
		panic(pathAbort{kind: abortUnsupported, msg: "solver unknown on path condition"})
	}
	i.path.lastModel = m
	i.path.modelPC = len(i.path.pc)
	return m
}

func (i *interpreter) modelValue(t *Term) uint64 {
	m := i.currentModel()
	return t.eval(m, map[*Term]uint64{})
}

// candidate returns the constant a concretisation proposes at the next decision: the
// recorded one when replaying a prefix, otherwise a model value (which is then recorded).
func (i *interpreter) candidate(t *Term) uint64 {
	p := i.path
	n := len(p.decisions)
	if v, ok := p.prefixVals[n]; ok && n < len(p.prefix) {
		p.vals[n] = v
		return v
	}
	v := i.modelValue(t)
	p.vals[n] = v
	return v
}

func (i *interpreter) addPC(c *Term) {
	p := i.path
	if p.pcSet == nil {
		p.pcSet = map[*Term]bool{}
	}
	if p.pcSet[c] {
		return
	}
	p.pcSet[c] = true
	p.pc = append(p.pc, c)
	i.solver.assert(c)
}

// implied reports whether c (or its negation) is syntactically part of the path condition.
func (i *interpreter) implied(c *Term) (val, known bool) {
	p := i.path
	if p.pcSet[c] {
		return true, true
	}
	if p.pcSet[i.tt.not(c)] {
		return false, true
	}
	return false, false
}

// branch decides a symbolic condition on this path, forking if both sides are feasible.
func (i *interpreter) branch(c *Term) bool {
	if v, ok := c.constBool(); ok {
		return v
	}
	p := i.path
	tt := i.tt
	if v, known := i.implied(c); known {
		return v
	}
	n := len(p.decisions)
	if n < len(p.prefix) {
		d := p.prefix[n]
		p.decisions = append(p.decisions, d)
		if d {
			i.addPC(c)
		} else {
			i.addPC(tt.not(c))
		}
		return d
	}
	if n >= i.opts.MaxDecisions {
		panic(pathAbort{kind: abortCut, msg: "decision bound reached"})
	}
	p.newDec++
	// Use the cached model to learn one feasible side for free.
	var tFeas, fFeas satResult = -1, -1
	if i.modelOK() {
		memo := map[*Term]uint64{}
		func() {
			defer func() { recover() }()
			if c.eval(p.lastModel, memo) == 1 {
				tFeas = resSat
			} else {
				fFeas = resSat
			}
		}()
	}
	var mT, mF map[string]uint64
	if tFeas < 0 {
		tFeas, mT = i.solver.check(c, true)
	}
	if fFeas < 0 {
		if tFeas == resUnsat {
			fFeas = resSat // pc is satisfiable, so the other side must be
		} else {
			fFeas, mF = i.solver.check(tt.not(c), true)
		}
	}
	if tFeas == resUnknown || fFeas == resUnknown {
		p.unknowns++
	}
	takeTrue := tFeas != resUnsat
	if takeTrue && fFeas != resUnsat {
		sib := make([]bool, n+1)
		copy(sib, p.decisions)
		sib[n] = false
		vals := map[int]uint64{}
		for k, v := range p.vals {
			if k <= n {
				vals[k] = v
			}
		}
		p.siblings = append(p.siblings, workItem{dec: sib, vals: vals})
	}
	if !takeTrue && fFeas == resUnsat {
		panic(pathAbort{kind: abortAssume, msg: "both sides infeasible"})
	}
	p.decisions = append(p.decisions, takeTrue)
	if takeTrue {
		i.addPC(c)
		if mT != nil {
			p.lastModel, p.modelPC = mT, len(p.pc)
		}
	} else {
		i.addPC(tt.not(c))
		if mF != nil {
			p.lastModel, p.modelPC = mF, len(p.pc)
		}
	}
	return takeTrue
}

// assume restricts the path to c; the path is dropped if c is infeasible.
func (i *interpreter) assume(c *Term) {
	if v, ok := c.constBool(); ok {
		if !v {
			panic(pathAbort{kind: abortAssume, msg: "assumption false"})
		}
		return
	}
	p := i.path
	feas := satResult(-1)
	if i.modelOK() {
		func() {
			defer func() { recover() }()
			if c.eval(p.lastModel, map[*Term]uint64{}) == 1 {
				feas = resSat
			}
		}()
	}
	if feas < 0 {
		var m map[string]uint64
		feas, m = i.solver.check(c, true)
		if feas == resUnsat {
			panic(pathAbort{kind: abortAssume, msg: "assumption infeasible"})
		}
		if feas == resUnknown {
			p.unknowns++
		}
		i.addPC(c)
		if m != nil {
			p.lastModel, p.modelPC = m, len(p.pc)
		}
		return
	}
	i.addPC(c)
}

// assertCond checks a harness assertion.
func (i *interpreter) assertCond(v value, label string) {
	p := i.path
	tt := i.tt
	switch b := v.(type) {
	case bool:
		if !b {
			m := i.currentModel()
			i.recordViolation(label, "assertion is false on this path", m)
			panic(pathAbort{kind: abortAssume, msg: "assertion failed (concrete)"})
		}
		p.asserts++
	case symV:
		res, m := i.solver.check(tt.not(b.t), true)
		switch res {
		case resSat:
			i.recordViolation(label, "assertion can be false", m)
		case resUnsat:
			p.asserts++
		default:
			p.assertsUnk++
		}
		i.assume(b.t)
	default:
		panic(unsupported("assert on %T", v))
	}
}

func (i *interpreter) recordViolation(label, msg string, m map[string]uint64) {
	p := i.path
	if len(p.violations) >= 8 {
		return
	}
	cp := map[string]uint64{}
	for k, v := range m {
		cp[k] = v
	}
	p.violations = append(p.violations, Violation{
		Label: label, Msg: msg, Model: cp, Decisions: decString(p.decisions),
		Notes: i.evalNotes(cp),
	})
}

// evalNotes renders the noted values under model m.
func (i *interpreter) evalNotes(m map[string]uint64) []string {
	var out []string
	memo := map[*Term]uint64{}
	for _, n := range i.path.notes {
		out = append(out, i.evalToString(n, m, memo))
	}
	return out
}

func (i *interpreter) evalToString(v value, m map[string]uint64, memo map[*Term]uint64) (s string) {
	defer func() {
		if r := recover(); r != nil {
			s = fmt.Sprintf("<unevaluable: %v>", r)
		}
	}()
	switch x := v.(type) {
	case string:
		return x
	case symStr:
		b := make([]byte, len(x.b))
		for k, c := range x.b {
			if u, ok := c.(uint8); ok {
				b[k] = u
			} else {
				b[k] = byte(c.(symV).t.eval(m, memo))
			}
		}
		return string(b)
	case symV:
		r := x.t.eval(m, memo)
		switch {
		case x.k == types.Bool:
			return fmt.Sprint(r == 1)
		case x.k == types.Float64:
			return fmt.Sprint(math.Float64frombits(r))
		case kindSigned(x.k):
			return fmt.Sprint(signExt(r, x.t.sort.w))
		}
		return fmt.Sprint(r)
	}
	return fmt.Sprint(v)
}

// panicString renders a target panic value.
func (i *interpreter) panicString(v value) string {
	if itf, ok := v.(iface); ok {
		if itf.t == nil {
			return "nil"
		}
		if s, ok := itf.v.(string); ok {
			return fmt.Sprintf("%s(%q)", itf.t, s)
		}
		// error values: try Error()
		if msg, ok := i.tryErrorString(itf); ok {
			return fmt.Sprintf("%s{%s}", itf.t, msg)
		}
		return fmt.Sprintf("%s(%s)", itf.t, toString(itf.v))
	}
	return toString(v)
}

func (i *interpreter) tryErrorString(itf iface) (s string, ok bool) {
	defer func() {
		if r := recover(); r != nil {
			if pa, isPA := r.(pathAbort); isPA && pa.kind != abortUnsupported && pa.kind != abortEngine {
				panic(r)
			}
			ok = false
		}
	}()
	if itf.t == nil {
		return "", false
	}
	ms := i.prog.MethodSets.MethodSet(itf.t)
	sel := ms.Lookup(nil, "Error")
	if sel == nil {
		return "", false
	}
	fn := i.prog.MethodValue(sel)
	if fn == nil {
		return "", false
	}
	r := call(i, nil, token.NoPos, fn, []value{itf.v})
	switch x := r.(type) {
	case string:
		return x, true
	case symStr:
		return x.String(), true
	}
	return "", false
}

func (i *interpreter) wantSample() bool {
	i.sampleCtr++
	if i.opts.SampleEvery <= 1 {
		return i.sampleCtr <= 64
	}
	return i.sampleCtr%i.opts.SampleEvery == 1
}

// runPath executes the harness once under the given decision prefix.
func (i *interpreter) runPath(h *ssa.Function, item workItem) (res *PathResult) {
	i.resetForPath()
	p := &pathState{prefix: item.dec, prefixVals: item.vals, vals: map[int]uint64{}}
	i.path = p
	i.sched = newSched()
	i.solver.beginPath()
	res = &PathResult{Outcome: "ok"}
	func() {
		defer func() {
			r := recover()
			if r == nil {
				return
			}
			switch x := r.(type) {
			case pathAbort:
				switch x.kind {
				case abortAssume:
					res.Outcome = "assume"
				case abortCut:
					res.Outcome = "cut"
				case abortUnsupported:
					res.Outcome = "unsupported"
				case abortEngine:
					res.Outcome = "engine"
				case abortBudget:
					// the step budget is far above what any harness needs: running out
					// of it is taken as non-termination and must be confirmed natively
					// (the native run has to time out), else it is a spurious candidate
					res.Outcome = "ok"
					i.safeViolation("hang", x.msg+" (non-termination?)")
				case abortDeadlock:
					res.Outcome = "ok"
					i.safeViolation("deadlock", x.msg)
				case abortCrash:
					res.Outcome = "ok"
					i.safeViolation("crash", x.msg)
				default:
					res.Outcome = "engine"
				}
				res.Msg = x.msg
			case targetPanic:
				res.Outcome = "ok"
				i.safeViolation("panic", "panic escaped the harness: "+i.safePanicString(x.v))
			default:
				res.Outcome = "engine"
				res.Msg = fmt.Sprintf("engine panic: %v\n%s", r, debug.Stack())
			}
		}()
		call(i, nil, token.NoPos, h, nil)
		i.sched.quiesce()
	}()
	res.Leaks = i.sched.live()
	i.sched.kill(i)
	res.Decisions = p.decisions
	res.Violations = p.violations
	res.Reach = p.reach
	res.Steps = p.steps
	res.NewDec = p.newDec
	res.Asserts = p.asserts
	res.AssertsUnk = p.assertsUnk
	if res.Outcome == "ok" && len(p.violations) == 0 && i.wantSample() {
		func() {
			defer func() { recover() }()
			m := i.currentModel()
			cp := map[string]uint64{}
			for k, v := range m {
				cp[k] = v
			}
			res.Sample = &Sample{Decisions: decString(p.decisions), Model: cp, Notes: i.evalNotes(cp)}
		}()
	}
	if len(p.pc) > 0 && len(p.pc) <= 40 {
		var parts []string
		for _, c := range p.pc {
			s := c.String()
			if len(s) > 160 {
				s = s[:160] + "…"
			}
			parts = append(parts, s)
		}
		res.PCSample = strings.Join(parts, " ∧ ")
	}
	i.solver.endPath()
	return res
}

func (i *interpreter) safePanicString(v value) (s string) {
	defer func() {
		if r := recover(); r != nil {
			s = toString(v)
		}
	}()
	return i.panicString(v)
}

func (i *interpreter) safeViolation(label, msg string) {
	defer func() { recover() }()
	m := i.currentModel()
	i.recordViolation(label, msg, m)
}

// ---- the explorer ----

// HarnessResult aggregates all paths of one harness run.
type HarnessResult struct {
	Harness      string
	Paths        int
	Outcomes     map[string]int
	Violations   []Violation
	Reach        map[string]int
	Steps        int64
	Decisions    int
	AssertsOK    int
	AssertsUnk   int
	Unknowns     int
	CutMsgs      map[string]int
	ProblemMsgs  map[string]int // unsupported / engine messages (first line)
	ProblemDetail []string
	Samples      []string
	PathSamples  []*Sample
	Leaks        int
	Wall         float64
	PathCapHit   bool
	Solver       SolverStats
	Funcs        map[string]bool
	MaxPathSteps int64
}

// Pool is a set of interpreters (one per worker) over the same SSA program.
type Pool struct {
	interps []*interpreter
	opts    Options
}

func (pl *Pool) Close() {
	for _, i := range pl.interps {
		if i.solver != nil {
			i.solver.close()
		}
	}
}

func (pl *Pool) Size() int { return len(pl.interps) }

// Run explores all paths of harness function h.
func (pl *Pool) Run(h *ssa.Function, opts Options) *HarnessResult {
	start := time.Now()
	hr := &HarnessResult{
		Harness: h.Name(), Outcomes: map[string]int{}, Reach: map[string]int{},
		CutMsgs: map[string]int{}, ProblemMsgs: map[string]int{}, Funcs: map[string]bool{},
	}
	var mu sync.Mutex
	cond := sync.NewCond(&mu)
	queue := []workItem{{}}
	inflight := 0
	stop := false
	nw := opts.Workers
	if nw > len(pl.interps) {
		nw = len(pl.interps)
	}
	if nw < 1 {
		nw = 1
	}
	before := make([]SolverStats, nw)
	var wg sync.WaitGroup
	doneCh := make(chan struct{})
	if os.Getenv("GOSYM_PROGRESS") != "" {
		go func() {
			for {
				select {
				case <-doneCh:
					return
				case <-time.After(5 * time.Second):
					mu.Lock()
					fmt.Fprintf(os.Stderr, "  .. %s: paths=%d queue=%d inflight=%d outcomes=%v viol=%d\n", h.Name(), hr.Paths, len(queue), inflight, hr.Outcomes, len(hr.Violations))
					mu.Unlock()
				}
			}
		}()
	}
	for w := 0; w < nw; w++ {
		wg.Add(1)
		in := pl.interps[w]
		in.opts = opts
		before[w] = in.solver.stats
		in.funcs = map[*ssa.Function]bool{}
		in.sampleCtr = 0
		go func(in *interpreter) {
			defer wg.Done()
			for {
				mu.Lock()
				for len(queue) == 0 && inflight > 0 && !stop {
					cond.Wait()
				}
				if stop || (len(queue) == 0 && inflight == 0) {
					mu.Unlock()
					cond.Broadcast()
					return
				}
				// depth-first: take the most recent prefix
				prefix := queue[len(queue)-1]
				queue = queue[:len(queue)-1]
				inflight++
				mu.Unlock()

				t0 := time.Now()
				q0, s0 := in.solver.stats.Queries, in.solver.stats.Seconds
				res := in.runPath(h, prefix)
				_ = prefix.dec
				if os.Getenv("GOSYM_PATHLOG") != "" {
					fmt.Fprintf(os.Stderr, "  path prefix=%d dec=%d new=%d steps=%d wall=%.3fs queries=%d solver=%.3fs outcome=%s %s\n", len(prefix.dec), len(res.Decisions), res.NewDec, res.Steps,
						time.Since(t0).Seconds(), in.solver.stats.Queries-q0, in.solver.stats.Seconds-s0, res.Outcome, firstLineOf(res.Msg))
				}

				mu.Lock()
				inflight--
				hr.Paths++
				hr.Outcomes[res.Outcome]++
				hr.Steps += res.Steps
				if res.Steps > hr.MaxPathSteps {
					hr.MaxPathSteps = res.Steps
				}
				hr.Decisions += res.NewDec
				hr.AssertsOK += res.Asserts
				hr.AssertsUnk += res.AssertsUnk
				hr.Unknowns += in.path.unknowns
				hr.Leaks += res.Leaks
				for _, l := range res.Reach {
					hr.Reach[l]++
				}
				switch res.Outcome {
				case "cut":
					hr.CutMsgs[res.Msg]++
				case "unsupported", "engine", "budget":
					m := res.Msg
					if len(m) > 1500 {
						m = m[:1500]
					}
					key := res.Outcome + ": " + firstLineOf(m)
					if hr.ProblemMsgs[key] == 0 {
						hr.ProblemDetail = append(hr.ProblemDetail, res.Outcome+": "+m)
					}
					hr.ProblemMsgs[key]++
				}
				for _, v := range res.Violations {
					if len(hr.Violations) < 400 {
						hr.Violations = append(hr.Violations, v)
					}
				}
				if len(hr.Samples) < 6 && res.Outcome == "ok" && res.PCSample != "" {
					hr.Samples = append(hr.Samples, res.PCSample)
				}
				if res.Sample != nil && len(hr.PathSamples) < opts.MaxSamples {
					res.Sample.PC = res.PCSample
					hr.PathSamples = append(hr.PathSamples, res.Sample)
				}
				queue = append(queue, in.path.siblings...)
				if hr.Paths >= opts.MaxPaths || (opts.MaxWallS > 0 && time.Since(start).Seconds() > opts.MaxWallS) {
					hr.PathCapHit = len(queue) > 0 || inflight > 0
					stop = true
				}
				if opts.MaxViolations > 0 && len(hr.Violations) >= opts.MaxViolations {
					stop = true
				}
				mu.Unlock()
				cond.Broadcast()
			}
		}(in)
	}
	wg.Wait()
	close(doneCh)
	for w := 0; w < nw; w++ {
		in := pl.interps[w]
		a, b := in.solver.stats, before[w]
		hr.Solver.Queries += a.Queries - b.Queries
		hr.Solver.Sat += a.Sat - b.Sat
		hr.Solver.Unsat += a.Unsat - b.Unsat
		hr.Solver.Unknown += a.Unknown - b.Unknown
		hr.Solver.Errors += a.Errors - b.Errors
		hr.Solver.Seconds += a.Seconds - b.Seconds
		if a.MaxQuery > hr.Solver.MaxQuery {
			hr.Solver.MaxQuery = a.MaxQuery
		}
		for f := range in.funcs {
			hr.Funcs[f.String()] = true
		}
	}
	hr.Wall = time.Since(start).Seconds()
	return hr
}

// FuncList returns the executed functions, restricted to packages with the given prefixes.
func (hr *HarnessResult) FuncList(prefixes ...string) []string {
	var out []string
	for f := range hr.Funcs {
		for _, p := range prefixes {
			if strings.Contains(f, p) {
				out = append(out, f)
				break
			}
		}
	}
	sort.Strings(out)
	return out
}

func debugf(format string, args ...interface{}) {
	if os.Getenv("GOSYM_DEBUG") != "" {
		fmt.Fprintf(os.Stderr, format+"\n", args...)
	}
}

func firstLineOf(s string) string {
	if k := strings.IndexByte(s, '\n'); k >= 0 {
		s = s[:k]
	}
	if len(s) > 300 {
		s = s[:300]
	}
	return s
}
