package interp

// A model of embed.FS.Open: the file system embedded by a //go:embed directive cannot be
// reconstructed from SSA (the compiler fills it in), so the harness names the directory
// on disk that the directive embeds (vfEmbedRoot) and Open answers from that directory,
// building real embed.openFile / embed.openDir / embed.file objects whose methods (Read,
// Stat, Close, IsDir, ...) are then the real code.

import (
	"go/types"
	iofs "io/fs"
	"os"
	"path/filepath"
)

func init() {
	externals["(embed.FS).Open"] = ext۰embed۰FS۰Open
}

func vfEmbedRoot(fr *frame, a []value) value {
	dir, _ := a[0].(string)
	fr.i.extState["embedRoot"] = dir
	if len(a) > 1 {
		pfx, _ := a[1].(string)
		fr.i.extState["embedPrefix"] = pfx // the single pattern of the //go:embed directive
	}
	return nil
}

func (i *interpreter) fsPathError(op string, name value, errVar string) value {
	fsPkg := i.prog.ImportedPackage("io/fs")
	pe := fsPkg.Type("PathError").Object().Type()
	var errv value = iface{}
	if g := i.findGlobal("io/fs." + errVar); g != nil {
		errv = *i.globals[g]
	}
	var cell value = structure{op, name, errv}
	return iface{types.NewPointer(pe), &cell}
}

func ext۰embed۰FS۰Open(fr *frame, a []value) value {
	i := fr.i
	root, _ := i.extState["embedRoot"].(string)
	if root == "" {
		panic(unsupported("embed.FS.Open without vfEmbedRoot"))
	}
	name := i.concValue(a[1]).(string)
	if !iofs.ValidPath(name) {
		return tuple{iface{}, i.fsPathError("open", name, "ErrInvalid")}
	}
	if pfx, _ := i.extState["embedPrefix"].(string); pfx != "" && name != "." && name != pfx && !(len(name) > len(pfx) && name[:len(pfx)+1] == pfx+"/") {
		return tuple{iface{}, i.fsPathError("open", name, "ErrNotExist")}
	}
	st, err := os.Stat(filepath.Join(root, filepath.FromSlash(name)))
	if err != nil {
		return tuple{iface{}, i.fsPathError("open", name, "ErrNotExist")}
	}
	ep := i.prog.ImportedPackage("embed")
	fileT := ep.Type("file").Object().Type()
	mk := func(n, data string) *value {
		var f value = zero(fileT)
		s := f.(structure)
		s[0], s[1] = n, data
		return &f
	}
	if st.IsDir() {
		dirT := ep.Type("openDir").Object().Type()
		var d value = zero(dirT)
		ds := d.(structure)
		ds[0] = mk(name+"/", "")
		return tuple{iface{types.NewPointer(dirT), &d}, iface{}}
	}
	data, rerr := os.ReadFile(filepath.Join(root, filepath.FromSlash(name)))
	if rerr != nil {
		return tuple{iface{}, i.fsPathError("open", name, "ErrNotExist")}
	}
	ofT := ep.Type("openFile").Object().Type()
	var of value = zero(ofT)
	os2 := of.(structure)
	os2[0] = mk(name, string(data))
	return tuple{iface{types.NewPointer(ofT), &of}, iface{}}
}
