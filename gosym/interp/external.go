// Copyright 2013 The Go Authors. All rights reserved.
// Use of this source code is governed by a BSD-style
// license that can be found in the LICENSE file (LICENSE.xtools).

package interp

// Summaries of functions that cannot be interpreted from their SSA: assembly
// (internal/bytealg), unsafe idioms (strings.Builder, math bits), runtime-backed
// primitives (sync, sync/atomic) and packages replaced by a model (reflect, fmt).
// Every summary used in a run is reported in the evidence ("hooks").

import (
	"fmt"
	"go/token"
	"go/types"
	"math"
	"os"
	"strings"
	"unicode"
	"unicode/utf8"

	"golang.org/x/tools/go/ssa"
)

type externalFn func(fr *frame, args []value) value

// fallThrough is returned by a summary that declines: the real body is interpreted.
type fallThrough struct{}

// Key strings are from Function.String().
var externals = make(map[string]externalFn)

// HooksUsed records which summaries were exercised (process-wide, for evidence).
var hooksUsed = map[string]bool{}

func init() {
	for k, v := range map[string]externalFn{
		"(reflect.Value).Bool":            ext۰reflect۰Value۰Bool,
		"(reflect.Value).Bytes":           ext۰reflect۰Value۰Bytes,
		"(reflect.Value).CanAddr":         ext۰reflect۰Value۰CanAddr,
		"(reflect.Value).CanSet":          ext۰reflect۰Value۰CanSet,
		"(reflect.Value).CanInterface":    ext۰reflect۰Value۰CanInterface,
		"(reflect.Value).Addr":            ext۰reflect۰Value۰Addr,
		"(reflect.Value).Elem":            ext۰reflect۰Value۰Elem,
		"(reflect.Value).Field":           ext۰reflect۰Value۰Field,
		"(reflect.Value).FieldByIndex":    ext۰reflect۰Value۰FieldByIndex,
		"(reflect.Value).FieldByName":     ext۰reflect۰Value۰FieldByName,
		"(reflect.Value).Float":           ext۰reflect۰Value۰Float,
		"(reflect.Value).Index":           ext۰reflect۰Value۰Index,
		"(reflect.Value).Slice":           ext۰reflect۰Value۰Slice,
		"(reflect.Value).Int":             ext۰reflect۰Value۰Int,
		"(reflect.Value).Interface":       ext۰reflect۰Value۰Interface,
		"(reflect.Value).IsNil":           ext۰reflect۰Value۰IsNil,
		"(reflect.Value).IsZero":          ext۰reflect۰Value۰IsZero,
		"(reflect.Value).IsValid":         ext۰reflect۰Value۰IsValid,
		"(reflect.Value).Kind":            ext۰reflect۰Value۰Kind,
		"(reflect.Value).Len":             ext۰reflect۰Value۰Len,
		"(reflect.Value).Cap":             ext۰reflect۰Value۰Cap,
		"(reflect.Value).MapIndex":        ext۰reflect۰Value۰MapIndex,
		"(reflect.Value).SetMapIndex":     ext۰reflect۰Value۰SetMapIndex,
		"(reflect.Value).MapKeys":         ext۰reflect۰Value۰MapKeys,
		"(reflect.Value).MapRange":        ext۰reflect۰Value۰MapRange,
		"(*reflect.MapIter).Next":         ext۰reflect۰MapIter۰Next,
		"(*reflect.MapIter).Key":          ext۰reflect۰MapIter۰Key,
		"(*reflect.MapIter).Value":        ext۰reflect۰MapIter۰Value,
		"(reflect.Value).SetIterKey":      ext۰reflect۰Value۰SetIterKey,
		"(reflect.Value).SetIterValue":    ext۰reflect۰Value۰SetIterValue,
		"(reflect.Value).NumField":        ext۰reflect۰Value۰NumField,
		"(reflect.Value).NumMethod":       ext۰reflect۰Value۰NumMethod,
		"(reflect.Value).MethodByName":    ext۰reflect۰Value۰MethodByName,
		"(reflect.Value).Call":            ext۰reflect۰Value۰Call,
		"(reflect.Value).Convert":         ext۰reflect۰Value۰Convert,
		"(reflect.Value).Recv":            ext۰reflect۰Value۰Recv,
		"(reflect.Value).Method":          ext۰reflect۰Value۰Method,
		"(reflect.Value).TryRecv":         ext۰reflect۰Value۰TryRecv,
		"(reflect.Value).Pointer":         ext۰reflect۰Value۰Pointer,
		"(reflect.Value).Set":             ext۰reflect۰Value۰Set,
		"(reflect.Value).String":          ext۰reflect۰Value۰String,
		"(reflect.Value).Type":            ext۰reflect۰Value۰Type,
		"(reflect.Value).Uint":            ext۰reflect۰Value۰Uint,
		"(*reflect.ValueError).Error":     ext۰reflect۰ValueError۰Error,
		"(reflect.Kind).String":           ext۰reflect۰Kind۰String,
		"(reflect.error).Error":           ext۰reflect۰error۰Error,
		"(reflect.rtype).Bits":            ext۰reflect۰rtype۰Bits,
		"(reflect.rtype).Elem":            ext۰reflect۰rtype۰Elem,
		"(reflect.rtype).Key":             ext۰reflect۰rtype۰Key,
		"(reflect.rtype).Len":             ext۰reflect۰rtype۰Len,
		"(reflect.rtype).Field":           ext۰reflect۰rtype۰Field,
		"(reflect.rtype).FieldByName":     ext۰reflect۰rtype۰FieldByName,
		"(reflect.rtype).In":              ext۰reflect۰rtype۰In,
		"(reflect.rtype).IsVariadic":      ext۰reflect۰rtype۰IsVariadic,
		"(reflect.rtype).Kind":            ext۰reflect۰rtype۰Kind,
		"(reflect.rtype).NumField":        ext۰reflect۰rtype۰NumField,
		"(reflect.rtype).NumIn":           ext۰reflect۰rtype۰NumIn,
		"(reflect.rtype).NumMethod":       ext۰reflect۰rtype۰NumMethod,
		"(reflect.rtype).MethodByName":    ext۰reflect۰rtype۰MethodByName,
		"(reflect.rtype).NumOut":          ext۰reflect۰rtype۰NumOut,
		"(reflect.rtype).Out":             ext۰reflect۰rtype۰Out,
		"(reflect.rtype).Size":            ext۰reflect۰rtype۰Size,
		"(reflect.rtype).String":          ext۰reflect۰rtype۰String,
		"(reflect.rtype).Name":            ext۰reflect۰rtype۰Name,
		"(reflect.rtype).PkgPath":         ext۰reflect۰rtype۰PkgPath,
		"(reflect.rtype).Implements":      ext۰reflect۰rtype۰Implements,
		"(reflect.rtype).AssignableTo":    ext۰reflect۰rtype۰AssignableTo,
		"(reflect.rtype).ConvertibleTo":   ext۰reflect۰rtype۰ConvertibleTo,
		"(reflect.rtype).Comparable":      ext۰reflect۰rtype۰Comparable,
		"reflect.New":                     ext۰reflect۰New,
		"reflect.SliceOf":                 ext۰reflect۰SliceOf,
		"reflect.PtrTo":                   ext۰reflect۰PtrTo,
		"reflect.PointerTo":               ext۰reflect۰PtrTo,
		"reflect.TypeOf":                  ext۰reflect۰TypeOf,
		"reflect.ValueOf":                 ext۰reflect۰ValueOf,
		"reflect.Zero":                    ext۰reflect۰Zero,
		"reflect.Indirect":                ext۰reflect۰Indirect,
		"reflect.MakeSlice":               ext۰reflect۰MakeSlice,
		"reflect.MakeMap":                 ext۰reflect۰MakeMap,
		"reflect.DeepEqual":               ext۰reflect۰DeepEqual,

		"internal/bytealg.IndexByteString": ext۰bytealg۰IndexByteString,
		"internal/bytealg.IndexByte":       ext۰bytealg۰IndexByte,
		"internal/bytealg.CountString":     ext۰bytealg۰CountString,
		"internal/bytealg.Count":           ext۰bytealg۰Count,
		"internal/bytealg.Equal":           ext۰bytealg۰Equal,
		"internal/bytealg.Compare":         ext۰bytealg۰Compare,
		"internal/bytealg.CompareString":   ext۰bytealg۰Compare,
		"internal/bytealg.MakeNoZero":      ext۰bytealg۰MakeNoZero,
		"internal/bytealg.IndexString":     ext۰bytealg۰IndexString,
		"internal/bytealg.Index":           ext۰bytealg۰IndexString,
		"internal/stringslite.Index":       ext۰bytealg۰IndexString,
		"strings.Index":                    ext۰bytealg۰IndexString,
		"internal/stringslite.Clone":      func(fr *frame, args []value) value { return args[0] },
		"strings.Clone":                    func(fr *frame, args []value) value { return args[0] },
		"internal/abi.NoEscape":            func(fr *frame, args []value) value { return args[0] },
		"(*strings.Builder).copyCheck":     func(fr *frame, args []value) value { return nil },
		"(*strings.Builder).String":        ext۰strings۰Builder۰String,
		"unsafe.String":                    nil,

		"math.Float32bits":     func(fr *frame, a []value) value { return math.Float32bits(a[0].(float32)) },
		"math.Float32frombits": func(fr *frame, a []value) value { return math.Float32frombits(a[0].(uint32)) },
		"math.Float64bits":     ext۰math۰Float64bits,
		"math.Float64frombits": func(fr *frame, a []value) value { return math.Float64frombits(a[0].(uint64)) },
		"math.Abs":             mathFn1(math.Abs),
		"math.Floor":           mathFn1(math.Floor),
		"math.Ceil":            mathFn1(math.Ceil),
		"math.Trunc":           mathFn1(math.Trunc),
		"math.Sqrt":            mathFn1(math.Sqrt),
		"math.Exp":             mathFn1(math.Exp),
		"math.Log":             mathFn1(math.Log),
		"math.Log2":            mathFn1(math.Log2),
		"math.IsNaN":           ext۰math۰IsNaN,
		"math.IsInf":           ext۰math۰IsInf,
		"math.NaN":             func(fr *frame, a []value) value { return math.NaN() },
		"math.Inf":             func(fr *frame, a []value) value { return math.Inf(a[0].(int)) },
		"math.Copysign":        func(fr *frame, a []value) value { return math.Copysign(a[0].(float64), a[1].(float64)) },
		"math.Ldexp":           func(fr *frame, a []value) value { return math.Ldexp(a[0].(float64), a[1].(int)) },
		"math.Min":             func(fr *frame, a []value) value { return math.Min(a[0].(float64), a[1].(float64)) },
		"math.Max":             func(fr *frame, a []value) value { return math.Max(a[0].(float64), a[1].(float64)) },
		"math.Mod":             func(fr *frame, a []value) value { return math.Mod(a[0].(float64), a[1].(float64)) },
		"math.Pow":             func(fr *frame, a []value) value { return math.Pow(a[0].(float64), a[1].(float64)) },
		"math.Modf":            func(fr *frame, a []value) value { x, y := math.Modf(a[0].(float64)); return tuple{x, y} },
		"math.Frexp":           func(fr *frame, a []value) value { x, y := math.Frexp(a[0].(float64)); return tuple{x, y} },

		"os.Exit":   func(fr *frame, a []value) value { panic(unsupported("os.Exit called")) },
		"os.Getenv": func(fr *frame, a []value) value { return "" },

		"runtime.GC":         func(fr *frame, a []value) value { return nil },
		"runtime.Gosched":    func(fr *frame, a []value) value { return nil },
		"runtime.GOMAXPROCS": func(fr *frame, a []value) value { return 1 },
		"runtime.NumCPU":     func(fr *frame, a []value) value { return 1 },
		"runtime.KeepAlive":  func(fr *frame, a []value) value { return nil },
		"runtime.SetFinalizer": func(fr *frame, a []value) value { return nil },

		"unicode.IsLetter": runePred("isLetter", unicode.IsLetter),
		"unicode.IsDigit":  runePred("isDigit", unicode.IsDigit),
		"unicode.IsSpace":  runePred("isSpace", unicode.IsSpace),
		"unicode.IsPrint":  runePred("isPrint", unicode.IsPrint),
		"unicode.IsUpper":  runePred("isUpper", unicode.IsUpper),
		"unicode.IsLower":  runePred("isLower", unicode.IsLower),

		"unicode/utf8.DecodeRuneInString": ext۰utf8۰DecodeRuneInString,
		"unicode/utf8.RuneCountInString":  ext۰utf8۰RuneCountInString,
		"unicode/utf8.ValidString":        ext۰utf8۰ValidString,

		"(*sync.Mutex).Lock":      ext۰sync۰Lock,
		"(*sync.Mutex).Unlock":    ext۰sync۰Unlock,
		"(*sync.Mutex).TryLock":   func(fr *frame, a []value) value { ext۰sync۰Lock(fr, a); return true },
		"(*sync.RWMutex).Lock":    ext۰sync۰Lock,
		"(*sync.RWMutex).Unlock":  ext۰sync۰Unlock,
		"(*sync.RWMutex).RLock":   ext۰sync۰RLock,
		"(*sync.RWMutex).RUnlock": ext۰sync۰RUnlock,
		"(*sync.Once).Do":         ext۰sync۰Once۰Do,
		"(*sync.Pool).Get":        ext۰sync۰Pool۰Get,
		"(*sync.Pool).Put":        ext۰sync۰Pool۰Put,
		"(*sync.Map).Load":        ext۰sync۰Map۰Load,
		"(*sync.Map).Store":       ext۰sync۰Map۰Store,
		"(*sync.Map).LoadOrStore": ext۰sync۰Map۰LoadOrStore,
		"(*sync.Map).Delete":      ext۰sync۰Map۰Delete,
		"(*sync.Map).Range":       ext۰sync۰Map۰Range,

		"sync/atomic.LoadInt32":           atomicLoad,
		"sync/atomic.LoadInt64":           atomicLoad,
		"sync/atomic.LoadUint32":          atomicLoad,
		"sync/atomic.LoadUint64":          atomicLoad,
		"sync/atomic.LoadUintptr":         atomicLoad,
		"sync/atomic.LoadPointer":         atomicLoad,
		"sync/atomic.StoreInt32":          atomicStore,
		"sync/atomic.StoreInt64":          atomicStore,
		"sync/atomic.StoreUint32":         atomicStore,
		"sync/atomic.StoreUint64":         atomicStore,
		"sync/atomic.StoreUintptr":        atomicStore,
		"sync/atomic.StorePointer":        atomicStore,
		"sync/atomic.AddInt32":            atomicAdd,
		"sync/atomic.AddInt64":            atomicAdd,
		"sync/atomic.AddUint32":           atomicAdd,
		"sync/atomic.AddUint64":           atomicAdd,
		"sync/atomic.AddUintptr":          atomicAdd,
		"sync/atomic.CompareAndSwapInt32": atomicCAS,
		"sync/atomic.CompareAndSwapInt64": atomicCAS,
		"sync/atomic.CompareAndSwapUint32": atomicCAS,
		"sync/atomic.CompareAndSwapUint64": atomicCAS,

		"fmt.Sprintf":  ext۰fmt۰Sprintf,
		"fmt.Errorf":   ext۰fmt۰Errorf,
		"fmt.Sprint":   ext۰fmt۰Sprint,
		"fmt.Sprintln": ext۰fmt۰Sprintln,
		"fmt.Fprintf":  ext۰fmt۰Fprintf,
		"fmt.Fprint":   ext۰fmt۰Fprint,
		"fmt.Fprintln": ext۰fmt۰Fprintln,
		"fmt.Sscan":    func(fr *frame, a []value) value { panic(unsupported("fmt.Sscan")) },

		"strconv.ParseFloat": ext۰strconv۰ParseFloat,
		"encoding/json.Marshal": func(fr *frame, a []value) value { panic(unsupported("encoding/json.Marshal")) },
		"(*encoding/json.Encoder).Encode": func(fr *frame, a []value) value {
			panic(unsupported("encoding/json.Encoder.Encode"))
		},
		"errors.Is": ext۰errors۰Is,
	} {
		if v != nil {
			externals[k] = v
		}
	}
}

// HookNames returns the names of all registered summaries.
func HookNames() []string {
	var out []string
	for k := range externals {
		out = append(out, k)
	}
	return out
}

func mathFn1(f func(float64) float64) externalFn {
	return func(fr *frame, a []value) value {
		x, ok := a[0].(float64)
		if !ok {
			panic(unsupported("math function on a symbolic float"))
		}
		return f(x)
	}
}

func ext۰math۰Float64bits(fr *frame, a []value) value {
	if sv, ok := a[0].(symV); ok {
		// only the "is it +0" idiom is supported symbolically elsewhere
		_ = sv
		panic(unsupported("math.Float64bits of a symbolic float"))
	}
	return math.Float64bits(a[0].(float64))
}

func ext۰math۰IsNaN(fr *frame, a []value) value {
	if sv, ok := a[0].(symV); ok {
		return fromTerm(fr.i.tt.fpIsNaN(sv.t), types.Bool)
	}
	return math.IsNaN(a[0].(float64))
}

func ext۰math۰IsInf(fr *frame, a []value) value {
	if _, ok := a[0].(symV); ok {
		return fallThrough{}
	}
	return math.IsInf(a[0].(float64), a[1].(int))
}

// runePred: concrete runes use the native table; symbolic runes become a call of the
// SMT predicate generated from the same table (solver.go).
func runePred(name string, f func(rune) bool) externalFn {
	return func(fr *frame, a []value) value {
		if sv, ok := a[0].(symV); ok {
			i := fr.i
			tt := i.tt
			// ASCII runes: a small range disjunction; others: the generated SMT predicate
			// (a large definition that is only sent to the solver on paths that need it).
			if i.branch(tt.bvCmp("bvult", sv.t, tt.bvConst(0x80, 32))) {
				r := tt.boolConst(false)
				start := -1
				for c := 0; c <= 0x80; c++ {
					in := c < 0x80 && f(rune(c))
					if in && start < 0 {
						start = c
					}
					if !in && start >= 0 {
						rng := tt.and(tt.bvCmp("bvule", tt.bvConst(uint64(start), 32), sv.t), tt.bvCmp("bvule", sv.t, tt.bvConst(uint64(c-1), 32)))
						r = tt.or(r, rng)
						start = -1
					}
				}
				return fromTerm(r, types.Bool)
			}
			t := tt.intern("call", boolSort, 0, name, sv.t)
			return symV{t, types.Bool}
		}
		return f(a[0].(int32))
	}
}

func ext۰utf8۰DecodeRuneInString(fr *frame, a []value) value {
	if s, ok := a[0].(string); ok {
		r, n := utf8.DecodeRuneInString(s)
		return tuple{r, n}
	}
	return fallThrough{}
}

func ext۰utf8۰RuneCountInString(fr *frame, a []value) value {
	if s, ok := a[0].(string); ok {
		return utf8.RuneCountInString(s)
	}
	return fallThrough{}
}

func ext۰utf8۰ValidString(fr *frame, a []value) value {
	if s, ok := a[0].(string); ok {
		return utf8.ValidString(s)
	}
	return fallThrough{}
}

// ---- internal/bytealg ----

func seqBytes(v value) []value {
	switch s := v.(type) {
	case string, symStr:
		return strBytes(s)
	case []value:
		return s
	}
	panic(fmt.Sprintf("seqBytes(%T)", v))
}

func (i *interpreter) indexByte(b []value, c value) int {
	for k, x := range b {
		if i.truth(i.symOrConcEq(x, c)) {
			return k
		}
	}
	return -1
}

func (i *interpreter) symOrConcEq(x, y value) value {
	return fromTerm(i.tt.eq(i.toTerm(x), i.toTerm(y)), types.Bool)
}

func ext۰bytealg۰IndexByteString(fr *frame, a []value) value {
	if s, ok := a[0].(string); ok {
		if c, ok := a[1].(uint8); ok {
			return strings.IndexByte(s, c)
		}
	}
	return fr.i.indexByte(seqBytes(a[0]), a[1])
}

func ext۰bytealg۰IndexByte(fr *frame, a []value) value {
	return fr.i.indexByte(seqBytes(a[0]), a[1])
}

func ext۰bytealg۰CountString(fr *frame, a []value) value {
	n := 0
	for _, x := range seqBytes(a[0]) {
		if fr.i.truth(fr.i.symOrConcEq(x, a[1])) {
			n++
		}
	}
	return n
}

func ext۰bytealg۰Count(fr *frame, a []value) value {
	return ext۰bytealg۰CountString(fr, a)
}

func ext۰bytealg۰Equal(fr *frame, a []value) value {
	x, y := seqBytes(a[0]), seqBytes(a[1])
	if len(x) != len(y) {
		return false
	}
	return fromTerm(fr.i.strEqTerm(symStr{x}, symStr{y}), types.Bool)
}

func ext۰bytealg۰Compare(fr *frame, a []value) value {
	i := fr.i
	x, y := symStr{seqBytes(a[0])}, symStr{seqBytes(a[1])}
	if i.truth(fromTerm(i.strEqTerm(x, y), types.Bool)) {
		return 0
	}
	if i.truth(fromTerm(i.strLessTerm(x, y), types.Bool)) {
		return -1
	}
	return 1
}

func ext۰bytealg۰MakeNoZero(fr *frame, a []value) value {
	n := int(fr.i.concInt(a[0]))
	s := make([]value, n)
	for k := range s {
		s[k] = uint8(0)
	}
	return s
}

// IndexString / strings.Index: first occurrence, by direct search. With symbolic
// bytes each candidate position is one (possibly forking) equality decision.
func ext۰bytealg۰IndexString(fr *frame, a []value) value {
	i := fr.i
	if s, ok := a[0].(string); ok {
		if sub, ok := a[1].(string); ok {
			return strings.Index(s, sub)
		}
	}
	s, sub := seqBytes(a[0]), seqBytes(a[1])
	n := len(sub)
	for k := 0; k+n <= len(s); k++ {
		if i.truth(fromTerm(i.strEqTerm(symStr{s[k : k+n]}, symStr{sub}), types.Bool)) {
			return k
		}
	}
	return -1
}

func ext۰strings۰Builder۰String(fr *frame, a []value) value {
	p := a[0].(*value)
	if p == nil {
		panic(fr.i.rtPanic("invalid memory address or nil pointer dereference"))
	}
	st := (*p).(structure)
	// type Builder struct { addr *Builder; buf []byte }
	buf := st[1].([]value)
	return normStr(buf)
}

// ---- sync ----

func ext۰sync۰Lock(fr *frame, a []value) value {
	p := a[0].(*value)
	i := fr.i
	if i.race != nil {
		i.schedPoint()
		for i.locks[p] != 0 {
			// a writer that waits keeps new readers out (sync.RWMutex): see RLock
			i.race.wpending[p]++
			i.waitOn(p)
			i.race.wpending[p]--
		}
		i.locks[p] = -1
		i.raceAcquire(p)
		i.raceAcquireRead(p)
		i.lockEvent("lock", p)
		return nil
	}
	if fr.i.locks[p] != 0 {
		panic(pathAbort{kind: abortDeadlock, msg: "sync: Lock of a mutex that is already held (self-deadlock)"})
	}
	fr.i.locks[p] = -1
	fr.i.lockEvent("lock", p)
	return nil
}

func ext۰sync۰Unlock(fr *frame, a []value) value {
	p := a[0].(*value)
	if fr.i.locks[p] != -1 {
		panic(targetPanic{iface{types.Typ[types.String], "sync: unlock of unlocked mutex"}})
	}
	fr.i.locks[p] = 0
	fr.i.lockEvent("unlock", p)
	if fr.i.race != nil {
		fr.i.raceRelease(p)
		fr.i.wake(p)
		fr.i.schedPoint()
	}
	return nil
}

func ext۰sync۰RLock(fr *frame, a []value) value {
	p := a[0].(*value)
	if i := fr.i; i.race != nil {
		i.schedPoint()
		for i.locks[p] < 0 || i.race.wpending[p] > 0 {
			i.waitOn(p)
		}
		i.locks[p]++
		i.raceAcquire(p)
		i.lockEvent("rlock", p)
		return nil
	}
	if fr.i.locks[p] < 0 {
		panic(pathAbort{kind: abortDeadlock, msg: "sync: RLock of a mutex that is write-locked (self-deadlock)"})
	}
	fr.i.locks[p]++
	fr.i.lockEvent("rlock", p)
	return nil
}

func ext۰sync۰RUnlock(fr *frame, a []value) value {
	p := a[0].(*value)
	if fr.i.locks[p] <= 0 {
		panic(targetPanic{iface{types.Typ[types.String], "sync: RUnlock of unlocked RWMutex"}})
	}
	fr.i.locks[p]--
	fr.i.lockEvent("runlock", p)
	if fr.i.race != nil {
		fr.i.raceReleaseRead(p)
		if fr.i.locks[p] == 0 {
			fr.i.wake(p)
		}
		fr.i.schedPoint()
	}
	return nil
}

// lockEvent is a hook point for the lock-discipline monitor (monitor.go).
func (i *interpreter) lockEvent(kind string, p *value) {
	if i.monitor != nil {
		i.monitor.lockEvent(i, kind, p)
	}
}

// sync.Once: the done flag is kept in the object itself (its atomic.Uint32 field), so
// that it shares the lifetime of the object - objects owned by packages that are not
// re-initialised per path (e.g. html's escaper) must stay "done" across paths.
func ext۰sync۰Once۰Do(fr *frame, a []value) value {
	p := a[0].(*value)
	if p == nil {
		panic(fr.i.rtPanic("invalid memory address or nil pointer dereference"))
	}
	once := (*p).(structure)
	done := once[0].(structure) // atomic.Uint32{_ noCopy; v uint32}
	if i := fr.i; i.race != nil {
		// concurrent callers wait until the first one has finished
		i.schedPoint()
		type onceRunning struct{ p *value }
		key := onceRunning{p}
		for done[len(done)-1].(uint32) == 0 && i.race.wg[p] != 0 {
			i.waitOn(key)
		}
		if done[len(done)-1].(uint32) != 0 {
			i.raceAcquire(p)
			return nil
		}
		i.race.wg[p] = 1
		defer func() {
			done[len(done)-1] = uint32(1)
			i.race.wg[p] = 0
			i.raceRelease(p)
			i.wake(key)
		}()
		call(i, fr, token.NoPos, a[1], nil)
		return nil
	}
	if done[len(done)-1].(uint32) != 0 {
		return nil
	}
	defer func() { done[len(done)-1] = uint32(1) }()
	call(fr.i, fr, token.NoPos, a[1], nil)
	return nil
}

// sync.Pool: Get returns a previously Put object if there is one (LIFO), else New().
// This makes object reuse deterministic and maximal, which is the interesting case
// for residue between uses.
func ext۰sync۰Pool۰Get(fr *frame, a []value) value {
	p := a[0].(*value)
	if fr.i.race != nil {
		fr.i.schedPoint()
		fr.i.raceAcquire(p)
	}
	if l := fr.i.pools[p]; len(l) > 0 {
		v := l[len(l)-1]
		fr.i.pools[p] = l[:len(l)-1]
		return v
	}
	st := (*p).(structure)
	// type Pool struct { noCopy; local; localSize; victim; victimSize; New func() any }
	newFn := st[len(st)-1]
	if isNilRef(newFn) {
		return iface{}
	}
	return call(fr.i, fr, token.NoPos, newFn, nil)
}

func ext۰sync۰Pool۰Put(fr *frame, a []value) value {
	p := a[0].(*value)
	if itf, ok := a[1].(iface); ok && itf.t == nil {
		return nil
	}
	fr.i.pools[p] = append(fr.i.pools[p], a[1])
	if fr.i.race != nil {
		fr.i.raceRelease(p)
		fr.i.schedPoint()
	}
	return nil
}

func (i *interpreter) syncMap(p *value) *gmap {
	if i.race != nil {
		// every sync.Map operation is atomic: ordered with every other on the same map
		i.schedPoint()
		i.raceAcquire(p)
		i.raceRelease(p)
	}
	m := i.syncMaps[p]
	if m == nil {
		m = makeMap(types.NewInterfaceType(nil, nil), 0).(*gmap)
		i.syncMaps[p] = m
	}
	return m
}

func ext۰sync۰Map۰Load(fr *frame, a []value) value {
	m := fr.i.syncMap(a[0].(*value))
	if v, ok := m.lookup(fr.i, a[1]); ok {
		return tuple{v, true}
	}
	return tuple{iface{}, false}
}

func ext۰sync۰Map۰Store(fr *frame, a []value) value {
	fr.i.syncMap(a[0].(*value)).insert(fr.i, a[1], a[2])
	return nil
}

func ext۰sync۰Map۰LoadOrStore(fr *frame, a []value) value {
	m := fr.i.syncMap(a[0].(*value))
	if v, ok := m.lookup(fr.i, a[1]); ok {
		return tuple{v, true}
	}
	m.insert(fr.i, a[1], a[2])
	return tuple{a[2], false}
}

func ext۰sync۰Map۰Delete(fr *frame, a []value) value {
	fr.i.syncMap(a[0].(*value)).delete(fr.i, a[1])
	return nil
}

func ext۰sync۰Map۰Range(fr *frame, a []value) value {
	m := fr.i.syncMap(a[0].(*value))
	for _, e := range m.liveEntries() {
		r := call(fr.i, fr, token.NoPos, a[1], []value{e.key, e.val})
		if !fr.i.truth(r) {
			break
		}
	}
	return nil
}

func atomicLoad(fr *frame, a []value) value {
	p := a[0].(*value)
	if p == nil {
		panic(fr.i.rtPanic("invalid memory address or nil pointer dereference"))
	}
	atomicSync(fr, p)
	return *p
}

// atomicSync: an atomic operation is a scheduling point and is ordered with every other
// atomic operation on the same address.
func atomicSync(fr *frame, p *value) {
	if fr.i.race != nil {
		fr.i.schedPoint()
		fr.i.raceAcquire(p)
		fr.i.raceRelease(p)
	}
}

func atomicStore(fr *frame, a []value) value {
	p := a[0].(*value)
	if p == nil {
		panic(fr.i.rtPanic("invalid memory address or nil pointer dereference"))
	}
	atomicSync(fr, p)
	*p = a[1]
	return nil
}

func atomicAdd(fr *frame, a []value) value {
	p := a[0].(*value)
	if p == nil {
		panic(fr.i.rtPanic("invalid memory address or nil pointer dereference"))
	}
	atomicSync(fr, p)
	*p = binop(fr.i, token.ADD, nil, *p, a[1])
	return *p
}

func atomicCAS(fr *frame, a []value) value {
	p := a[0].(*value)
	atomicSync(fr, p)
	if fr.i.truth(equalsV(fr.i, nil, *p, a[1])) {
		*p = a[2]
		return true
	}
	return false
}

// strconv.ParseFloat: the real algorithm (Eisel-Lemire, multi-precision fallback) is far
// outside what a solver can decide symbolically; a symbolic argument is concretised by
// forking over its feasible byte values (the caller has normally already constrained
// them to number syntax), then the real code runs on the concrete string.
func ext۰strconv۰ParseFloat(fr *frame, a []value) value {
	if _, ok := a[0].(symStr); ok {
		a[0] = fr.i.concValue(a[0])
	}
	return fallThrough{}
}

func ext۰errors۰Is(fr *frame, a []value) value {
	// identity comparison along the (unmodelled) Unwrap chain's head only
	x, y := a[0].(iface), a[1].(iface)
	if x.t == nil || y.t == nil {
		return x.t == nil && y.t == nil
	}
	if !types.Identical(x.t, y.t) || !types.Comparable(x.t) {
		return false
	}
	return equalsV(fr.i, x.t, x.v, y.v)
}

var _ = os.Stderr
var _ *ssa.Function
