package interp

// A summary of encoding/json.Marshal and (*json.Encoder).Encode: the operand is converted
// to a native Go value of an equivalent (reflect-built) type and marshalled by the real
// encoding/json. Symbolic strings and integers are concretised (forking, bounded by
// MaxConcretize). Types with their own MarshalJSON / MarshalText are not supported (their
// methods would have to run inside the engine in the middle of the native encoder).

import (
	"bytes"
	"encoding/json"
	"go/types"
	"reflect"
)

func init() {
	externals["encoding/json.Marshal"] = func(fr *frame, a []value) value {
		i := fr.i
		b, err := i.jsonMarshal(a[0], true)
		if err != nil {
			return tuple{[]value(nil), i.newError(err.Error())}
		}
		return tuple{bytesToValues(b), iface{}}
	}
	externals["(*encoding/json.Encoder).Encode"] = func(fr *frame, a []value) value {
		i := fr.i
		enc := (*a[0].(*value)).(structure)
		escape, _ := enc[2].(bool)
		b, err := i.jsonMarshal(a[1], escape)
		if err != nil {
			return i.newError(err.Error())
		}
		b = append(b, '\n')
		r, ok := i.callMethod(fr, enc[0].(iface), "Write", bytesToValues(b))
		if !ok {
			panic(i.rtPanic("invalid memory address or nil pointer dereference (nil io.Writer)"))
		}
		return r.(tuple)[1]
	}
}

func bytesToValues(b []byte) []value {
	out := make([]value, len(b))
	for k, c := range b {
		out[k] = c
	}
	return out
}

func (i *interpreter) jsonMarshal(v value, escapeHTML bool) ([]byte, error) {
	itf, _ := v.(iface)
	var nv interface{}
	if itf.t != nil {
		nv = i.toNative(itf.t, itf.v, 0).Interface()
	}
	var buf bytes.Buffer
	e := json.NewEncoder(&buf)
	e.SetEscapeHTML(escapeHTML)
	if err := e.Encode(nv); err != nil {
		return nil, err
	}
	return bytes.TrimSuffix(buf.Bytes(), []byte("\n")), nil
}

func (i *interpreter) nativeType(t types.Type, depth int) reflect.Type {
	if depth > 12 {
		panic(unsupported("json: type nesting too deep (recursive type?)"))
	}
	if _, isNamed := t.(*types.Named); isNamed || isPtrToNamed(t) {
		ms := i.prog.MethodSets.MethodSet(t)
		if ms.Lookup(nil, "MarshalJSON") != nil || ms.Lookup(nil, "MarshalText") != nil {
			panic(unsupported("json: type %s has its own marshaller", typeString(t)))
		}
	}
	switch u := t.Underlying().(type) {
	case *types.Basic:
		switch u.Kind() {
		case types.Bool:
			return reflect.TypeOf(false)
		case types.Int:
			return reflect.TypeOf(int(0))
		case types.Int8:
			return reflect.TypeOf(int8(0))
		case types.Int16:
			return reflect.TypeOf(int16(0))
		case types.Int32:
			return reflect.TypeOf(int32(0))
		case types.Int64:
			return reflect.TypeOf(int64(0))
		case types.Uint:
			return reflect.TypeOf(uint(0))
		case types.Uint8:
			return reflect.TypeOf(uint8(0))
		case types.Uint16:
			return reflect.TypeOf(uint16(0))
		case types.Uint32:
			return reflect.TypeOf(uint32(0))
		case types.Uint64:
			return reflect.TypeOf(uint64(0))
		case types.Uintptr:
			return reflect.TypeOf(uintptr(0))
		case types.Float32:
			return reflect.TypeOf(float32(0))
		case types.Float64:
			return reflect.TypeOf(float64(0))
		case types.String:
			return reflect.TypeOf("")
		}
	case *types.Interface:
		return reflect.TypeOf((*interface{})(nil)).Elem()
	case *types.Slice:
		return reflect.SliceOf(i.nativeType(u.Elem(), depth+1))
	case *types.Array:
		return reflect.ArrayOf(int(u.Len()), i.nativeType(u.Elem(), depth+1))
	case *types.Map:
		return reflect.MapOf(i.nativeType(u.Key(), depth+1), i.nativeType(u.Elem(), depth+1))
	case *types.Pointer:
		return reflect.PointerTo(i.nativeType(u.Elem(), depth+1))
	case *types.Struct:
		var fs []reflect.StructField
		for k := 0; k < u.NumFields(); k++ {
			f := u.Field(k)
			if !f.Exported() {
				continue // ignored by encoding/json (embedded unexported structs are not supported here)
			}
			if f.Embedded() {
				panic(unsupported("json: embedded field %s", f.Name()))
			}
			fs = append(fs, reflect.StructField{Name: f.Name(), Type: i.nativeType(f.Type(), depth+1), Tag: reflect.StructTag(u.Tag(k))})
		}
		return reflect.StructOf(fs)
	}
	panic(unsupported("json: value of type %s", typeString(t)))
}

func isPtrToNamed(t types.Type) bool {
	if p, ok := t.(*types.Pointer); ok {
		_, n := p.Elem().(*types.Named)
		return n
	}
	return false
}

func (i *interpreter) toNative(t types.Type, v value, depth int) reflect.Value {
	nt := i.nativeType(t, depth)
	out := reflect.New(nt).Elem()
	switch u := t.Underlying().(type) {
	case *types.Basic:
		c := i.concValue(v)
		out.Set(reflect.ValueOf(c).Convert(nt))
	case *types.Interface:
		itf, _ := v.(iface)
		if itf.t != nil {
			if _, isR := itf.v.(rtype); isR {
				panic(unsupported("json: reflect.Type operand"))
			}
			out.Set(i.toNative(itf.t, itf.v, depth+1))
		}
	case *types.Slice:
		x, _ := v.([]value)
		if x != nil {
			s := reflect.MakeSlice(nt, len(x), len(x))
			for k, e := range x {
				s.Index(k).Set(i.toNative(u.Elem(), e, depth+1))
			}
			out.Set(s)
		}
	case *types.Array:
		for k, e := range v.(array) {
			out.Index(k).Set(i.toNative(u.Elem(), e, depth+1))
		}
	case *types.Map:
		x, _ := v.(*gmap)
		if x != nil {
			m := reflect.MakeMap(nt)
			for _, e := range x.liveEntries() {
				m.SetMapIndex(i.toNative(u.Key(), e.key, depth+1), i.toNative(u.Elem(), e.val, depth+1))
			}
			out.Set(m)
		}
	case *types.Pointer:
		x, _ := v.(*value)
		if x != nil {
			p := reflect.New(nt.Elem())
			p.Elem().Set(i.toNative(u.Elem(), *x, depth+1))
			out.Set(p)
		}
	case *types.Struct:
		x := v.(structure)
		n := 0
		for k := 0; k < u.NumFields(); k++ {
			if !u.Field(k).Exported() {
				continue
			}
			out.Field(n).Set(i.toNative(u.Field(k).Type(), x[k], depth+1))
			n++
		}
	}
	return out
}
