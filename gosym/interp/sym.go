package interp

// Symbolic terms: hash-consed, constant-folded SMT-LIB2 expressions.
//
// Sorts: Bool, bit-vectors of width 8/16/32/64 (Go's wrapping integers) and
// IEEE double (Go float64; float32 values are widened, see symops.go).

import (
	"fmt"
	"math"
	"math/bits"
	"strings"
)

type sortKind uint8

const (
	sBool sortKind = iota
	sBV
	sFP
)

type Sort struct {
	k sortKind
	w int // bit width for sBV; 64 for sFP
}

func (s Sort) String() string {
	switch s.k {
	case sBool:
		return "Bool"
	case sBV:
		return fmt.Sprintf("(_ BitVec %d)", s.w)
	default:
		return "(_ FloatingPoint 11 53)"
	}
}

var boolSort = Sort{sBool, 0}
var fpSort = Sort{sFP, 64}

func bvSort(w int) Sort { return Sort{sBV, w} }

// Term is a node of the expression DAG.
type Term struct {
	op    string // "const", "var", or an SMT operator name
	args  []*Term
	sort  Sort
	val   uint64 // constant payload (bv value / bool 0-1 / float64 bits)
	name  string // variable name, or extra parameter (extract hi:lo, extension amount)
	id    int
	named bool // already defined in the solver
}

func (t *Term) isConst() bool { return t.op == "const" }

// termTable hash-conses terms for one worker.
type termTable struct {
	byKey map[string]*Term
	all   []*Term
	vars  []*Term
}

func newTermTable() *termTable {
	return &termTable{byKey: make(map[string]*Term)}
}

func (tt *termTable) intern(op string, sort Sort, val uint64, name string, args ...*Term) *Term {
	var sb strings.Builder
	sb.WriteString(op)
	sb.WriteByte('|')
	sb.WriteString(sort.String())
	sb.WriteByte('|')
	if op == "const" {
		fmt.Fprintf(&sb, "%x", val)
	}
	sb.WriteString(name)
	for _, a := range args {
		fmt.Fprintf(&sb, "|%d", a.id)
	}
	k := sb.String()
	if t, ok := tt.byKey[k]; ok {
		return t
	}
	t := &Term{op: op, args: args, sort: sort, val: val, name: name, id: len(tt.all)}
	tt.byKey[k] = t
	tt.all = append(tt.all, t)
	if op == "var" {
		tt.vars = append(tt.vars, t)
	}
	return t
}

func mask(w int) uint64 {
	if w >= 64 {
		return ^uint64(0)
	}
	return (uint64(1) << uint(w)) - 1
}

func signExt(v uint64, w int) int64 {
	if w >= 64 {
		return int64(v)
	}
	sh := uint(64 - w)
	return int64(v<<sh) >> sh
}

func (tt *termTable) bvConst(v uint64, w int) *Term {
	return tt.intern("const", bvSort(w), v&mask(w), "")
}

func (tt *termTable) boolConst(b bool) *Term {
	if b {
		return tt.intern("const", boolSort, 1, "")
	}
	return tt.intern("const", boolSort, 0, "")
}

func (tt *termTable) fpConst(f float64) *Term {
	return tt.intern("const", fpSort, math.Float64bits(f), "")
}

func (tt *termTable) mkVar(name string, s Sort) *Term {
	return tt.intern("var", s, 0, name)
}

func (t *Term) constBool() (bool, bool) {
	if t.op == "const" && t.sort.k == sBool {
		return t.val == 1, true
	}
	return false, false
}

// ---- boolean connectives ----

func (tt *termTable) not(a *Term) *Term {
	if b, ok := a.constBool(); ok {
		return tt.boolConst(!b)
	}
	if a.op == "not" {
		return a.args[0]
	}
	return tt.intern("not", boolSort, 0, "", a)
}

func (tt *termTable) and(a, b *Term) *Term {
	if v, ok := a.constBool(); ok {
		if v {
			return b
		}
		return a
	}
	if v, ok := b.constBool(); ok {
		if v {
			return a
		}
		return b
	}
	if a == b {
		return a
	}
	if (a.op == "not" && a.args[0] == b) || (b.op == "not" && b.args[0] == a) {
		return tt.boolConst(false)
	}
	return tt.intern("and", boolSort, 0, "", a, b)
}

func (tt *termTable) or(a, b *Term) *Term {
	if v, ok := a.constBool(); ok {
		if v {
			return a
		}
		return b
	}
	if v, ok := b.constBool(); ok {
		if v {
			return b
		}
		return a
	}
	if a == b {
		return a
	}
	if (a.op == "not" && a.args[0] == b) || (b.op == "not" && b.args[0] == a) {
		return tt.boolConst(true)
	}
	return tt.intern("or", boolSort, 0, "", a, b)
}

func (tt *termTable) ite(c, a, b *Term) *Term {
	if v, ok := c.constBool(); ok {
		if v {
			return a
		}
		return b
	}
	if a == b {
		return a
	}
	if a.sort.k == sBool {
		if av, ok := a.constBool(); ok {
			if bv, ok2 := b.constBool(); ok2 {
				if av && !bv {
					return c
				}
				if !av && bv {
					return tt.not(c)
				}
			}
		}
	}
	return tt.intern("ite", a.sort, 0, "", c, a, b)
}

func (tt *termTable) eq(a, b *Term) *Term {
	if a == b {
		if a.sort.k != sFP {
			return tt.boolConst(true)
		}
	}
	if a.isConst() && b.isConst() {
		if a.sort.k == sFP {
			return tt.boolConst(math.Float64frombits(a.val) == math.Float64frombits(b.val))
		}
		return tt.boolConst(a.val == b.val)
	}
	if a.sort.k == sFP {
		return tt.intern("fp.eq", boolSort, 0, "", a, b)
	}
	if a.sort.k == sBool {
		if v, ok := a.constBool(); ok {
			if v {
				return b
			}
			return tt.not(b)
		}
		if v, ok := b.constBool(); ok {
			if v {
				return a
			}
			return tt.not(a)
		}
	}
	if a.id > b.id {
		a, b = b, a
	}
	return tt.intern("=", boolSort, 0, "", a, b)
}

// ---- bit-vector operations ----

func (tt *termTable) bvBin(op string, a, b *Term) *Term {
	w := a.sort.w
	if a.sort != b.sort {
		panic(fmt.Sprintf("bvBin %s: sort mismatch %v %v", op, a.sort, b.sort))
	}
	if a.isConst() && b.isConst() {
		x, y := a.val, b.val
		var r uint64
		switch op {
		case "bvadd":
			r = x + y
		case "bvsub":
			r = x - y
		case "bvmul":
			r = x * y
		case "bvand":
			r = x & y
		case "bvor":
			r = x | y
		case "bvxor":
			r = x ^ y
		case "bvudiv":
			if y == 0 {
				r = mask(w)
			} else {
				r = x / y
			}
		case "bvurem":
			if y == 0 {
				r = x
			} else {
				r = x % y
			}
		case "bvsdiv":
			sx, sy := signExt(x, w), signExt(y, w)
			if sy == 0 {
				if sx < 0 {
					r = 1
				} else {
					r = mask(w)
				}
			} else if sy == -1 {
				r = uint64(-sx)
			} else {
				r = uint64(sx / sy)
			}
		case "bvsrem":
			sx, sy := signExt(x, w), signExt(y, w)
			if sy == 0 {
				r = x
			} else if sy == -1 {
				r = 0
			} else {
				r = uint64(sx % sy)
			}
		case "bvshl":
			if y >= uint64(w) {
				r = 0
			} else {
				r = x << y
			}
		case "bvlshr":
			if y >= uint64(w) {
				r = 0
			} else {
				r = x >> y
			}
		case "bvashr":
			sx := signExt(x, w)
			if y >= uint64(w) {
				y = uint64(w - 1)
				if w == 64 {
					y = 63
				}
			}
			r = uint64(sx >> y)
		default:
			panic("bvBin fold: " + op)
		}
		return tt.bvConst(r, w)
	}
	// light algebraic simplification
	switch op {
	case "bvadd", "bvor", "bvxor":
		if a.isConst() && a.val == 0 {
			return b
		}
		if b.isConst() && b.val == 0 {
			return a
		}
	case "bvsub", "bvshl", "bvlshr", "bvashr":
		if b.isConst() && b.val == 0 {
			return a
		}
	case "bvand":
		if a.isConst() && a.val == mask(w) {
			return b
		}
		if b.isConst() && b.val == mask(w) {
			return a
		}
		if (a.isConst() && a.val == 0) || (b.isConst() && b.val == 0) {
			return tt.bvConst(0, w)
		}
	case "bvmul":
		if a.isConst() && a.val == 1 {
			return b
		}
		if b.isConst() && b.val == 1 {
			return a
		}
	}
	return tt.intern(op, a.sort, 0, "", a, b)
}

func (tt *termTable) bvNeg(a *Term) *Term {
	if a.isConst() {
		return tt.bvConst(-a.val, a.sort.w)
	}
	return tt.intern("bvneg", a.sort, 0, "", a)
}

func (tt *termTable) bvNot(a *Term) *Term {
	if a.isConst() {
		return tt.bvConst(^a.val, a.sort.w)
	}
	return tt.intern("bvnot", a.sort, 0, "", a)
}

func (tt *termTable) bvCmp(op string, a, b *Term) *Term {
	if a.sort != b.sort {
		panic(fmt.Sprintf("bvCmp %s: sort mismatch %v %v", op, a.sort, b.sort))
	}
	w := a.sort.w
	if a.isConst() && b.isConst() {
		var r bool
		switch op {
		case "bvult":
			r = a.val < b.val
		case "bvule":
			r = a.val <= b.val
		case "bvslt":
			r = signExt(a.val, w) < signExt(b.val, w)
		case "bvsle":
			r = signExt(a.val, w) <= signExt(b.val, w)
		}
		return tt.boolConst(r)
	}
	if a == b {
		return tt.boolConst(op == "bvule" || op == "bvsle")
	}
	return tt.intern(op, boolSort, 0, "", a, b)
}

// resize converts a bit-vector to width w (truncate, or sign/zero extend).
func (tt *termTable) resize(a *Term, w int, signed bool) *Term {
	aw := a.sort.w
	if aw == w {
		return a
	}
	if a.isConst() {
		if w < aw {
			return tt.bvConst(a.val, w)
		}
		if signed {
			return tt.bvConst(uint64(signExt(a.val, aw)), w)
		}
		return tt.bvConst(a.val, w)
	}
	if w < aw {
		// look through an extension of a narrower value
		if (a.op == "zext" || a.op == "sext") && a.args[0].sort.w == w {
			return a.args[0]
		}
		return tt.intern("extract", bvSort(w), 0, fmt.Sprintf("%d 0", w-1), a)
	}
	if signed {
		return tt.intern("sext", bvSort(w), 0, fmt.Sprintf("%d", w-aw), a)
	}
	return tt.intern("zext", bvSort(w), 0, fmt.Sprintf("%d", w-aw), a)
}

// ---- floating point ----

func (tt *termTable) fpBin(op string, a, b *Term) *Term {
	if a.isConst() && b.isConst() {
		x, y := math.Float64frombits(a.val), math.Float64frombits(b.val)
		switch op {
		case "fp.add":
			return tt.fpConst(x + y)
		case "fp.sub":
			return tt.fpConst(x - y)
		case "fp.mul":
			return tt.fpConst(x * y)
		case "fp.div":
			return tt.fpConst(x / y)
		}
	}
	return tt.intern(op, fpSort, 0, "", a, b)
}

func (tt *termTable) fpNeg(a *Term) *Term {
	if a.isConst() {
		return tt.fpConst(-math.Float64frombits(a.val))
	}
	return tt.intern("fp.neg", fpSort, 0, "", a)
}

func (tt *termTable) fpCmp(op string, a, b *Term) *Term {
	if a.isConst() && b.isConst() {
		x, y := math.Float64frombits(a.val), math.Float64frombits(b.val)
		switch op {
		case "fp.lt":
			return tt.boolConst(x < y)
		case "fp.leq":
			return tt.boolConst(x <= y)
		case "fp.gt":
			return tt.boolConst(x > y)
		case "fp.geq":
			return tt.boolConst(x >= y)
		}
	}
	return tt.intern(op, boolSort, 0, "", a, b)
}

func (tt *termTable) fpIsNaN(a *Term) *Term {
	if a.isConst() {
		f := math.Float64frombits(a.val)
		return tt.boolConst(f != f)
	}
	return tt.intern("fp.isNaN", boolSort, 0, "", a)
}

// intToFP converts a bit-vector (signed or unsigned) to float64, round-nearest-even.
func (tt *termTable) intToFP(a *Term, signed bool) *Term {
	if a.isConst() {
		if signed {
			return tt.fpConst(float64(signExt(a.val, a.sort.w)))
		}
		return tt.fpConst(float64(a.val))
	}
	if signed {
		return tt.intern("to_fp_s", fpSort, 0, "", a)
	}
	return tt.intern("to_fp_u", fpSort, 0, "", a)
}

// fpToInt converts float64 to a bit-vector of width w with Go/amd64 semantics
// for in-range values (truncation toward zero). Out-of-range/NaN inputs give
// 0x8000.. for 64-bit signed, as CVTTSD2SQ does; narrower widths truncate that.
func (tt *termTable) fpToInt(a *Term, w int, signed bool) *Term {
	if a.isConst() {
		f := math.Float64frombits(a.val)
		if signed {
			return tt.bvConst(uint64(int64(f)), w)
		}
		return tt.bvConst(uint64(f), w)
	}
	// Encode through a 64-bit signed conversion guarded for range.
	lo := tt.fpConst(-9223372036854775808.0)
	hi := tt.fpConst(9223372036854775808.0)
	inRange := tt.and(tt.fpCmp("fp.geq", a, lo), tt.fpCmp("fp.lt", a, hi))
	conv := tt.intern("fp.to_sbv64", bvSort(64), 0, "", a)
	r := tt.ite(inRange, conv, tt.bvConst(1<<63, 64))
	if !signed {
		// amd64 uint64(f): for f >= 2^63 uses f-2^63 path; model: in [2^63,2^64) exact.
		hi2 := tt.fpConst(18446744073709551616.0)
		big := tt.and(tt.fpCmp("fp.geq", a, hi), tt.fpCmp("fp.lt", a, hi2))
		convU := tt.intern("fp.to_ubv64", bvSort(64), 0, "", a)
		r = tt.ite(big, convU, r)
	}
	return tt.resize(r, w, false)
}

// ---- printing ----

func (t *Term) ref() string {
	switch t.op {
	case "const":
		switch t.sort.k {
		case sBool:
			if t.val == 1 {
				return "true"
			}
			return "false"
		case sBV:
			if t.sort.w%4 == 0 {
				return fmt.Sprintf("#x%0*x", t.sort.w/4, t.val)
			}
			return fmt.Sprintf("#b%0*b", t.sort.w, t.val)
		default:
			b := t.val
			return fmt.Sprintf("(fp #b%b #b%011b #x%013x)", b>>63, (b>>52)&0x7ff, b&((1<<52)-1))
		}
	case "var":
		return "|" + t.name + "|"
	}
	return fmt.Sprintf("$t%d", t.id) // "$": cannot collide with a harness variable name such as |t4|
}

// def returns the SMT-LIB body of a non-leaf term in terms of its children's refs.
func (t *Term) def() string {
	a := func(i int) string { return t.args[i].ref() }
	switch t.op {
	case "extract":
		return fmt.Sprintf("((_ extract %s) %s)", t.name, a(0))
	case "zext":
		return fmt.Sprintf("((_ zero_extend %s) %s)", t.name, a(0))
	case "sext":
		return fmt.Sprintf("((_ sign_extend %s) %s)", t.name, a(0))
	case "fp.add", "fp.sub", "fp.mul", "fp.div":
		return fmt.Sprintf("(%s RNE %s %s)", t.op, a(0), a(1))
	case "to_fp_s":
		return fmt.Sprintf("((_ to_fp 11 53) RNE %s)", a(0))
	case "to_fp_u":
		return fmt.Sprintf("((_ to_fp_unsigned 11 53) RNE %s)", a(0))
	case "fp.to_sbv64":
		return fmt.Sprintf("((_ fp.to_sbv 64) RTZ %s)", a(0))
	case "fp.to_ubv64":
		return fmt.Sprintf("((_ fp.to_ubv 64) RTZ %s)", a(0))
	case "call":
		var sb strings.Builder
		sb.WriteString("(" + t.name)
		for i := range t.args {
			sb.WriteString(" " + a(i))
		}
		sb.WriteString(")")
		return sb.String()
	}
	var sb strings.Builder
	sb.WriteString("(" + t.op)
	for i := range t.args {
		sb.WriteString(" " + a(i))
	}
	sb.WriteString(")")
	return sb.String()
}

// String renders a term fully inlined (for samples / debugging; may be large).
func (t *Term) String() string {
	return t.str(0)
}

func (t *Term) str(depth int) string {
	if t.op == "const" || t.op == "var" {
		if t.op == "var" {
			return t.name
		}
		switch t.sort.k {
		case sBool:
			return t.ref()
		case sBV:
			return fmt.Sprintf("%d", signExt(t.val, t.sort.w))
		default:
			return fmt.Sprintf("%g", math.Float64frombits(t.val))
		}
	}
	if depth > 6 {
		return "…"
	}
	var sb strings.Builder
	sb.WriteString("(" + t.op)
	if t.name != "" {
		sb.WriteString("[" + t.name + "]")
	}
	for _, a := range t.args {
		sb.WriteString(" " + a.str(depth+1))
	}
	sb.WriteString(")")
	return sb.String()
}

// eval evaluates a term under a model (variable name -> value bits).
// Used to double check solver models and to concretise observation values.
func (t *Term) eval(m map[string]uint64, memo map[*Term]uint64) uint64 {
	if v, ok := memo[t]; ok {
		return v
	}
	var r uint64
	a := func(i int) uint64 { return t.args[i].eval(m, memo) }
	b2u := func(b bool) uint64 {
		if b {
			return 1
		}
		return 0
	}
	f := func(i int) float64 { return math.Float64frombits(a(i)) }
	w := t.sort.w
	aw := 0
	if len(t.args) > 0 {
		aw = t.args[0].sort.w
	}
	switch t.op {
	case "const":
		r = t.val
	case "var":
		r = m[t.name]
	case "not":
		r = 1 - a(0)
	case "and":
		r = a(0) & a(1)
	case "or":
		r = a(0) | a(1)
	case "ite":
		if a(0) == 1 {
			r = a(1)
		} else {
			r = a(2)
		}
	case "=":
		r = b2u(a(0) == a(1))
	case "fp.eq":
		r = b2u(f(0) == f(1))
	case "bvadd":
		r = (a(0) + a(1)) & mask(w)
	case "bvsub":
		r = (a(0) - a(1)) & mask(w)
	case "bvmul":
		r = (a(0) * a(1)) & mask(w)
	case "bvand":
		r = a(0) & a(1)
	case "bvor":
		r = a(0) | a(1)
	case "bvxor":
		r = a(0) ^ a(1)
	case "bvneg":
		r = (-a(0)) & mask(w)
	case "bvnot":
		r = (^a(0)) & mask(w)
	case "bvudiv", "bvurem", "bvsdiv", "bvsrem", "bvshl", "bvlshr", "bvashr":
		tt := newTermTable()
		r = tt.bvBin(t.op, tt.bvConst(a(0), w), tt.bvConst(a(1), w)).val
	case "bvult":
		r = b2u(a(0) < a(1))
	case "bvule":
		r = b2u(a(0) <= a(1))
	case "bvslt":
		r = b2u(signExt(a(0), aw) < signExt(a(1), aw))
	case "bvsle":
		r = b2u(signExt(a(0), aw) <= signExt(a(1), aw))
	case "extract":
		r = a(0) & mask(w)
	case "zext":
		r = a(0)
	case "sext":
		r = uint64(signExt(a(0), aw)) & mask(w)
	case "fp.add":
		r = math.Float64bits(f(0) + f(1))
	case "fp.sub":
		r = math.Float64bits(f(0) - f(1))
	case "fp.mul":
		r = math.Float64bits(f(0) * f(1))
	case "fp.div":
		r = math.Float64bits(f(0) / f(1))
	case "fp.neg":
		r = math.Float64bits(-f(0))
	case "fp.lt":
		r = b2u(f(0) < f(1))
	case "fp.leq":
		r = b2u(f(0) <= f(1))
	case "fp.gt":
		r = b2u(f(0) > f(1))
	case "fp.geq":
		r = b2u(f(0) >= f(1))
	case "fp.isNaN":
		r = b2u(f(0) != f(0))
	case "fp.isNegative":
		r = b2u(f(0) == f(0) && math.Signbit(f(0)))
	case "to_fp_s":
		r = math.Float64bits(float64(signExt(a(0), aw)))
	case "to_fp_u":
		r = math.Float64bits(float64(a(0)))
	case "fp.to_sbv64":
		r = uint64(int64(f(0)))
	case "fp.to_ubv64":
		r = uint64(f(0))
	case "call":
		if fn, ok := builtinPreds[t.name]; ok {
			r = b2u(fn(rune(int32(a(0)))))
		} else {
			panic("eval: unknown call " + t.name)
		}
	default:
		panic("eval: unhandled op " + t.op)
	}
	memo[t] = r
	return r
}

var _ = bits.Len64
