package interp

// gmap: the engine's map. Iteration is in insertion order (deterministic, which
// re-execution needs). Concrete keys of basic/pointer type are indexed through a Go
// map; every other key (interfaces, structs, arrays, symbolic keys) is found by a
// linear scan using the engine's equality, which may fork on symbolic comparisons.

import (
	"go/types"
)

type gentry struct {
	key     value
	val     value
	deleted bool
}

type gmap struct {
	keyType types.Type
	entries []*gentry
	index   map[value]*gentry // concrete hashable keys only
	n       int
	hasSlow bool // some live entry is not in index
}

func makeMap(kt types.Type, reserve int64) value {
	return &gmap{keyType: kt, index: make(map[value]*gentry)}
}

// fastKey reports whether k can be used as a key of the Go-level index.
func fastKey(k value) bool {
	switch k.(type) {
	case bool, int, int8, int16, int32, int64, uint, uint8, uint16, uint32, uint64, uintptr, string, *value, *channel:
		return true
	case float32:
		f := k.(float32)
		return f == f
	case float64:
		f := k.(float64)
		return f == f
	}
	return false
}

func (m *gmap) len() int {
	if m == nil {
		return 0
	}
	return m.n
}

// find returns the entry for key k or nil.
func (m *gmap) find(i *interpreter, k value) *gentry {
	if m == nil {
		return nil
	}
	if fastKey(k) {
		if e, ok := m.index[k]; ok {
			return e
		}
		if !m.hasSlow {
			return nil
		}
	}
	for _, e := range m.entries {
		if e.deleted {
			continue
		}
		if fastKey(k) && fastKey(e.key) {
			continue // would have been found through the index
		}
		if i.truth(equalsV(i, m.keyType, e.key, k)) {
			return e
		}
	}
	return nil
}

func (m *gmap) lookup(i *interpreter, k value) (value, bool) {
	if e := m.find(i, k); e != nil {
		return e.val, true
	}
	return nil, false
}

func (m *gmap) insert(i *interpreter, k, v value) {
	if e := m.find(i, k); e != nil {
		e.val = v
		return
	}
	e := &gentry{key: k, val: v}
	m.entries = append(m.entries, e)
	m.n++
	if fastKey(k) {
		m.index[k] = e
	} else {
		m.hasSlow = true
	}
}

func (m *gmap) delete(i *interpreter, k value) {
	if m == nil {
		return
	}
	if e := m.find(i, k); e != nil {
		e.deleted = true
		m.n--
		if fastKey(e.key) {
			delete(m.index, e.key)
		}
	}
}

type gmapIter struct {
	m   *gmap
	pos int
	i   *interpreter
}

func (it *gmapIter) next() tuple {
	if it.i != nil {
		it.i.guardCheck(it.m, false, "range step")
	}
	if it.m != nil {
		for it.pos < len(it.m.entries) {
			e := it.m.entries[it.pos]
			it.pos++
			if !e.deleted {
				return tuple{true, e.key, e.val}
			}
		}
	}
	return tuple{false, nil, nil}
}

// liveEntries returns the live entries in iteration order.
func (m *gmap) liveEntries() []*gentry {
	if m == nil {
		return nil
	}
	var r []*gentry
	for _, e := range m.entries {
		if !e.deleted {
			r = append(r, e)
		}
	}
	return r
}
