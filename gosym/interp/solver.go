package interp

// A long-lived SMT solver process (z3 -in) driven through SMT-LIB2 text.

import (
	"bufio"
	"fmt"
	"io"
	"math"
	"os"
	"os/exec"
	"strconv"
	"strings"
	"time"
	"unicode"
)

type satResult int

const (
	resUnsat satResult = iota
	resSat
	resUnknown
)

func (r satResult) String() string {
	return [...]string{"unsat", "sat", "unknown"}[r]
}

type SolverStats struct {
	Queries  int
	Sat      int
	Unsat    int
	Unknown  int
	Errors   int
	Seconds  float64
	MaxQuery float64
}

type solver struct {
	cmd     *exec.Cmd
	in      io.WriteCloser
	out     *bufio.Reader
	tt      *termTable
	scoped  []*Term // terms named inside the current path scope
	inScope bool
	stats   SolverStats
	log     io.Writer
	errSeen bool
	argv    []string
	declared map[string]bool // vars declared at level 0
	predSent map[string]bool // rune predicates defined in the current path scope
}

// builtinPreds are the rune predicates available as SMT functions.
var builtinPreds = map[string]func(rune) bool{
	"isLetter": unicode.IsLetter,
	"isDigit":  unicode.IsDigit,
	"isSpace":  unicode.IsSpace,
	"isPrint":  unicode.IsPrint,
	"isUpper":  unicode.IsUpper,
	"isLower":  unicode.IsLower,
}

// rangePredicate builds the SMT body (over variable r: BitVec 32) of a rune predicate
// by scanning all code points once (exact, static table).
func rangePredicate(f func(rune) bool) string {
	var parts []string
	start := rune(-1)
	for r := rune(0); r <= unicode.MaxRune+1; r++ {
		in := r <= unicode.MaxRune && f(r)
		if in && start < 0 {
			start = r
		}
		if !in && start >= 0 {
			if start == r-1 {
				parts = append(parts, fmt.Sprintf("(= r #x%08x)", start))
			} else {
				parts = append(parts, fmt.Sprintf("(and (bvule #x%08x r) (bvule r #x%08x))", start, r-1))
			}
			start = -1
		}
	}
	if len(parts) == 0 {
		return "false"
	}
	return "(or " + strings.Join(parts, " ") + ")"
}

// predDef holds the SMT definition of each rune predicate; a definition is sent to the
// solver only in paths that use it (the large disjunctions slow every query down).
var predDef = map[string]string{}

func init() {
	for _, name := range []string{"isLetter", "isDigit", "isSpace", "isPrint", "isUpper", "isLower"} {
		predDef[name] = fmt.Sprintf("(define-fun %s ((r (_ BitVec 32))) Bool %s)", name, rangePredicate(builtinPreds[name]))
	}
}

func newSolver(tt *termTable, argv []string, timeoutMs int) (*solver, error) {
	if len(argv) == 0 {
		// z3 5.1.0 (z3-new) answers the many small incremental queries of this engine
		// ~30x faster than the distribution's z3 4.8.12; the latter is the fallback and
		// the cross-check solver.
		if p, err := exec.LookPath("z3-new"); err == nil && os.Getenv("GOSYM_SOLVER") == "" {
			argv = []string{p, "-in", "-smt2"}
		} else if sv := os.Getenv("GOSYM_SOLVER"); sv != "" {
			argv = strings.Fields(sv)
		} else {
			argv = []string{"z3", "-in", "-smt2"}
		}
	}
	s := &solver{tt: tt, argv: argv, declared: map[string]bool{}}
	s.cmd = exec.Command(argv[0], argv[1:]...)
	in, err := s.cmd.StdinPipe()
	if err != nil {
		return nil, err
	}
	out, err := s.cmd.StdoutPipe()
	if err != nil {
		return nil, err
	}
	s.cmd.Stderr = os.Stderr
	if err := s.cmd.Start(); err != nil {
		return nil, err
	}
	s.in = in
	s.out = bufio.NewReaderSize(out, 1<<16)
	if p := os.Getenv("GOSYM_SMTLOG"); p != "" {
		f, _ := os.OpenFile(p, os.O_CREATE|os.O_APPEND|os.O_WRONLY, 0644)
		s.log = f
	}
	if strings.Contains(argv[0], "cvc5") {
		s.send("(set-logic ALL)")
		s.send(fmt.Sprintf("(set-option :tlimit-per %d)", timeoutMs))
	} else {
		s.send(fmt.Sprintf("(set-option :timeout %d)", timeoutMs))
	}
	s.send("(set-option :produce-models true)")
	// sync
	s.send("(echo \"ready\")")
	line, err := s.readLine()
	if err != nil || !strings.Contains(line, "ready") {
		return nil, fmt.Errorf("solver did not start: %q %v", line, err)
	}
	return s, nil
}

func (s *solver) close() {
	if s.in != nil {
		s.send("(exit)")
		s.in.Close()
		done := make(chan struct{})
		go func() { s.cmd.Wait(); close(done) }()
		select {
		case <-done:
		case <-time.After(2 * time.Second):
			s.cmd.Process.Kill()
		}
	}
}

func (s *solver) send(cmd string) {
	if s.log != nil {
		fmt.Fprintln(s.log, cmd)
	}
	io.WriteString(s.in, cmd)
	io.WriteString(s.in, "\n")
}

func (s *solver) readLine() (string, error) {
	for {
		line, err := s.out.ReadString('\n')
		if err != nil {
			return line, err
		}
		line = strings.TrimSpace(line)
		if line == "" {
			continue
		}
		if s.log != nil {
			fmt.Fprintln(s.log, "; <- "+line)
		}
		if strings.HasPrefix(line, "(error") {
			s.errSeen = true
			s.stats.Errors++
			fmt.Fprintln(os.Stderr, "SOLVER ERROR:", line)
			continue
		}
		return line, nil
	}
}

// readSexp reads a balanced s-expression (possibly spanning lines).
func (s *solver) readSexp() (string, error) {
	var sb strings.Builder
	depth := 0
	started := false
	for {
		line, err := s.readLine()
		if err != nil {
			return sb.String(), err
		}
		sb.WriteString(line)
		sb.WriteByte(' ')
		inBar := false
		for _, c := range line {
			switch {
			case c == '|':
				inBar = !inBar
			case inBar:
			case c == '(':
				depth++
				started = true
			case c == ')':
				depth--
			}
		}
		if started && depth <= 0 {
			return sb.String(), nil
		}
		if !started {
			return sb.String(), nil
		}
	}
}

// beginPath opens a scope in which this path's definitions and assertions live.
func (s *solver) beginPath() {
	s.send("(push 1)")
	s.inScope = true
	s.scoped = s.scoped[:0]
}

func (s *solver) endPath() {
	if s.inScope {
		s.send("(pop 1)")
		for _, t := range s.scoped {
			t.named = false
		}
		s.scoped = s.scoped[:0]
		s.inScope = false
		s.predSent = nil
	}
}

// define makes sure t (and everything below it) has a name in the solver.
func (s *solver) define(t *Term) {
	if t.named || t.op == "const" {
		return
	}
	if t.op == "var" {
		s.send(fmt.Sprintf("(declare-const |%s| %s)", t.name, t.sort))
		t.named = true
		s.scoped = append(s.scoped, t)
		return
	}
	for _, a := range t.args {
		s.define(a)
	}
	if t.op == "call" && !s.predSent[t.name] {
		if s.predSent == nil {
			s.predSent = map[string]bool{}
		}
		s.predSent[t.name] = true
		s.send(predDef[t.name])
	}
	s.send(fmt.Sprintf("(define-fun $t%d () %s %s)", t.id, t.sort, t.def()))
	t.named = true
	s.scoped = append(s.scoped, t)
}

func (s *solver) assert(t *Term) {
	s.define(t)
	s.send("(assert " + t.ref() + ")")
}

// check asks whether the current assertions plus extra are satisfiable.
// If wantModel and the answer is sat, the values of all variables are returned.
func (s *solver) check(extra *Term, wantModel bool) (satResult, map[string]uint64) {
	start := time.Now()
	if extra != nil {
		s.define(extra)
		s.send("(push 1)")
		s.send("(assert " + extra.ref() + ")")
	}
	s.errSeen = false
	s.send("(check-sat)")
	line, err := s.readLine()
	res := resUnknown
	if err != nil {
		fmt.Fprintln(os.Stderr, "solver read error:", err)
		s.stats.Errors++
	} else {
		switch line {
		case "sat":
			res = resSat
		case "unsat":
			res = resUnsat
		default:
			res = resUnknown
		}
	}
	if s.errSeen {
		res = resUnknown
	}
	var model map[string]uint64
	if res == resSat && wantModel {
		model = s.getModel()
	}
	if extra != nil {
		s.send("(pop 1)")
	}
	d := time.Since(start).Seconds()
	s.stats.Queries++
	s.stats.Seconds += d
	if d > s.stats.MaxQuery {
		s.stats.MaxQuery = d
	}
	switch res {
	case resSat:
		s.stats.Sat++
	case resUnsat:
		s.stats.Unsat++
	default:
		s.stats.Unknown++
	}
	return res, model
}

func (s *solver) getModel() map[string]uint64 {
	model := map[string]uint64{}
	var vars []*Term
	for _, v := range s.tt.vars {
		if v.named {
			vars = append(vars, v)
		}
	}
	if len(vars) == 0 {
		return model
	}
	var sb strings.Builder
	sb.WriteString("(get-value (")
	for _, v := range vars {
		sb.WriteString(v.ref() + " ")
	}
	sb.WriteString("))")
	s.send(sb.String())
	txt, err := s.readSexp()
	if err != nil {
		return model
	}
	toks := tokenize(txt)
	// grammar: ( ( name value ) ... )
	pos := 0
	next := func() string {
		if pos < len(toks) {
			pos++
			return toks[pos-1]
		}
		return ""
	}
	var parseValue func() (uint64, bool)
	parseValue = func() (uint64, bool) {
		t := next()
		switch {
		case t == "true":
			return 1, true
		case t == "false":
			return 0, true
		case strings.HasPrefix(t, "#x"):
			v, _ := strconv.ParseUint(t[2:], 16, 64)
			return v, true
		case strings.HasPrefix(t, "#b"):
			v, _ := strconv.ParseUint(t[2:], 2, 64)
			return v, true
		case t == "(":
			h := next()
			switch h {
			case "fp":
				sg, _ := parseValue()
				ex, _ := parseValue()
				mn, _ := parseValue()
				next() // )
				return sg<<63 | ex<<52 | mn, true
			case "_":
				k := next()
				a1 := next()
				a2 := ""
				if pos < len(toks) && toks[pos] != ")" {
					a2 = next()
				}
				next() // )
				switch k {
				case "+zero":
					return 0, true
				case "-zero":
					return 1 << 63, true
				case "+oo":
					return math.Float64bits(math.Inf(1)), true
				case "-oo":
					return math.Float64bits(math.Inf(-1)), true
				case "NaN":
					return math.Float64bits(math.NaN()), true
				}
				if strings.HasPrefix(k, "bv") {
					v, _ := strconv.ParseUint(k[2:], 10, 64)
					_ = a1
					_ = a2
					return v, true
				}
				return 0, false
			}
			// unknown form: skip to matching paren
			depth := 1
			for depth > 0 && pos < len(toks) {
				switch next() {
				case "(":
					depth++
				case ")":
					depth--
				}
			}
			return 0, false
		}
		return 0, false
	}
	if next() != "(" {
		return model
	}
	for pos < len(toks) {
		t := next()
		if t == ")" {
			break
		}
		if t != "(" {
			break
		}
		name := next()
		name = strings.Trim(name, "|")
		v, ok := parseValue()
		next() // )
		if ok {
			model[name] = v
		}
	}
	return model
}

func tokenize(s string) []string {
	var toks []string
	i := 0
	for i < len(s) {
		c := s[i]
		switch {
		case c == ' ' || c == '\n' || c == '\t' || c == '\r':
			i++
		case c == '(' || c == ')':
			toks = append(toks, string(c))
			i++
		case c == '|':
			j := i + 1
			for j < len(s) && s[j] != '|' {
				j++
			}
			toks = append(toks, s[i:j+1])
			i = j + 1
		default:
			j := i
			for j < len(s) && !strings.ContainsRune(" \n\t\r()", rune(s[j])) {
				j++
			}
			toks = append(toks, s[i:j])
			i = j
		}
	}
	return toks
}
