package interp

// The harness API. Harness files (overlaid into the package under test) declare
// these functions with native bodies (used for replay); inside the engine calls to
// them are intercepted here.

import (
	"fmt"
	"go/types"
)

var ndExternals map[string]externalFn

func init() {
	ndExternals = map[string]externalFn{
		"ndInt64":   func(fr *frame, a []value) value { return fr.i.ndScalar(a[0], types.Int64) },
		"ndInt":     func(fr *frame, a []value) value { return fr.i.ndScalar(a[0], types.Int) },
		"ndInt32":   func(fr *frame, a []value) value { return fr.i.ndScalar(a[0], types.Int32) },
		"ndUint64":  func(fr *frame, a []value) value { return fr.i.ndScalar(a[0], types.Uint64) },
		"ndUint":    func(fr *frame, a []value) value { return fr.i.ndScalar(a[0], types.Uint) },
		"ndByte":    func(fr *frame, a []value) value { return fr.i.ndScalar(a[0], types.Uint8) },
		"ndBool":    func(fr *frame, a []value) value { return fr.i.ndScalar(a[0], types.Bool) },
		"ndFloat64": func(fr *frame, a []value) value { return fr.i.ndScalar(a[0], types.Float64) },
		"ndChoice":  ndChoice,
		"ndBytes":   ndBytes,
		"ndString":  ndString,
		"vfAssume":  vfAssume,
		"vfAssert":  vfAssert,
		"vfReach":   vfReach,
		"vfNote":    vfNote,
		"vfTier":    vfTier,
		"vfSameFloat": vfSameFloat,
		"vfGuardMap":  vfGuardMap,
		"vfEmbedRoot": vfEmbedRoot,
		"vfLocksHeld": vfLocksHeld,
		"vfConc":    vfConc,
		"vfSymbolic": func(fr *frame, a []value) value { return true },
		"vfLive":    func(fr *frame, a []value) value { fr.i.sched.quiesce(); return fr.i.sched.live() },
	}
}

func (i *interpreter) ndName(v value) string {
	s, ok := v.(string)
	if !ok {
		panic(unsupported("nd*: name must be a concrete string"))
	}
	return s
}

func (i *interpreter) ndScalar(name value, k types.BasicKind) value {
	n := i.ndName(name)
	var s Sort
	switch k {
	case types.Bool:
		s = boolSort
	case types.Float64:
		s = fpSort
	default:
		s = bvSort(kindWidth(k))
	}
	t := i.tt.mkVar(n, s)
	i.solver.define(t)
	return symV{t, k}
}

// ndChoice(name, n) returns a concrete int in [0,n), one path per feasible value.
func ndChoice(fr *frame, a []value) value {
	i := fr.i
	n := i.concInt(a[1])
	if n <= 0 {
		panic(pathAbort{kind: abortAssume, msg: "ndChoice with n <= 0"})
	}
	if n == 1 {
		return 0
	}
	v := i.ndScalar(a[0], types.Int64).(symV)
	tt := i.tt
	i.assume(tt.and(tt.bvCmp("bvsle", tt.bvConst(0, 64), v.t), tt.bvCmp("bvslt", v.t, tt.bvConst(uint64(n), 64))))
	// enumerate in ascending order
	for k := int64(0); k < n-1; k++ {
		if i.branch(tt.eq(v.t, tt.bvConst(uint64(k), 64))) {
			return int(k)
		}
	}
	return int(n - 1)
}

func ndBytes(fr *frame, a []value) value {
	i := fr.i
	name := i.ndName(a[0])
	n := int(i.concInt(a[1]))
	out := make([]value, n)
	for k := 0; k < n; k++ {
		out[k] = i.ndScalar(fmt.Sprintf("%s[%d]", name, k), types.Uint8)
	}
	return out
}

func ndString(fr *frame, a []value) value {
	b := ndBytes(fr, a).([]value)
	return normStr(b)
}

func vfAssume(fr *frame, a []value) value {
	switch c := a[0].(type) {
	case bool:
		if !c {
			panic(pathAbort{kind: abortAssume, msg: "assumption false"})
		}
	case symV:
		fr.i.assume(c.t)
	}
	return nil
}

func vfAssert(fr *frame, a []value) value {
	label, _ := fr.i.concValue(a[1]).(string)
	fr.i.assertCond(a[0], label)
	return nil
}

func vfReach(fr *frame, a []value) value {
	label, _ := a[0].(string)
	fr.i.path.reach = append(fr.i.path.reach, label)
	return nil
}

func vfNote(fr *frame, a []value) value {
	if len(fr.i.path.notes) < 64 {
		fr.i.path.notes = append(fr.i.path.notes, a[0])
	}
	return nil
}

func vfTier(fr *frame, a []value) value {
	return fr.i.opts.Tier
}

// vfConc(x) forces a string to be concrete on this path (forks over its values).
func vfConc(fr *frame, a []value) value {
	return fr.i.concValue(a[0])
}

// vfSameFloat(x, y): float equality that treats two NaNs as equal. Two syntactically
// identical symbolic terms are equal by construction (decided by hash-consing, no
// floating-point solving); otherwise the comparison is a solver obligation.
func vfSameFloat(fr *frame, a []value) value {
	i := fr.i
	tt := i.tt
	x, y := i.toTerm(a[0]), i.toTerm(a[1])
	if x == y {
		return true
	}
	return fromTerm(tt.or(tt.eq(x, y), tt.and(tt.fpIsNaN(x), tt.fpIsNaN(y))), types.Bool)
}

// vfGuardMap(name, m, mu): declares that map m must only be accessed while mutex *mu is held.
func vfGuardMap(fr *frame, a []value) value {
	name, _ := a[0].(string)
	m := a[1].(iface).v.(*gmap)
	mu := a[2].(iface).v.(*value)
	if m != nil {
		fr.i.guards[m] = mu
		fr.i.guardNames[m] = name
	}
	return nil
}

// vfLocksHeld returns the number of mutexes currently held.
func vfLocksHeld(fr *frame, a []value) value {
	n := 0
	for _, st := range fr.i.locks {
		if st != 0 {
			n++
		}
	}
	return n
}
