package interp

// Symbolic scalar values and strings, and the operations on them.

import (
	"fmt"
	"go/token"
	"go/types"
	"math"
	"strings"
)

// symV is a scalar (bool, integer or float64) whose value is an SMT term.
type symV struct {
	t *Term
	k types.BasicKind // Go kind of the value: Bool, Int..Uintptr, Float64
}

// symStr is a string of concrete length some of whose bytes are symbolic.
// Elements are uint8 or symV{k: Uint8}.
type symStr struct {
	b []value
}

func (s symStr) String() string {
	var sb strings.Builder
	sb.WriteString("symstr\"")
	for _, c := range s.b {
		if u, ok := c.(uint8); ok {
			if u >= 32 && u < 127 {
				sb.WriteByte(u)
			} else {
				fmt.Fprintf(&sb, "\\x%02x", u)
			}
		} else {
			sb.WriteString("{" + c.(symV).t.String() + "}")
		}
	}
	sb.WriteString("\"")
	return sb.String()
}

func isSym(v value) bool {
	switch v.(type) {
	case symV, symStr:
		return true
	}
	return false
}

func kindWidth(k types.BasicKind) int {
	switch k {
	case types.Int8, types.Uint8:
		return 8
	case types.Int16, types.Uint16:
		return 16
	case types.Int32, types.Uint32:
		return 32
	case types.Int, types.Int64, types.Uint, types.Uint64, types.Uintptr:
		return 64
	}
	panic(fmt.Sprintf("kindWidth: %v", k))
}

func kindSigned(k types.BasicKind) bool {
	switch k {
	case types.Int, types.Int8, types.Int16, types.Int32, types.Int64:
		return true
	}
	return false
}

func kindIsInt(k types.BasicKind) bool {
	switch k {
	case types.Int, types.Int8, types.Int16, types.Int32, types.Int64,
		types.Uint, types.Uint8, types.Uint16, types.Uint32, types.Uint64, types.Uintptr:
		return true
	}
	return false
}

// scalarKind returns the Go kind of a concrete scalar value.
func scalarKind(v value) (types.BasicKind, bool) {
	switch v.(type) {
	case bool:
		return types.Bool, true
	case int:
		return types.Int, true
	case int8:
		return types.Int8, true
	case int16:
		return types.Int16, true
	case int32:
		return types.Int32, true
	case int64:
		return types.Int64, true
	case uint:
		return types.Uint, true
	case uint8:
		return types.Uint8, true
	case uint16:
		return types.Uint16, true
	case uint32:
		return types.Uint32, true
	case uint64:
		return types.Uint64, true
	case uintptr:
		return types.Uintptr, true
	case float64:
		return types.Float64, true
	case float32:
		return types.Float32, true
	case symV:
		return v.(symV).k, true
	}
	return 0, false
}

// toTerm lifts a scalar (concrete or symbolic) to a term.
func (i *interpreter) toTerm(v value) *Term {
	tt := i.tt
	switch x := v.(type) {
	case symV:
		return x.t
	case bool:
		return tt.boolConst(x)
	case int:
		return tt.bvConst(uint64(x), 64)
	case int8:
		return tt.bvConst(uint64(x), 8)
	case int16:
		return tt.bvConst(uint64(x), 16)
	case int32:
		return tt.bvConst(uint64(x), 32)
	case int64:
		return tt.bvConst(uint64(x), 64)
	case uint:
		return tt.bvConst(uint64(x), 64)
	case uint8:
		return tt.bvConst(uint64(x), 8)
	case uint16:
		return tt.bvConst(uint64(x), 16)
	case uint32:
		return tt.bvConst(uint64(x), 32)
	case uint64:
		return tt.bvConst(x, 64)
	case uintptr:
		return tt.bvConst(uint64(x), 64)
	case float64:
		return tt.fpConst(x)
	case float32:
		return tt.fpConst(float64(x))
	}
	panic(pathAbort{kind: abortUnsupported, msg: fmt.Sprintf("toTerm(%T)", v)})
}

// fromTerm wraps a term as a value of Go kind k, concretising constants.
func fromTerm(t *Term, k types.BasicKind) value {
	if !t.isConst() {
		return symV{t, k}
	}
	v := t.val
	switch k {
	case types.Bool:
		return v == 1
	case types.Int:
		return int(v)
	case types.Int8:
		return int8(v)
	case types.Int16:
		return int16(v)
	case types.Int32:
		return int32(v)
	case types.Int64:
		return int64(v)
	case types.Uint:
		return uint(v)
	case types.Uint8:
		return uint8(v)
	case types.Uint16:
		return uint16(v)
	case types.Uint32:
		return uint32(v)
	case types.Uint64:
		return uint64(v)
	case types.Uintptr:
		return uintptr(v)
	case types.Float64:
		return math.Float64frombits(v)
	case types.Float32:
		return float32(math.Float64frombits(v))
	}
	panic(fmt.Sprintf("fromTerm kind %v", k))
}

func unsupported(format string, args ...interface{}) pathAbort {
	return pathAbort{kind: abortUnsupported, msg: fmt.Sprintf(format, args...)}
}

// symBinop evaluates x op y where at least one operand is symbolic (scalars only).
func (i *interpreter) symBinop(op token.Token, x, y value) value {
	tt := i.tt
	kx, _ := scalarKind(x)
	ky, _ := scalarKind(y)
	if op == token.SHL || op == token.SHR {
		// shift count may have a different type
		a := i.toTerm(x)
		b := i.toTerm(y)
		if kindSigned(ky) {
			neg := tt.bvCmp("bvslt", b, tt.bvConst(0, b.sort.w))
			if i.branch(neg) {
				panic(i.rtPanic("negative shift amount"))
			}
		}
		w := a.sort.w
		// normalise the count to width w, saturating
		var cnt *Term
		if b.sort.w > w {
			big := tt.bvCmp("bvule", tt.bvConst(uint64(w), b.sort.w), b)
			cnt = tt.ite(big, tt.bvConst(uint64(w), w), tt.resize(b, w, false))
		} else {
			cnt = tt.resize(b, w, false)
		}
		var r *Term
		if op == token.SHL {
			r = tt.bvBin("bvshl", a, cnt)
		} else if kindSigned(kx) {
			r = tt.bvBin("bvashr", a, cnt)
		} else {
			r = tt.bvBin("bvlshr", a, cnt)
		}
		return fromTerm(r, kx)
	}
	if kx != ky {
		panic(unsupported("symBinop kinds differ: %v %v (%T %s %T)", kx, ky, x, op, y))
	}
	a := i.toTerm(x)
	b := i.toTerm(y)
	k := kx
	switch {
	case k == types.Bool:
		switch op {
		case token.EQL:
			return fromTerm(tt.eq(a, b), types.Bool)
		case token.NEQ:
			return fromTerm(tt.not(tt.eq(a, b)), types.Bool)
		case token.AND, token.LAND:
			return fromTerm(tt.and(a, b), types.Bool)
		case token.OR, token.LOR:
			return fromTerm(tt.or(a, b), types.Bool)
		}
	case k == types.Float64 || k == types.Float32:
		if k == types.Float32 {
			panic(unsupported("symbolic float32 arithmetic"))
		}
		switch op {
		case token.ADD:
			return fromTerm(tt.fpBin("fp.add", a, b), k)
		case token.SUB:
			return fromTerm(tt.fpBin("fp.sub", a, b), k)
		case token.MUL:
			return fromTerm(tt.fpBin("fp.mul", a, b), k)
		case token.QUO:
			return fromTerm(tt.fpBin("fp.div", a, b), k)
		case token.LSS:
			return fromTerm(tt.fpCmp("fp.lt", a, b), types.Bool)
		case token.LEQ:
			return fromTerm(tt.fpCmp("fp.leq", a, b), types.Bool)
		case token.GTR:
			return fromTerm(tt.fpCmp("fp.gt", a, b), types.Bool)
		case token.GEQ:
			return fromTerm(tt.fpCmp("fp.geq", a, b), types.Bool)
		case token.EQL:
			return fromTerm(tt.eq(a, b), types.Bool)
		case token.NEQ:
			return fromTerm(tt.not(tt.eq(a, b)), types.Bool)
		}
	case kindIsInt(k):
		sg := kindSigned(k)
		switch op {
		case token.ADD:
			return fromTerm(tt.bvBin("bvadd", a, b), k)
		case token.SUB:
			return fromTerm(tt.bvBin("bvsub", a, b), k)
		case token.MUL:
			return fromTerm(tt.bvBin("bvmul", a, b), k)
		case token.QUO, token.REM:
			zero := tt.eq(b, tt.bvConst(0, b.sort.w))
			if i.branch(zero) {
				panic(i.rtPanic("integer divide by zero"))
			}
			var o string
			switch {
			case op == token.QUO && sg:
				o = "bvsdiv"
			case op == token.QUO:
				o = "bvudiv"
			case sg:
				o = "bvsrem"
			default:
				o = "bvurem"
			}
			return fromTerm(tt.bvBin(o, a, b), k)
		case token.AND:
			return fromTerm(tt.bvBin("bvand", a, b), k)
		case token.OR:
			return fromTerm(tt.bvBin("bvor", a, b), k)
		case token.XOR:
			return fromTerm(tt.bvBin("bvxor", a, b), k)
		case token.AND_NOT:
			return fromTerm(tt.bvBin("bvand", a, tt.bvNot(b)), k)
		case token.EQL:
			return fromTerm(tt.eq(a, b), types.Bool)
		case token.NEQ:
			return fromTerm(tt.not(tt.eq(a, b)), types.Bool)
		case token.LSS:
			if sg {
				return fromTerm(tt.bvCmp("bvslt", a, b), types.Bool)
			}
			return fromTerm(tt.bvCmp("bvult", a, b), types.Bool)
		case token.LEQ:
			if sg {
				return fromTerm(tt.bvCmp("bvsle", a, b), types.Bool)
			}
			return fromTerm(tt.bvCmp("bvule", a, b), types.Bool)
		case token.GTR:
			if sg {
				return fromTerm(tt.bvCmp("bvslt", b, a), types.Bool)
			}
			return fromTerm(tt.bvCmp("bvult", b, a), types.Bool)
		case token.GEQ:
			if sg {
				return fromTerm(tt.bvCmp("bvsle", b, a), types.Bool)
			}
			return fromTerm(tt.bvCmp("bvule", b, a), types.Bool)
		}
	}
	panic(unsupported("symBinop %T %s %T", x, op, y))
}

func (i *interpreter) symUnop(op token.Token, x symV) value {
	tt := i.tt
	switch op {
	case token.NOT:
		return fromTerm(tt.not(x.t), types.Bool)
	case token.SUB:
		if x.k == types.Float64 {
			return fromTerm(tt.fpNeg(x.t), x.k)
		}
		return fromTerm(tt.bvNeg(x.t), x.k)
	case token.XOR:
		return fromTerm(tt.bvNot(x.t), x.k)
	}
	panic(unsupported("symUnop %s", op))
}

// symConv converts a symbolic scalar to basic kind dst.
func (i *interpreter) symConv(dst types.BasicKind, x symV) value {
	tt := i.tt
	switch {
	case kindIsInt(x.k) && kindIsInt(dst):
		return fromTerm(tt.resize(x.t, kindWidth(dst), kindSigned(x.k)), dst)
	case kindIsInt(x.k) && dst == types.Float64:
		return fromTerm(tt.intToFP(x.t, kindSigned(x.k)), dst)
	case x.k == types.Float64 && dst == types.Float64:
		return x
	case x.k == types.Float64 && kindIsInt(dst):
		return fromTerm(tt.fpToInt(x.t, kindWidth(dst), kindSigned(dst)), dst)
	case x.k == types.Bool && dst == types.Bool:
		return x
	}
	panic(unsupported("symConv %v -> %v", x.k, dst))
}

// ---- strings ----

func strBytes(v value) []value {
	switch s := v.(type) {
	case string:
		b := make([]value, len(s))
		for i := 0; i < len(s); i++ {
			b[i] = s[i]
		}
		return b
	case symStr:
		return s.b
	}
	panic(fmt.Sprintf("strBytes(%T)", v))
}

func strLen(v value) int {
	switch s := v.(type) {
	case string:
		return len(s)
	case symStr:
		return len(s.b)
	}
	panic(fmt.Sprintf("strLen(%T)", v))
}

// normStr builds a string value from bytes, concrete if all bytes are.
func normStr(b []value) value {
	for _, c := range b {
		if _, ok := c.(uint8); !ok {
			cp := make([]value, len(b))
			copy(cp, b)
			return symStr{cp}
		}
	}
	bs := make([]byte, len(b))
	for i, c := range b {
		bs[i] = c.(uint8)
	}
	return string(bs)
}

// strEqTerm returns the term for x == y on strings.
func (i *interpreter) strEqTerm(x, y value) *Term {
	tt := i.tt
	if strLen(x) != strLen(y) {
		return tt.boolConst(false)
	}
	if xs, ok := x.(string); ok {
		if ys, ok := y.(string); ok {
			return tt.boolConst(xs == ys)
		}
	}
	xb, yb := strBytes(x), strBytes(y)
	r := tt.boolConst(true)
	for k := range xb {
		r = tt.and(r, tt.eq(i.toTerm(xb[k]), i.toTerm(yb[k])))
		if v, ok := r.constBool(); ok && !v {
			return r
		}
	}
	return r
}

// strLessTerm returns the term for x < y (strict) on strings.
func (i *interpreter) strLessTerm(x, y value) *Term {
	tt := i.tt
	xb, yb := strBytes(x), strBytes(y)
	n := len(xb)
	if len(yb) < n {
		n = len(yb)
	}
	// result when the common prefix is equal: shorter is less
	r := tt.boolConst(len(xb) < len(yb))
	for k := n - 1; k >= 0; k-- {
		a, b := i.toTerm(xb[k]), i.toTerm(yb[k])
		r = tt.ite(tt.eq(a, b), r, tt.bvCmp("bvult", a, b))
	}
	return r
}

func (i *interpreter) symStrBinop(op token.Token, x, y value) value {
	tt := i.tt
	switch op {
	case token.ADD:
		return normStr(append(append([]value{}, strBytes(x)...), strBytes(y)...))
	case token.EQL:
		return fromTerm(i.strEqTerm(x, y), types.Bool)
	case token.NEQ:
		return fromTerm(tt.not(i.strEqTerm(x, y)), types.Bool)
	case token.LSS:
		return fromTerm(i.strLessTerm(x, y), types.Bool)
	case token.GTR:
		return fromTerm(i.strLessTerm(y, x), types.Bool)
	case token.LEQ:
		return fromTerm(tt.not(i.strLessTerm(y, x)), types.Bool)
	case token.GEQ:
		return fromTerm(tt.not(i.strLessTerm(x, y)), types.Bool)
	}
	panic(unsupported("symStrBinop %s", op))
}

// ---- equality producing terms ----

// equalsT returns the term for x == y following Go's equality for type t.
func (i *interpreter) equalsT(t types.Type, x, y value) *Term {
	tt := i.tt
	switch xv := x.(type) {
	case symV:
		return tt.eq(xv.t, i.toTerm(y))
	case symStr:
		return i.strEqTerm(x, y)
	case string:
		if _, ok := y.(symStr); ok {
			return i.strEqTerm(x, y)
		}
		return tt.boolConst(xv == y.(string))
	case structure:
		ys := y.(structure)
		if t != nil && i.reflectValueType != nil && types.Identical(t, i.reflectValueType) {
			return tt.boolConst(i.reflectValueIdentical(xv, ys))
		}
		r := tt.boolConst(true)
		var st *types.Struct
		if t != nil {
			st, _ = t.Underlying().(*types.Struct)
		}
		for k := range xv {
			var ft types.Type
			if st != nil {
				if st.Field(k).Name() == "_" {
					continue
				}
				ft = st.Field(k).Type()
			}
			r = tt.and(r, i.equalsT(ft, xv[k], ys[k]))
			if v, ok := r.constBool(); ok && !v {
				return r
			}
		}
		return r
	case array:
		ya := y.(array)
		r := tt.boolConst(true)
		var et types.Type
		if t != nil {
			et = t.Underlying().(*types.Array).Elem()
		}
		for k := range xv {
			r = tt.and(r, i.equalsT(et, xv[k], ya[k]))
			if v, ok := r.constBool(); ok && !v {
				return r
			}
		}
		return r
	case iface:
		yi := y.(iface)
		if !sameType(xv.t, yi.t) {
			return tt.boolConst(false)
		}
		if xv.t == nil {
			return tt.boolConst(true)
		}
		if xv.t == rtypeType || xv.t == errorType {
			return tt.boolConst(equals(xv.t, xv.v, yi.v))
		}
		if !comparableType(xv.t) {
			panic(i.rtPanic("comparing uncomparable type " + xv.t.String()))
		}
		return i.equalsT(xv.t, xv.v, yi.v)
	}
	if _, ok := y.(symV); ok {
		return tt.eq(i.toTerm(x), i.toTerm(y))
	}
	return tt.boolConst(equals(t, x, y))
}

// equalsV is equalsT packaged as a value (bool or symbolic bool).
func equalsV(i *interpreter, t types.Type, x, y value) value {
	return fromTerm(i.equalsT(t, x, y), types.Bool)
}

// truth forces a boolean value to a concrete outcome, forking if symbolic.
func (i *interpreter) truth(v value) bool {
	switch b := v.(type) {
	case bool:
		return b
	case symV:
		return i.branch(b.t)
	}
	panic(fmt.Sprintf("truth(%T)", v))
}

// concInt forces an integer value to a concrete int64, forking over its feasible
// values if it is symbolic (value-by-value concretisation).
func (i *interpreter) concInt(v value) int64 {
	sv, ok := v.(symV)
	if !ok {
		return asInt64(v)
	}
	return i.concretize(sv)
}

// concretize enumerates the feasible values of a symbolic integer by repeated
// "is it this model value?" forks. Bounded by maxConcretize alternatives.
func (i *interpreter) concretize(sv symV) int64 {
	tt := i.tt
	ret := func(m uint64) int64 {
		if kindSigned(sv.k) {
			return signExt(m, sv.t.sort.w)
		}
		return int64(m)
	}
	for n := 0; ; n++ {
		if n >= i.opts.MaxConcretize {
			msg := "concretisation bound reached"
			if debugOn {
				msg += "\n" + i.stack()
			}
			panic(pathAbort{kind: abortCut, msg: msg})
		}
		// If the path condition already pins the value, no decision is made (and no
		// recorded candidate may be consumed: recorded candidates belong to decisions).
		m0 := i.modelValue(sv.t)
		if v, known := i.implied(tt.eq(sv.t, tt.bvConst(m0, sv.t.sort.w))); known && v {
			return ret(m0)
		}
		m := i.candidate(sv.t)
		c := tt.bvConst(m, sv.t.sort.w)
		if i.branch(tt.eq(sv.t, c)) {
			return ret(m)
		}
	}
}

// concValue concretises any scalar/string value into a concrete one (forking).
func (i *interpreter) concValue(v value) value {
	switch x := v.(type) {
	case symV:
		if x.k == types.Bool {
			return i.branch(x.t)
		}
		if x.k == types.Float64 {
			tt := i.tt
			for n := 0; ; n++ {
				if n >= i.opts.MaxConcretize {
					panic(pathAbort{kind: abortCut, msg: "concretisation bound reached"})
				}
				m := i.candidate(x.t)
				f := math.Float64frombits(m)
				var c *Term
				if f != f {
					c = tt.fpIsNaN(x.t)
				} else {
					// bit-exact equality except NaN: compare via fp.eq and sign for zero
					c = tt.eq(x.t, tt.fpConst(f))
					if f == 0 {
						neg := math.Signbit(f)
						isneg := tt.intern("fp.isNegative", boolSort, 0, "", x.t)
						if neg {
							c = tt.and(c, isneg)
						} else {
							c = tt.and(c, tt.not(isneg))
						}
					}
				}
				if i.branch(c) {
					return f
				}
			}
		}
		n := i.concretize(x)
		return fromTerm(i.tt.bvConst(uint64(n), kindWidth(x.k)), x.k)
	case symStr:
		bs := make([]byte, len(x.b))
		for k, c := range x.b {
			bs[k] = byte(i.concInt(c))
		}
		return string(bs)
	}
	return v
}

// comparableType is types.Comparable extended to the engine's own fake types.
func comparableType(t types.Type) bool {
	if t == rtypeType || t == errorType {
		return true
	}
	return types.Comparable(t)
}
