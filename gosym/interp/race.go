package interp

// Schedule exploration and happens-before race detection (used by the C11 harnesses).
//
// Off by default: goroutines then run as deterministic coroutines (sched.go). A harness
// switches it on with vfRace(maxPreemptions). From then on
//
//   - every synchronisation operation (Mutex/RWMutex Lock, RLock, Unlock, RUnlock, sync.Pool
//     Get/Put, sync.Map operations, sync/atomic operations, sync.Once.Do, WaitGroup
//     operations, channel operations, go statements) is a scheduling point: if another
//     goroutine is runnable and the preemption budget is not used up, the choice "switch
//     here or continue" is a fresh unconstrained boolean decided through the path's decision
//     log, so the explorer forks and every schedule with at most maxPreemptions preemptive
//     switches at synchronisation points is explored (blocking switches are free and not
//     counted). For data-race-free programs these schedules reach every behaviour reachable
//     with that many preemptions anywhere; and whether the program IS data-race-free is
//     decided by the detector below on each of them;
//   - a Lock/RLock of a mutex that is not available blocks the goroutine until an unlock;
//   - every load and store through a pointer, every map operation and every append/copy
//     is checked by a vector-clock happens-before detector (the algorithm of the Go race
//     detector: last-write epoch and per-goroutine read epochs per memory cell; edges from
//     go statements, unlock->lock (read unlocks only order later write locks), channel
//     send->receive and close->receive, Pool.Put->Get, Once.Do, WaitGroup.Done->Wait,
//     atomics and sync.Map operations on the same object). Two conflicting accesses that
//     are not ordered are recorded as a violation "race: <where> / <where>".
//
// The detector sees every cell the interpreter touches; the reflect model reports reads
// of addressable values when it decodes them and writes on Set*.

import (
	"fmt"
	"go/types"
	"os"
	"strings"

	"golang.org/x/tools/go/ssa"
)

var schedLog = os.Getenv("GOSYM_SCHEDLOG") != ""

type vclock []uint32

func (c vclock) get(g int) uint32 {
	if g < len(c) {
		return c[g]
	}
	return 0
}

func (c *vclock) set(g int, v uint32) {
	for len(*c) <= g {
		*c = append(*c, 0)
	}
	(*c)[g] = v
}

func (c *vclock) join(o vclock) {
	for g, v := range o {
		if v > c.get(g) {
			c.set(g, v)
		}
	}
}

func (c vclock) clone() vclock { return append(vclock(nil), c...) }

type epoch struct {
	g     int
	clk   uint32
	instr ssa.Instruction
	fn    *ssa.Function
}

type shadow struct {
	w     epoch
	hasW  bool
	reads []epoch
}

type raceState struct {
	maxPreempt  int
	preemptions int
	nsched      int
	clocks      map[*gor]*vclock
	rel         map[interface{}]*vclock // release clock per sync object
	rrel        map[interface{}]*vclock // read-release clock per RWMutex
	cells       map[interface{}]*shadow
	waiters     map[interface{}][]*gor
	wg          map[*value]int
	wpending    map[*value]int // writers waiting in (*RWMutex).Lock / (*Mutex).Lock
	reported    map[string]bool
	races       int
}

func (i *interpreter) raceOn() bool { return i.race != nil }

func vfRace(fr *frame, a []value) value {
	i := fr.i
	i.race = &raceState{
		maxPreempt: int(i.concInt(a[0])),
		clocks:     map[*gor]*vclock{},
		rel:        map[interface{}]*vclock{},
		rrel:       map[interface{}]*vclock{},
		cells:      map[interface{}]*shadow{},
		waiters:    map[interface{}][]*gor{},
		wg:         map[*value]int{},
		wpending:   map[*value]int{},
		reported:   map[string]bool{},
	}
	i.sched.beforeBlock = func() {
		if s := i.sched; len(s.pend) > 0 && !s.dead {
			i.startPending(len(s.runq) == 0)
		}
	}
	return nil
}

func (r *raceState) clock(g *gor) *vclock {
	c := r.clocks[g]
	if c == nil {
		c = &vclock{}
		c.set(g.id, 1)
		r.clocks[g] = c
	}
	return c
}

// ---- happens-before edges ----

func (i *interpreter) raceAcquire(obj interface{}) {
	r := i.race
	if r == nil {
		return
	}
	if c := r.rel[obj]; c != nil {
		r.clock(i.sched.cur).join(*c)
	}
}

func (i *interpreter) raceAcquireRead(obj interface{}) {
	r := i.race
	if r == nil {
		return
	}
	if c := r.rrel[obj]; c != nil {
		r.clock(i.sched.cur).join(*c)
	}
}

func (i *interpreter) raceRelease(obj interface{}) {
	r := i.race
	if r == nil {
		return
	}
	g := i.sched.cur
	c := r.clock(g)
	if r.rel[obj] == nil {
		r.rel[obj] = &vclock{}
	}
	r.rel[obj].join(*c)
	c.set(g.id, c.get(g.id)+1)
}

func (i *interpreter) raceReleaseRead(obj interface{}) {
	r := i.race
	if r == nil {
		return
	}
	g := i.sched.cur
	c := r.clock(g)
	if r.rrel[obj] == nil {
		r.rrel[obj] = &vclock{}
	}
	r.rrel[obj].join(*c)
	c.set(g.id, c.get(g.id)+1)
}

// raceSpawn: the go statement happens before the new goroutine starts.
func (i *interpreter) raceSpawn(parent, child *gor) {
	r := i.race
	if r == nil {
		return
	}
	pc := r.clock(parent)
	cc := pc.clone()
	cc.set(child.id, 1)
	r.clocks[child] = &cc
	pc.set(parent.id, pc.get(parent.id)+1)
}

// ---- memory accesses ----

func (i *interpreter) raceAccess(loc interface{}, write bool, fr *frame) {
	r := i.race
	if r == nil {
		return
	}
	g := i.sched.cur
	c := r.clock(g)
	sh := r.cells[loc]
	if sh == nil {
		sh = &shadow{}
		r.cells[loc] = sh
	}
	var instr ssa.Instruction
	var fn *ssa.Function
	if fr != nil {
		instr, fn = fr.curInstr, fr.fn
	} else if i.lastFrame != nil {
		instr, fn = i.lastFrame.curInstr, i.lastFrame.fn
	}
	me := epoch{g: g.id, clk: c.get(g.id), instr: instr, fn: fn}
	if schedLog {
		if _, isMap := loc.(*gmap); isMap {
			fmt.Fprintf(os.Stderr, "mapaccess g%d write=%v clk=%v at %s lastw=%v/%d\n", g.id, write, *c, whereOf(me), sh.hasW, sh.w.g)
		}
	}
	if sh.hasW && sh.w.g != g.id && sh.w.clk > c.get(sh.w.g) {
		i.reportRace(sh.w, true, me, write)
	}
	if write {
		for _, rd := range sh.reads {
			if rd.g != g.id && rd.clk > c.get(rd.g) {
				i.reportRace(rd, false, me, true)
			}
		}
		sh.w, sh.hasW = me, true
		sh.reads = sh.reads[:0]
		return
	}
	for k := range sh.reads {
		if sh.reads[k].g == g.id {
			sh.reads[k] = me
			return
		}
	}
	sh.reads = append(sh.reads, me)
}

// raceAccessT descends into struct and array cells the way load/store do.
func (i *interpreter) raceAccessT(T types.Type, addr *value, write bool, fr *frame) {
	if i.race == nil || addr == nil {
		return
	}
	switch T := T.Underlying().(type) {
	case *types.Struct:
		if v, ok := (*addr).(structure); ok {
			for k := range v {
				i.raceAccessT(T.Field(k).Type(), &v[k], write, fr)
			}
			return
		}
	case *types.Array:
		if v, ok := (*addr).(array); ok {
			for k := range v {
				i.raceAccessT(T.Elem(), &v[k], write, fr)
			}
			return
		}
	}
	i.raceAccess(addr, write, fr)
}

// reflect.Value methods that do not read the value's memory (they only look at the type or
// compute an address).
var reflectNoRead = map[string]bool{
	"Type": true, "Kind": true, "CanAddr": true, "CanSet": true, "CanInterface": true, "Addr": true,
	"Field": true, "FieldByName": true, "FieldByIndex": true, "NumField": true, "IsValid": true,
	"Method": true, "MethodByName": true, "NumMethod": true,
}

// raceReflect: a reflect.Value method on an addressable Value reads (Set*: writes) the
// memory the Value refers to.
func (i *interpreter) raceReflect(method string, args []value, fr *frame) {
	if len(args) == 0 || reflectNoRead[method] {
		return
	}
	s, ok := args[0].(structure)
	if !ok || len(s) != 4 {
		return
	}
	rt, ok := s[0].(rtype)
	if !ok {
		return
	}
	a, ok := s[2].(*value)
	if !ok || a == nil {
		return
	}
	write := strings.HasPrefix(method, "Set") && method != "SetMapIndex"
	if method == "Index" {
		if _, isArr := rt.t.Underlying().(*types.Array); isArr {
			return // address computation only
		}
	}
	i.raceAccessT(rt.t, a, write, fr)
}

// raceSlice records an access to each element cell of a slice (append / copy).
func (i *interpreter) raceSlice(s []value, write bool) {
	if i.race == nil {
		return
	}
	for k := range s {
		i.raceAccess(&s[k], write, nil)
	}
}

func whereOf(e epoch) string {
	if e.fn == nil {
		return "?"
	}
	s := e.fn.String()
	if e.instr != nil && e.instr.Pos().IsValid() {
		p := e.fn.Prog.Fset.Position(e.instr.Pos())
		s += fmt.Sprintf(" (%s:%d)", shortFile(p.Filename), p.Line)
	}
	return s
}

func shortFile(f string) string {
	for k := len(f) - 1; k >= 0; k-- {
		if f[k] == '/' {
			return f[k+1:]
		}
	}
	return f
}

func (i *interpreter) reportRace(a epoch, aWrite bool, b epoch, bWrite bool) {
	r := i.race
	kind := func(w bool) string {
		if w {
			return "write"
		}
		return "read"
	}
	wa, wb := whereOf(a), whereOf(b)
	key := wa + "|" + wb
	if r.reported[key] || r.reported[wb+"|"+wa] {
		return
	}
	r.reported[key] = true
	r.races++
	msg := fmt.Sprintf("%s in %s (goroutine %d) and %s in %s (goroutine %d) are not ordered by any synchronisation", kind(aWrite), wa, a.g, kind(bWrite), wb, b.g)
	if debugOn {
		msg += "\n" + i.stack()
	}
	func() {
		defer func() { recover() }()
		i.recordViolation("race: "+wa+" / "+wb, msg, i.currentModel())
	}()
}

// ---- scheduling points ----

// startPending decides, for each goroutine the harness has started but that has not begun
// to run, whether it begins now (a free choice, explored at every scheduling and blocking
// point: "when does the other operation start" is linear in the number of such points).
// forced: nobody else can run, so if none is chosen the last one starts anyway.
// It returns true if one was put at the head of the run queue.
func (i *interpreter) startPending(forced bool) bool {
	r := i.race
	s := i.sched
	for k := 0; k < len(s.pend); k++ {
		g := s.pend[k]
		last := forced && k == len(s.pend)-1
		start := last
		if !last {
			r.nsched++
			t := i.tt.mkVar(fmt.Sprintf("sched.start%d.g%d", r.nsched, g.id), boolSort)
			i.solver.define(t)
			start = i.branch(t)
		}
		if start {
			s.pend = append(s.pend[:k:k], s.pend[k+1:]...)
			s.runq = append([]*gor{g}, s.runq...)
			return true
		}
	}
	return false
}

// schedPoint is called at every synchronisation operation.
func (i *interpreter) schedPoint() {
	r := i.race
	if r == nil || i.sched.dead {
		return
	}
	s := i.sched
	if len(s.pend) > 0 && i.startPending(false) {
		self := s.cur
		s.ready(self)
		s.switchAway(self, true)
		return
	}
	if len(s.runq) == 0 || r.preemptions >= r.maxPreempt {
		return
	}
	r.nsched++
	if schedLog {
		w := "?"
		if i.lastFrame != nil {
			w = whereOf(epoch{fn: i.lastFrame.fn, instr: i.lastFrame.curInstr})
		}
		fmt.Fprintf(os.Stderr, "schedpoint %d g%d preempt=%d at %s\n", r.nsched, s.cur.id, r.preemptions, w)
	}
	t := i.tt.mkVar(fmt.Sprintf("sched.switch%d", r.nsched), boolSort)
	i.solver.define(t)
	if i.branch(t) {
		r.preemptions++
		self := s.cur
		s.ready(self)
		s.switchAway(self, true)
	}
}

// waitOn parks the current goroutine until wake(obj).
func (i *interpreter) waitOn(obj interface{}) {
	r := i.race
	s := i.sched
	self := s.cur
	r.waiters[obj] = append(r.waiters[obj], self)
	s.block(self)
}

func (i *interpreter) wake(obj interface{}) {
	r := i.race
	if r == nil {
		return
	}
	for _, g := range r.waiters[obj] {
		i.sched.ready(g)
	}
	delete(r.waiters, obj)
}

// ---- sync.WaitGroup ----

func init() {
	ndExternals["vfRace"] = vfRace
	externals["(*sync.WaitGroup).Add"] = func(fr *frame, a []value) value {
		i := fr.i
		p := a[0].(*value)
		if i.wgCount == nil {
			i.wgCount = map[*value]int{}
		}
		i.wgCount[p] += int(i.concInt(a[1]))
		if i.wgCount[p] < 0 {
			panic(targetPanic{iface{types.Typ[types.String], "sync: negative WaitGroup counter"}})
		}
		if i.race != nil {
			i.raceRelease(p)
			if i.wgCount[p] == 0 {
				i.wake(p)
			}
		}
		return nil
	}
	externals["(*sync.WaitGroup).Done"] = func(fr *frame, a []value) value {
		return externals["(*sync.WaitGroup).Add"](fr, []value{a[0], -1})
	}
	externals["(*sync.WaitGroup).Wait"] = func(fr *frame, a []value) value {
		i := fr.i
		p := a[0].(*value)
		for i.wgCount[p] > 0 {
			if i.race != nil {
				i.waitOn(p)
				continue
			}
			// cooperative mode: let the others run until they block or finish
			s := i.sched
			if len(s.runq) == 0 {
				panic(pathAbort{kind: abortDeadlock, msg: "sync.WaitGroup.Wait: all goroutines are blocked (deadlock)"})
			}
			s.ready(s.cur)
			s.switchAway(s.cur, true)
		}
		i.raceAcquire(p)
		return nil
	}
}
