package interp

// A model of the fmt printing functions used by the code under test. Formatting is
// performed natively on concrete operands; error/Stringer operands have their
// methods called in the interpreter; symbolic strings are spliced into the result
// (which then is a symbolic string); other symbolic scalars print as a marker.
// Message wording is not a subject of any check; the model exists so that error
// paths can be executed and their file/line operands inspected.

import (
	"fmt"
	"go/token"
	"go/types"
	"sort"
	"strconv"
	"strings"

	"golang.org/x/tools/go/ssa"
)

// callMethod invokes method name on the dynamic value of itf, if it has one.
func (i *interpreter) callMethod(fr *frame, itf iface, name string, args ...value) (value, bool) {
	if itf.t == nil {
		return nil, false
	}
	switch itf.t {
	case rtypeType:
		if name == "String" {
			return typeString(itf.v.(rtype).t), true
		}
		return nil, false
	case errorType:
		if name == "Error" {
			return itf.v, true
		}
		return nil, false
	}
	ms := i.prog.MethodSets.MethodSet(itf.t)
	sel := ms.Lookup(nil, name)
	if sel == nil {
		return nil, false
	}
	fn := i.prog.MethodValue(sel)
	if fn == nil {
		return nil, false
	}
	return call(i, fr, token.NoPos, fn, append([]value{itf.v}, args...)), true
}

// nativeOf converts a concrete scalar/string engine value to a Go value for fmt.
func nativeOf(v value) (interface{}, bool) {
	switch x := v.(type) {
	case bool, int, int8, int16, int32, int64, uint, uint8, uint16, uint32, uint64, uintptr,
		float32, float64, complex64, complex128, string:
		return x, true
	}
	return nil, false
}

// fmtOperand renders one operand under a verb specification such as "%5.2f".
// The result is a list of byte values (possibly symbolic).
func (i *interpreter) fmtOperand(fr *frame, spec string, verb byte, arg value, depth int) []value {
	str := func(s string) []value { return strBytes(s) }
	if depth > 6 {
		return str("…")
	}
	itf, isIface := arg.(iface)
	if !isIface {
		// raw value (from nested formatting)
		itf = iface{nil, arg}
	}
	if isIface && itf.t == nil {
		switch verb {
		case 'T', 'v', 's':
			return str("<nil>")
		}
		return str("%!" + string(verb) + "(<nil>)")
	}
	if verb == 'T' {
		return str(typeString(itf.t))
	}
	v := itf.v
	if verb == 'v' && strings.Contains(spec, "#") && itf.t != nil {
		if _, ok := i.callMethodProbe(itf, "GoString"); !ok {
			return i.goSyntax(fr, itf.t, v, depth)
		}
	}
	// reflect.Value operands print what they hold
	if itf.t != nil && i.reflectValueType != nil && types.Identical(itf.t, i.reflectValueType) {
		r := rv(v)
		if !r.valid {
			return str("<invalid reflect.Value>")
		}
		if r.kind().String() == "interface" {
			return i.fmtOperand(fr, spec, verb, r.v, depth+1)
		}
		return i.fmtOperand(fr, spec, verb, iface{r.t, r.v}, depth+1)
	}
	// error / Stringer
	if itf.t != nil && (verb == 'v' || verb == 's' || verb == 'q') {
		if p, isPtr := v.(*value); isPtr && p == nil {
			// fmt prints a nil receiver as <nil> (it recovers the panic of the String method)
			return str("<nil>")
		}
		if !strings.Contains(spec, "#") {
			if s, ok := i.callMethod(fr, itf, "Error"); ok {
				return i.fmtString(spec, verb, s)
			}
			if s, ok := i.callMethod(fr, itf, "String"); ok {
				if _, isStr := s.(string); isStr {
					return i.fmtString(spec, verb, s)
				}
				if _, isStr := s.(symStr); isStr {
					return i.fmtString(spec, verb, s)
				}
			}
		}
	}
	switch x := v.(type) {
	case string, symStr:
		return i.fmtString(spec, verb, x)
	case symV:
		return str("⟨sym:" + x.t.String() + "⟩")
	case []value:
		if itf.t != nil {
			if st, ok := itf.t.Underlying().(*types.Slice); ok {
				if b, ok := st.Elem().Underlying().(*types.Basic); ok && b.Kind() == types.Uint8 && (verb == 's' || verb == 'q') {
					return i.fmtString(spec, verb, normStr(x))
				}
				out := str("[")
				for k, e := range x {
					if k > 0 {
						out = append(out, uint8(' '))
					}
					out = append(out, i.fmtOperand(fr, "%v", 'v', boxFor(st.Elem(), e), depth+1)...)
				}
				return append(out, uint8(']'))
			}
		}
	case *gmap:
		if itf.t != nil {
			if mt, ok := itf.t.Underlying().(*types.Map); ok {
				out := str("map[")
				for k, e := range i.fmtSortedEntries(x) {
					if k > 0 {
						out = append(out, uint8(' '))
					}
					out = append(out, i.fmtOperand(fr, "%v", 'v', boxFor(mt.Key(), e.key), depth+1)...)
					out = append(out, uint8(':'))
					out = append(out, i.fmtOperand(fr, "%v", 'v', boxFor(mt.Elem(), e.val), depth+1)...)
				}
				return append(out, uint8(']'))
			}
		}
	case structure:
		if itf.t != nil {
			if st, ok := itf.t.Underlying().(*types.Struct); ok && st.NumFields() == len(x) {
				out := str("{")
				for k, e := range x {
					if k > 0 {
						out = append(out, uint8(' '))
					}
					if strings.Contains(spec, "+") {
						out = append(out, str(st.Field(k).Name()+":")...)
					}
					out = append(out, i.fmtOperand(fr, "%v", 'v', boxFor(st.Field(k).Type(), e), depth+1)...)
				}
				return append(out, uint8('}'))
			}
		}
	case *value:
		if x == nil {
			return str("<nil>")
		}
		if itf.t != nil {
			if pt, ok := itf.t.Underlying().(*types.Pointer); ok && depth == 0 {
				if _, ok := pt.Elem().Underlying().(*types.Struct); ok {
					return append(str("&"), i.fmtOperand(fr, spec, verb, iface{pt.Elem(), *x}, depth+1)...)
				}
			}
		}
		return str(fmt.Sprintf("0x%x", i.objID(x)))
	case iface:
		return i.fmtOperand(fr, spec, verb, x, depth+1)
	case rtype:
		return str(typeString(x.t))
	}
	if n, ok := nativeOf(v); ok {
		return str(fmt.Sprintf(spec, n))
	}
	return str(toString(v))
}

func boxFor(t types.Type, v value) value {
	if isIfaceType(t) {
		return v
	}
	return iface{t, v}
}

// fmtString formats a string operand; symbolic bytes are kept for %s/%v.
func (i *interpreter) fmtString(spec string, verb byte, s value) []value {
	if cs, ok := s.(string); ok {
		if verb == 'v' {
			spec = strings.Replace(spec, "v", "s", 1)
		}
		return strBytes(fmt.Sprintf(spec, cs))
	}
	ss := s.(symStr)
	switch verb {
	case 's', 'v':
		return ss.b
	case 'q':
		out := []value{uint8('"')}
		out = append(out, ss.b...) // not escaped: wording only
		return append(out, uint8('"'))
	}
	return strBytes("%!" + string(verb) + "(symbolic string)")
}

// sprintf implements the formatting loop.
func (i *interpreter) sprintf(fr *frame, format value, args []value) value {
	// A format string may itself contain symbolic bytes (e.g. a template name spliced
	// into an error format); those are copied through as literal bytes (a symbolic '%'
	// is not interpreted as a verb: message wording is not a subject of any check).
	fb := strBytes(format)
	isC := func(p int) (byte, bool) {
		if p < len(fb) {
			if c, ok := fb[p].(uint8); ok {
				return c, true
			}
		}
		return 0, false
	}
	var out []value
	argN := 0
	for p := 0; p < len(fb); {
		c, conc := isC(p)
		if !conc || c != '%' {
			out = append(out, fb[p])
			p++
			continue
		}
		q := p + 1
		for {
			d, ok := isC(q)
			if !ok || strings.IndexByte("+-# 0123456789.*", d) < 0 {
				break
			}
			q++
		}
		verb, ok := isC(q)
		if !ok {
			out = append(out, strBytes("%!(NOVERB)")...)
			p = q
			continue
		}
		var sb strings.Builder
		for k := p; k <= q; k++ {
			sb.WriteByte(fb[k].(uint8))
		}
		spec := sb.String()
		p = q + 1
		if verb == '%' {
			out = append(out, uint8('%'))
			continue
		}
		if strings.Contains(spec, "*") {
			panic(unsupported("fmt: '*' width"))
		}
		if argN >= len(args) {
			out = append(out, strBytes("%!"+string(verb)+"(MISSING)")...)
			continue
		}
		if verb == 'w' {
			verb = 'v'
			spec = spec[:len(spec)-1] + "v"
		}
		out = append(out, i.fmtOperand(fr, spec, verb, args[argN], 0)...)
		argN++
	}
	if argN < len(args) {
		out = append(out, strBytes("%!(EXTRA)")...)
	}
	return normStr(out)
}

func (i *interpreter) sprint(fr *frame, args []value, ln bool) value {
	var out []value
	prevStr := false
	for k, a := range args {
		itf := a.(iface)
		_, isStr := itf.v.(string)
		if _, ok := itf.v.(symStr); ok {
			isStr = true
		}
		if itf.t == nil {
			isStr = false
		}
		if k > 0 && (ln || (!isStr && !prevStr)) {
			out = append(out, uint8(' '))
		}
		out = append(out, i.fmtOperand(fr, "%v", 'v', a, 0)...)
		prevStr = isStr
	}
	if ln {
		out = append(out, uint8('\n'))
	}
	return normStr(out)
}

func ext۰fmt۰Sprintf(fr *frame, a []value) value {
	return fr.i.sprintf(fr, a[0], a[1].([]value))
}

func (i *interpreter) newError(msg value) value {
	var cell value = structure{msg}
	return iface{i.errorStringType, &cell}
}

func ext۰fmt۰Errorf(fr *frame, a []value) value {
	return fr.i.newError(fr.i.sprintf(fr, a[0], a[1].([]value)))
}

func ext۰fmt۰Sprint(fr *frame, a []value) value {
	return fr.i.sprint(fr, a[0].([]value), false)
}

func ext۰fmt۰Sprintln(fr *frame, a []value) value {
	return fr.i.sprint(fr, a[0].([]value), true)
}

func (i *interpreter) writeTo(fr *frame, w value, s value) value {
	b := append([]value{}, strBytes(s)...)
	r, ok := i.callMethod(fr, w.(iface), "Write", b)
	if !ok {
		panic(i.rtPanic("invalid memory address or nil pointer dereference (nil io.Writer)"))
	}
	return r
}

func ext۰fmt۰Fprintf(fr *frame, a []value) value {
	return fr.i.writeTo(fr, a[0], fr.i.sprintf(fr, a[1], a[2].([]value)))
}

func ext۰fmt۰Fprint(fr *frame, a []value) value {
	return fr.i.writeTo(fr, a[0], fr.i.sprint(fr, a[1].([]value), false))
}

func ext۰fmt۰Fprintln(fr *frame, a []value) value {
	return fr.i.writeTo(fr, a[0], fr.i.sprint(fr, a[1].([]value), true))
}


// callMethodProbe reports whether the dynamic type has the method (without calling it).
func (i *interpreter) callMethodProbe(itf iface, name string) (*ssa.Function, bool) {
	if itf.t == nil {
		return nil, false
	}
	if _, isR := itf.v.(rtype); isR {
		return nil, false
	}
	sel := i.prog.MethodSets.MethodSet(itf.t).Lookup(nil, name)
	if sel == nil {
		return nil, false
	}
	fn := i.prog.MethodValue(sel)
	return fn, fn != nil
}

// fmtSortedEntries orders map entries the way fmt prints them (internal/fmtsort): by key
// for keys of one basic kind. Maps whose order cannot be modelled (symbolic keys, keys of
// mixed dynamic types, composite keys) with more than one entry are not supported.
func (i *interpreter) fmtSortedEntries(m *gmap) []*gentry {
	es := m.liveEntries()
	if len(es) < 2 {
		return es
	}
	keyOf := func(v value) (interface{}, types.Type) {
		if itf, ok := v.(iface); ok {
			return itf.v, itf.t
		}
		return v, nil
	}
	var t0 types.Type
	for k, e := range es {
		kv, kt := keyOf(e.key)
		if _, ok := nativeOf(kv); !ok {
			panic(unsupported("fmt: printing a map whose keys are symbolic or composite (order not modelled)"))
		}
		if k == 0 {
			t0 = kt
		} else if (kt == nil) != (t0 == nil) || (kt != nil && !types.Identical(kt, t0)) {
			panic(unsupported("fmt: printing a map with keys of mixed dynamic types (order depends on type addresses)"))
		}
	}
	out := append([]*gentry(nil), es...)
	less := func(a, b value) bool {
		x, _ := keyOf(a)
		y, _ := keyOf(b)
		switch x := x.(type) {
		case string:
			return x < y.(string)
		case bool:
			return !x && y.(bool)
		case float64:
			yy := y.(float64)
			return x < yy || (x != x && yy == yy)
		case float32:
			yy := y.(float32)
			return x < yy || (x != x && yy == yy)
		}
		xi, xs := asInt(x)
		yi, _ := asInt(y)
		if xs {
			return int64(xi) < int64(yi)
		}
		return xi < yi
	}
	sort.SliceStable(out, func(a, b int) bool { return less(out[a].key, out[b].key) })
	return out
}

func asInt(v interface{}) (uint64, bool) {
	switch x := v.(type) {
	case int:
		return uint64(x), true
	case int8:
		return uint64(x), true
	case int16:
		return uint64(x), true
	case int32:
		return uint64(x), true
	case int64:
		return uint64(x), true
	case uint:
		return uint64(x), false
	case uint8:
		return uint64(x), false
	case uint16:
		return uint64(x), false
	case uint32:
		return uint64(x), false
	case uint64:
		return x, false
	case uintptr:
		return uint64(x), false
	}
	panic(unsupported("fmt: map key of unexpected kind %T", v))
}

// goSyntax renders %#v (Go-syntax representation) of a value of static type t.
func (i *interpreter) goSyntax(fr *frame, t types.Type, v value, depth int) []value {
	str := func(s string) []value { return strBytes(s) }
	if depth > 8 {
		return str("…")
	}
	if i.reflectValueType != nil && types.Identical(t, i.reflectValueType) {
		r := rv(v)
		if !r.valid {
			return str("<invalid reflect.Value>")
		}
		return i.goSyntax(fr, r.t, r.v, depth+1)
	}
	ts := typeString(t)
	switch u := t.Underlying().(type) {
	case *types.Interface:
		itf, _ := v.(iface)
		if itf.t == nil {
			if depth == 0 {
				return str("<nil>")
			}
			return str(ts + "(nil)")
		}
		if fn, ok := i.callMethodProbe(itf, "GoString"); ok {
			s := call(i, fr, token.NoPos, fn, []value{itf.v})
			return strBytes(s)
		}
		return i.goSyntax(fr, itf.t, itf.v, depth+1)
	case *types.Basic:
		switch x := v.(type) {
		case string:
			return str(strconv.Quote(x))
		case symStr:
			out := []value{uint8('"')}
			out = append(out, x.b...)
			return append(out, uint8('"'))
		case symV:
			return str("⟨sym:" + x.t.String() + "⟩")
		}
		if n, ok := nativeOf(v); ok {
			return str(fmt.Sprintf("%#v", n))
		}
	case *types.Slice:
		x, _ := v.([]value)
		if x == nil {
			return str(ts + "(nil)")
		}
		out := str(ts + "{")
		for k, e := range x {
			if k > 0 {
				out = append(out, str(", ")...)
			}
			out = append(out, i.goSyntax(fr, u.Elem(), e, depth+1)...)
		}
		return append(out, uint8('}'))
	case *types.Array:
		x, _ := v.(array)
		out := str(ts + "{")
		for k, e := range x {
			if k > 0 {
				out = append(out, str(", ")...)
			}
			out = append(out, i.goSyntax(fr, u.Elem(), e, depth+1)...)
		}
		return append(out, uint8('}'))
	case *types.Map:
		x, _ := v.(*gmap)
		if x == nil {
			return str(ts + "(nil)")
		}
		out := str(ts + "{")
		for k, e := range i.fmtSortedEntries(x) {
			if k > 0 {
				out = append(out, str(", ")...)
			}
			out = append(out, i.goSyntax(fr, u.Key(), e.key, depth+1)...)
			out = append(out, uint8(':'))
			out = append(out, i.goSyntax(fr, u.Elem(), e.val, depth+1)...)
		}
		return append(out, uint8('}'))
	case *types.Struct:
		x, _ := v.(structure)
		out := str(ts + "{")
		for k, e := range x {
			if k > 0 {
				out = append(out, str(", ")...)
			}
			out = append(out, str(u.Field(k).Name()+":")...)
			out = append(out, i.goSyntax(fr, u.Field(k).Type(), e, depth+1)...)
		}
		return append(out, uint8('}'))
	case *types.Pointer:
		x, _ := v.(*value)
		if x == nil {
			return str("(" + ts + ")(nil)")
		}
		if depth == 0 {
			switch u.Elem().Underlying().(type) {
			case *types.Struct, *types.Array, *types.Slice, *types.Map:
				return append(str("&"), i.goSyntax(fr, u.Elem(), *x, depth+1)...)
			}
		}
		return str(fmt.Sprintf("(%s)(0x%x)", ts, i.objID(x)))
	case *types.Signature:
		if isNilFunc(v) {
			return str("(" + ts + ")(nil)")
		}
		return str(fmt.Sprintf("(%s)(0x%x)", ts, 0x4a0000))
	}
	return str(toString(v))
}

func isNilFunc(v value) bool {
	switch f := v.(type) {
	case nil:
		return true
	case *ssa.Function:
		return f == nil
	case *closure:
		return f == nil
	}
	return false
}
