// Copyright 2013 The Go Authors. All rights reserved.
// Use of this source code is governed by a BSD-style
// license that can be found in the LICENSE file (LICENSE.xtools).

// Package interp is a symbolic executor for the SSA form of Go programs.
//
// It is an adaptation of golang.org/x/tools/go/ssa/interp (v0.29.0): the concrete
// tree-walking interpreter for SSA was extended with
//   - symbolic scalar values and strings (SMT terms, see sym.go/symops.go),
//   - forking by re-execution over a decision log, decided by an SMT solver (explore.go),
//   - explicit verification conditions for every implicit Go panic,
//   - deterministic coroutine scheduling of goroutines and channels (sched.go),
//   - a model of package reflect over go/types (reflect.go), and summaries of the
//     runtime/assembly boundary (external.go).
package interp

import (
	"fmt"
	"go/token"
	"go/types"
	"os"
	"runtime"
	"runtime/debug"
	"slices"
	"strings"
	"sync"

	"golang.org/x/tools/go/ssa"
)

type continuation int

const (
	kNext continuation = iota
	kReturn
	kJump
)

type methodSet map[string]*ssa.Function

// State of one worker: an interpreter with its own heap, term table and solver.
type interpreter struct {
	prog               *ssa.Program
	globals            map[*ssa.Global]*value
	reflectPackage     *ssa.Package
	errorMethods       methodSet
	rtypeMethods       methodSet
	runtimeErrorString types.Type
	sizes              types.Sizes

	tt     *termTable
	solver *solver
	sched  *sched
	test   *testRun // selftest only: state of the repository test being executed
	race    *raceState     // schedule exploration + happens-before race detection (race.go); nil = off
	wgCount map[*value]int // sync.WaitGroup counters
	path   *pathState
	opts   Options
	funcs  map[*ssa.Function]bool

	initAllow  map[string]bool       // package paths whose init is executed
	skipped    map[*ssa.Package]bool // packages whose init was skipped (globals are poison)
	resetPkgs  []*ssa.Package        // packages re-initialised at the start of every path
	harnessPkg map[string]bool       // package paths that contain harness code (nd*/vf* intercepted)

	// per-path side tables for summarised sync primitives
	onceDone map[*value]bool
	syncMaps map[*value]*gmap
	locks    map[*value]int
	pools    map[*value][]value
	extState map[string]interface{}

	reflectValueType *types.Named
	errorStringType  types.Type
	monitor          *monitor
	lastFrame        *frame
	sampleCtr        int
	aliased          map[*ssa.Global]bool
	guards           map[*gmap]*value
	guardNames       map[*gmap]string
	publishedMaps    map[*gmap]string  // maps stored as values of a guarded map -> guard name
	publishedArrs    map[*value]string // backing arrays of slices stored as values of a guarded map
}

var hooksUsedMu sync.Mutex

// HooksUsed returns the summaries exercised so far in this process.
func HooksUsed() []string {
	hooksUsedMu.Lock()
	defer hooksUsedMu.Unlock()
	var out []string
	for k := range hooksUsed {
		out = append(out, k)
	}
	return out
}

// monitor observes lock operations and guarded accesses (lock discipline, C11).
type monitor struct {
	events []string
}

func (m *monitor) lockEvent(i *interpreter, kind string, p *value) {}

// publish: a map or slice stored as a value of a guarded map becomes visible to readers
// who (legitimately) use it after releasing the guard - as jet does with the per-type
// field index and the in-memory loader's file contents. From then on it must not be
// modified in place: any later write to it is reported.
func (i *interpreter) publish(into *gmap, v value) {
	name, guarded := i.guardNames[into]
	if !guarded {
		return
	}
	switch x := v.(type) {
	case *gmap:
		if x != nil {
			i.publishedMaps[x] = name
		}
	case []value:
		if cap(x) > 0 {
			i.publishedArrs[&x[:1][0]] = name
		}
	}
}

func (i *interpreter) publishedWrite(m *gmap, what string) {
	if name, ok := i.publishedMaps[m]; ok {
		msg := fmt.Sprintf("write (%s) to a map that was published through %s and is read without the lock", what, name)
		func() {
			defer func() { recover() }()
			i.recordViolation("lock: "+name, msg, i.currentModel())
		}()
	}
}

// publishedArrWrite reports an in-place write into the backing array of a published slice.
func (i *interpreter) publishedArrWrite(s []value, what string) {
	if len(i.publishedArrs) == 0 || cap(s) == 0 {
		return
	}
	if name, ok := i.publishedArrs[&s[:1][0]]; ok {
		msg := fmt.Sprintf("in-place write (%s) into a byte slice that was published through %s and is read without the lock", what, name)
		func() {
			defer func() { recover() }()
			i.recordViolation("lock: "+name, msg, i.currentModel())
		}()
	}
}

// guardCheck is called on every operation on a map: if the harness declared the map as
// guarded by a mutex (vfGuardMap), the mutex must be held - write-locked for updates,
// at least read-locked for reads - otherwise a lock-discipline violation is recorded.
func (i *interpreter) guardCheck(m *gmap, write bool, what string) {
	if i.race != nil {
		// concurrent mode: the happens-before detector decides (the lock state is per
		// process here, not per goroutine)
		if m != nil {
			i.raceAccess(m, write, nil)
		}
		return
	}
	if m == nil || len(i.guards) == 0 {
		return
	}
	mu, ok := i.guards[m]
	if !ok {
		return
	}
	st := i.locks[mu]
	if (write && st != -1) || (!write && st == 0) {
		name := i.guardNames[m]
		mode := "read"
		if write {
			mode = "write"
		}
		msg := fmt.Sprintf("%s access (%s) to %s without holding its mutex", mode, what, name)
		if debugOn {
			msg += "\n" + i.stack()
		}
		func() {
			defer func() { recover() }()
			i.recordViolation("lock: "+name, msg, i.currentModel())
		}()
	}
}

type deferred struct {
	fn    value
	args  []value
	instr *ssa.Defer
	tail  *deferred
}

type frame struct {
	i                *interpreter
	caller           *frame
	fn               *ssa.Function
	block, prevBlock *ssa.BasicBlock
	env              []value // dynamic values of SSA variables, indexed through info
	info             *fnInfo
	locals           []value
	defers           *deferred
	result           value
	panicking        bool
	panic            interface{}
	phitemps         []value // temporaries for parallel phi assignment
	curInstr         ssa.Instruction
	depth            int
}

func mustDeref(t types.Type) types.Type {
	if p, ok := t.Underlying().(*types.Pointer); ok {
		return p.Elem()
	}
	panic(fmt.Sprintf("mustDeref: not a pointer: %v", t))
}

// rtPanic builds a target-level run-time error (a value implementing runtime.Error).
func (i *interpreter) rtPanic(msg string) targetPanic {
	if debugOn {
		msg += "\n" + i.stack()
	}
	return targetPanic{iface{i.runtimeErrorString, "runtime error: " + msg}}
}

var debugOn = os.Getenv("GOSYM_DEBUG") != ""

// stack renders the interpreted call stack (diagnostics only).
func (i *interpreter) stack() string {
	var sb strings.Builder
	for fr := i.lastFrame; fr != nil; fr = fr.caller {
		pos := ""
		if fr.curInstr != nil {
			pos = i.prog.Fset.Position(fr.curInstr.Pos()).String()
		}
		fmt.Fprintf(&sb, "    at %s (%s)\n", fr.fn, pos)
	}
	return sb.String()
}

func (fr *frame) get(key ssa.Value) value {
	switch key := key.(type) {
	case nil:
		// Hack; simplifies handling of optional attributes
		// such as ssa.Slice.{Low,High}.
		return nil
	case *ssa.Function, *ssa.Builtin:
		return key
	case *ssa.Const:
		return constValue(key)
	case *ssa.Global:
		if r, ok := fr.i.globals[key]; ok {
			if key.Pkg != nil && fr.i.skipped[key.Pkg] && !fr.i.aliased[key] && !poisonExempt(key) {
				panic(unsupported("use of global %s of a package whose initialiser was not run", key))
			}
			return r
		}
	}
	if k, ok := fr.info.idx[key]; ok {
		return fr.env[k]
	}
	panic(fmt.Sprintf("get: no value for %T: %v", key, key.Name()))
}

func (fr *frame) set(key ssa.Value, v value) {
	fr.env[fr.info.idx[key]] = v
}

// fnInfo numbers the SSA values of a function so that a frame's environment is a slice.
type fnInfo struct {
	idx map[ssa.Value]int
	n   int
}

var fnInfos sync.Map // *ssa.Function -> *fnInfo

func infoOf(fn *ssa.Function) *fnInfo {
	if v, ok := fnInfos.Load(fn); ok {
		return v.(*fnInfo)
	}
	fi := &fnInfo{idx: map[ssa.Value]int{}}
	add := func(v ssa.Value) {
		if _, ok := fi.idx[v]; !ok {
			fi.idx[v] = fi.n
			fi.n++
		}
	}
	for _, p := range fn.Params {
		add(p)
	}
	for _, fv := range fn.FreeVars {
		add(fv)
	}
	for _, l := range fn.Locals {
		add(l)
	}
	for _, b := range fn.Blocks {
		for _, in := range b.Instrs {
			if v, ok := in.(ssa.Value); ok {
				add(v)
			}
		}
	}
	if fn.Recover != nil {
		for _, in := range fn.Recover.Instrs {
			if v, ok := in.(ssa.Value); ok {
				add(v)
			}
		}
	}
	v, _ := fnInfos.LoadOrStore(fn, fi)
	return v.(*fnInfo)
}

// poisonExempt lists globals of non-initialised packages whose zero value is their
// correct initial value (or that are only touched by summarised code).
func poisonExempt(g *ssa.Global) bool {
	switch g.Pkg.Pkg.Path() {
	case "sync", "sync/atomic", "internal/race", "internal/bytealg", "internal/cpu":
		return true
	}
	return false
}

// runDefer runs a deferred call d.
// It always returns normally, but may set or clear fr.panic.
func (fr *frame) runDefer(d *deferred) {
	var ok bool
	defer func() {
		if !ok {
			r := recover()
			if _, isAbort := r.(pathAbort); isAbort {
				panic(r)
			}
			if _, isTarget := r.(targetPanic); !isTarget {
				panic(enginePanic(r))
			}
			// Deferred call created a new state of panic.
			fr.panicking = true
			fr.panic = r
		}
	}()
	call(fr.i, fr, d.instr.Pos(), d.fn, d.args)
	ok = true
}

func enginePanic(r interface{}) pathAbort {
	if pa, ok := r.(pathAbort); ok {
		return pa
	}
	return pathAbort{kind: abortEngine, msg: fmt.Sprintf("engine error: %v\n%s", r, debug.Stack())}
}

// runDefers executes fr's deferred function calls in LIFO order.
func (fr *frame) runDefers() {
	for d := fr.defers; d != nil; d = d.tail {
		fr.runDefer(d)
	}
	fr.defers = nil
	if fr.panicking {
		panic(fr.panic) // new panic, or still panicking
	}
}

// lookupMethod returns the method set for type typ, which may be one
// of the interpreter's fake types.
func lookupMethod(i *interpreter, typ types.Type, meth *types.Func) *ssa.Function {
	switch typ {
	case rtypeType:
		return i.rtypeMethods[meth.Id()]
	case errorType:
		return i.errorMethods[meth.Id()]
	}
	return i.prog.LookupMethod(typ, meth.Pkg(), meth.Name())
}

// visitInstr interprets a single ssa.Instruction within the activation
// record frame.  It returns a continuation value indicating where to
// read the next instruction from.
func visitInstr(fr *frame, instr ssa.Instruction) continuation {
	i := fr.i
	switch instr := instr.(type) {
	case *ssa.DebugRef:
		// no-op

	case *ssa.UnOp:
		fr.set(instr, unop(fr, instr, fr.get(instr.X)))

	case *ssa.BinOp:
		fr.set(instr, binop(i, instr.Op, instr.X.Type(), fr.get(instr.X), fr.get(instr.Y)))

	case *ssa.Call:
		fn, args := prepareCall(fr, &instr.Call)
		fr.set(instr, call(fr.i, fr, instr.Pos(), fn, args))

	case *ssa.ChangeInterface:
		fr.set(instr, fr.get(instr.X))

	case *ssa.ChangeType:
		fr.set(instr, fr.get(instr.X)) // (can't fail)

	case *ssa.Convert:
		fr.set(instr, conv(i, instr.Type(), instr.X.Type(), fr.get(instr.X)))

	case *ssa.SliceToArrayPointer:
		fr.set(instr, sliceToArrayPointer(i, instr.Type(), instr.X.Type(), fr.get(instr.X)))

	case *ssa.MakeInterface:
		fr.set(instr, iface{t: instr.X.Type(), v: fr.get(instr.X)})

	case *ssa.Extract:
		fr.set(instr, fr.get(instr.Tuple).(tuple)[instr.Index])

	case *ssa.Slice:
		fr.set(instr, slice(i, fr.get(instr.X), fr.get(instr.Low), fr.get(instr.High), fr.get(instr.Max)))

	case *ssa.Return:
		switch len(instr.Results) {
		case 0:
		case 1:
			fr.result = fr.get(instr.Results[0])
		default:
			var res []value
			for _, r := range instr.Results {
				res = append(res, fr.get(r))
			}
			fr.result = tuple(res)
		}
		fr.block = nil
		return kReturn

	case *ssa.RunDefers:
		fr.runDefers()

	case *ssa.Panic:
		panic(targetPanic{fr.get(instr.X)})

	case *ssa.Send:
		i.chanSend(fr, fr.get(instr.Chan).(*channel), fr.get(instr.X))

	case *ssa.Store:
		addr := fr.get(instr.Addr).(*value)
		if addr == nil {
			panic(i.rtPanic("invalid memory address or nil pointer dereference"))
		}
		if i.race != nil {
			i.raceAccessT(mustDeref(instr.Addr.Type()), addr, true, fr)
		}
		store(mustDeref(instr.Addr.Type()), addr, fr.get(instr.Val))

	case *ssa.If:
		succ := 1
		if i.truth(fr.get(instr.Cond)) {
			succ = 0
		}
		fr.prevBlock, fr.block = fr.block, fr.block.Succs[succ]
		return kJump

	case *ssa.Jump:
		fr.prevBlock, fr.block = fr.block, fr.block.Succs[0]
		return kJump

	case *ssa.Defer:
		fn, args := prepareCall(fr, &instr.Call)
		defers := &fr.defers
		if into := fr.get(instr.DeferStack); into != nil {
			defers = into.(**deferred)
		}
		*defers = &deferred{
			fn:    fn,
			args:  args,
			instr: instr,
			tail:  *defers,
		}

	case *ssa.Go:
		fn, args := prepareCall(fr, &instr.Call)
		pos := instr.Pos()
		gated := i.race != nil && fr.fn.Pkg != nil && i.harnessPkg[fr.fn.Pkg.Pkg.Path()] && strings.HasPrefix(shortFile(i.prog.Fset.Position(fr.fn.Pos()).Filename), "zz_verif_")
		child := i.sched.spawn(i, func(g *gor) {
			call(i, nil, pos, fn, args)
		}, gated)
		i.raceSpawn(i.sched.cur, child)
		i.schedPoint()

	case *ssa.MakeChan:
		fr.set(instr, &channel{cap: int(i.concInt(fr.get(instr.Size)))})

	case *ssa.Alloc:
		var addr *value
		if instr.Heap {
			// new
			addr = new(value)
			fr.set(instr, addr)
		} else {
			// local
			addr = fr.get(instr).(*value)
		}
		*addr = zero(mustDeref(instr.Type()))

	case *ssa.MakeSlice:
		c := i.concInt(fr.get(instr.Cap))
		l := i.concInt(fr.get(instr.Len))
		if l < 0 || l > c || c > 1<<28 {
			panic(i.rtPanic("makeslice: len out of range"))
		}
		slice := make([]value, c)
		tElt := instr.Type().Underlying().(*types.Slice).Elem()
		for i := range slice {
			slice[i] = zero(tElt)
		}
		fr.set(instr, slice[:l])

	case *ssa.MakeMap:
		fr.set(instr, makeMap(instr.Type().Underlying().(*types.Map).Key(), 0))

	case *ssa.Range:
		fr.set(instr, rangeIter(fr, fr.get(instr.X), instr.X.Type()))

	case *ssa.Next:
		fr.set(instr, fr.get(instr.Iter).(iter).next())

	case *ssa.FieldAddr:
		p := fr.get(instr.X).(*value)
		if p == nil {
			panic(i.rtPanic("invalid memory address or nil pointer dereference"))
		}
		fr.set(instr, &(*p).(structure)[instr.Field])

	case *ssa.Field:
		fr.set(instr, fr.get(instr.X).(structure)[instr.Field])

	case *ssa.IndexAddr:
		x := fr.get(instr.X)
		idx := fr.get(instr.Index)
		var elems []value
		switch x := x.(type) {
		case []value:
			elems = x
		case *value: // *array
			if x == nil {
				panic(i.rtPanic("invalid memory address or nil pointer dereference"))
			}
			elems = (*x).(array)
		default:
			panic(fmt.Sprintf("unexpected x type in IndexAddr: %T", x))
		}
		if sv, ok := idx.(symV); ok {
			fr.set(instr, i.symIndexAddr(elems, sv))
		} else {
			n := asInt64(idx)
			if n < 0 || n >= int64(len(elems)) {
				panic(i.rtPanic(fmt.Sprintf("index out of range [%d] with length %d", n, len(elems))))
			}
			fr.set(instr, &elems[n])
		}

	case *ssa.Index:
		x := fr.get(instr.X)
		idx := fr.get(instr.Index)
		switch x := x.(type) {
		case array:
			fr.set(instr, i.indexElems(x, idx))
		case string:
			if sv, ok := idx.(symV); ok {
				fr.set(instr, i.indexElems(strBytes(x), sv))
			} else {
				n := asInt64(idx)
				if n < 0 || n >= int64(len(x)) {
					panic(i.rtPanic(fmt.Sprintf("index out of range [%d] with length %d", n, len(x))))
				}
				fr.set(instr, x[n])
			}
		case symStr:
			fr.set(instr, i.indexElems(x.b, idx))
		default:
			panic(fmt.Sprintf("unexpected x type in Index: %T", x))
		}

	case *ssa.Lookup:
		fr.set(instr, lookup(i, instr, fr.get(instr.X), fr.get(instr.Index)))

	case *ssa.MapUpdate:
		m := fr.get(instr.Map).(*gmap)
		if m == nil {
			panic(targetPanic{iface{i.runtimeErrorString, "assignment to entry in nil map"}})
		}
		key := fr.get(instr.Key)
		if itf, ok := key.(iface); ok && itf.t != nil && !comparableType(itf.t) {
			panic(i.rtPanic("hash of unhashable type " + itf.t.String()))
		}
		i.guardCheck(m, true, "store")
		i.publishedWrite(m, "store")
		i.publish(m, fr.get(instr.Value))
		m.insert(i, key, fr.get(instr.Value))

	case *ssa.TypeAssert:
		fr.set(instr, typeAssert(fr.i, instr, fr.get(instr.X).(iface)))

	case *ssa.MakeClosure:
		var bindings []value
		for _, binding := range instr.Bindings {
			bindings = append(bindings, fr.get(binding))
		}
		fr.set(instr, &closure{instr.Fn.(*ssa.Function), bindings})

	case *ssa.Phi:
		panic("unreachable: phis are processed at block entry")

	case *ssa.Select:
		panic(unsupported("select statement"))

	default:
		panic(fmt.Sprintf("unexpected instruction: %T", instr))
	}

	return kNext
}

// indexElems returns elems[idx] with an explicit bounds VC; idx may be symbolic.
func (i *interpreter) indexElems(elems []value, idx value) value {
	if sv, ok := idx.(symV); ok {
		p := i.symIndexAddr(elems, sv)
		return i.loadPtr(p)
	}
	n := asInt64(idx)
	if n < 0 || n >= int64(len(elems)) {
		panic(i.rtPanic(fmt.Sprintf("index out of range [%d] with length %d", n, len(elems))))
	}
	return elems[n]
}

// symElemPtr is the address of elems[idx] for a symbolic in-range idx over a table of
// concrete scalars; only loads are supported.
type symElemPtr struct {
	elems []value
	idx   symV
}

// symIndexAddr handles &elems[idx] for symbolic idx: bounds VC, then either a
// table-lookup pointer (scalar tables) or concretisation by forking.
func (i *interpreter) symIndexAddr(elems []value, sv symV) value {
	tt := i.tt
	w := sv.t.sort.w
	var inb *Term
	if kindSigned(sv.k) {
		inb = tt.and(tt.bvCmp("bvsle", tt.bvConst(0, w), sv.t), tt.bvCmp("bvslt", sv.t, tt.bvConst(uint64(len(elems)), w)))
	} else {
		inb = tt.bvCmp("bvult", sv.t, tt.bvConst(uint64(len(elems)), w))
	}
	if w < 64 && uint64(len(elems)) > mask(w) {
		inb = tt.boolConst(true)
	}
	if !i.branch(inb) {
		panic(i.rtPanic(fmt.Sprintf("index out of range [symbolic] with length %d", len(elems))))
	}
	if len(elems) > 4 && len(elems) <= 1024 {
		ok := true
		var k0 types.BasicKind
		for n, e := range elems {
			k, isScalar := scalarKind(e)
			if !isScalar || k == types.Float32 {
				ok = false
				break
			}
			if _, sym := e.(symV); sym {
				ok = false
				break
			}
			if n == 0 {
				k0 = k
			} else if k != k0 {
				ok = false
				break
			}
		}
		if ok {
			return symElemPtr{elems, sv}
		}
	}
	// Sparse tables of references (e.g. strings.byteStringReplacer.replacements, a
	// [256][]byte with five non-nil entries): decide the few non-nil entries one by one;
	// all remaining indices hold nil and are represented by one shared nil cell.
	if len(elems) >= 16 {
		var nonNil []int
		sparse := true
		for k, e := range elems {
			switch x := e.(type) {
			case []value:
				if x != nil {
					nonNil = append(nonNil, k)
				}
			case *value:
				if x != nil {
					nonNil = append(nonNil, k)
				}
			default:
				sparse = false
			}
			if !sparse || len(nonNil) > 16 {
				sparse = false
				break
			}
		}
		if sparse {
			for _, k := range nonNil {
				if i.branch(tt.eq(sv.t, tt.bvConst(uint64(k), w))) {
					return &elems[k]
				}
			}
			for k := range elems {
				isNonNil := false
				for _, q := range nonNil {
					if q == k {
						isNonNil = true
					}
				}
				if !isNonNil {
					cell := elems[k] // a nil of the element type; loads only
					return &cell
				}
			}
		}
	}
	n := i.concretize(sv)
	return &elems[n]
}

// loadPtr loads through a pointer value that may be a symElemPtr.
func (i *interpreter) loadPtr(p value) value {
	switch p := p.(type) {
	case *value:
		return *p
	case symElemPtr:
		tt := i.tt
		k, _ := scalarKind(p.elems[0])
		// nested ite over the table, balanced by binary split on the index
		var build func(lo, hi int) *Term
		w := p.idx.t.sort.w
		build = func(lo, hi int) *Term {
			if hi-lo == 1 {
				return i.toTerm(p.elems[lo])
			}
			// all equal?
			same := true
			for n := lo + 1; n < hi; n++ {
				if p.elems[n] != p.elems[lo] {
					same = false
					break
				}
			}
			if same {
				return i.toTerm(p.elems[lo])
			}
			mid := (lo + hi) / 2
			c := tt.bvCmp("bvult", p.idx.t, tt.bvConst(uint64(mid), w))
			return tt.ite(c, build(lo, mid), build(mid, hi))
		}
		return fromTerm(build(0, len(p.elems)), k)
	}
	panic(fmt.Sprintf("loadPtr(%T)", p))
}

// prepareCall determines the function value and argument values for a
// function call in a Call, Go or Defer instruction, performing
// interface method lookup if needed.
func prepareCall(fr *frame, call *ssa.CallCommon) (fn value, args []value) {
	v := fr.get(call.Value)
	if call.Method == nil {
		// Function call.
		fn = v
	} else {
		// Interface method invocation.
		recv := v.(iface)
		if recv.t == nil {
			panic(fr.i.rtPanic("invalid memory address or nil pointer dereference (method call on nil interface)"))
		}
		if f := lookupMethod(fr.i, recv.t, call.Method); f == nil {
			// Unreachable in well-typed programs.
			panic(fmt.Sprintf("method set for dynamic type %v does not contain %s", recv.t, call.Method))
		} else {
			fn = f
		}
		args = append(args, recv.v)
	}
	for _, arg := range call.Args {
		args = append(args, fr.get(arg))
	}
	return
}

// call interprets a call to a function (function, builtin or closure)
// fn with arguments args, returning its result.
// callpos is the position of the callsite.
func call(i *interpreter, caller *frame, callpos token.Pos, fn value, args []value) value {
	switch fn := fn.(type) {
	case *ssa.Function:
		if fn == nil {
			panic(i.rtPanic("invalid memory address or nil pointer dereference (call of nil func)"))
		}
		return callSSA(i, caller, callpos, fn, args, nil)
	case *closure:
		return callSSA(i, caller, callpos, fn.Fn, args, fn.Env)
	case *ssa.Builtin:
		return callBuiltin(caller, callpos, fn, args)
	case *nativeFunc:
		return fn.fn(caller, args)
	}
	panic(fmt.Sprintf("cannot call %T", fn))
}

// nativeFunc is a func value implemented by the engine (e.g. reflect method values).
type nativeFunc struct {
	name string
	sig  *types.Signature
	fn   func(fr *frame, args []value) value
}

// callSSA interprets a call to function fn with arguments args,
// and lexical environment env, returning its result.
// callpos is the position of the callsite.
func callSSA(i *interpreter, caller *frame, callpos token.Pos, fn *ssa.Function, args []value, env []value) value {
	fr := &frame{
		i:      i,
		caller: caller, // for panic/recover
		fn:     fn,
	}
	if i.funcs != nil && !i.funcs[fn] {
		i.funcs[fn] = true
	}
	if i.opts.Trace {
		fmt.Fprintf(os.Stderr, "enter %s\n", fn)
	}
	if fn.Parent() == nil {
		if fn.Pkg != nil && i.harnessPkg[fn.Pkg.Pkg.Path()] {
			n := fn.Name()
			if strings.HasPrefix(n, "nd") || strings.HasPrefix(n, "vf") {
				if ext := ndExternals[n]; ext != nil {
					return ext(fr, args)
				}
			}
		}
		name := fn.String()
		if ext := externals[name]; ext != nil {
			if i.race != nil && strings.HasPrefix(name, "(reflect.Value).") {
				i.raceReflect(name[len("(reflect.Value)."):], args, caller)
			}
			r := ext(fr, args)
			if _, ft := r.(fallThrough); !ft {
				hooksUsedMu.Lock()
				hooksUsed[name] = true
				hooksUsedMu.Unlock()
				return r
			}
		}
		if fn.Name() == "init" && fn.Pkg != nil && fn.Synthetic != "" && fn.Signature.Recv() == nil {
			if !i.initAllow[fn.Pkg.Pkg.Path()] {
				i.skipped[fn.Pkg] = true
				return nil
			}
		}
		if fn.Blocks == nil {
			panic(unsupported("no code for function: %s", name))
		}
	}

	// generic function body?
	if fn.TypeParams().Len() > 0 && len(fn.TypeArgs()) == 0 {
		panic("interp requires ssa.BuilderMode to include InstantiateGenerics to execute generics")
	}

	depth := 1
	if caller != nil {
		depth = caller.depth + 1
	}
	fr.depth = depth
	if depth > i.opts.MaxCallDepth {
		panic(pathAbort{kind: abortCrash, msg: fmt.Sprintf("stack overflow: call depth exceeds %d (unbounded recursion)", i.opts.MaxCallDepth)})
	}
	fr.info = infoOf(fn)
	fr.env = make([]value, fr.info.n)
	fr.block = fn.Blocks[0]
	fr.locals = make([]value, len(fn.Locals))
	for i, l := range fn.Locals {
		fr.locals[i] = zero(mustDeref(l.Type()))
		fr.set(l, &fr.locals[i])
	}
	for i, p := range fn.Params {
		fr.set(p, args[i])
	}
	for i, fv := range fn.FreeVars {
		fr.set(fv, env[i])
	}
	for fr.block != nil {
		runFrame(fr)
	}
	// Destroy the locals to avoid accidental use after return.
	for i := range fn.Locals {
		fr.locals[i] = bad{}
	}
	return fr.result
}

// runFrame executes SSA instructions starting at fr.block and
// continuing until a return, a panic, or a recovered panic.
func runFrame(fr *frame) {
	defer func() {
		if fr.block == nil {
			return // normal return
		}
		r := recover()
		switch r.(type) {
		case targetPanic:
		case pathAbort:
			panic(r)
		default:
			// A Go-level panic inside the engine is an engine defect (or an unmodelled
			// case), never a behaviour of the target program.
			where := ""
			if fr.fn != nil {
				where = " in " + fr.fn.String()
			}
			pa := enginePanic(r)
			if k := strings.IndexByte(pa.msg, '\n'); k >= 0 {
				pa.msg = pa.msg[:k] + where + "\n  target stack:\n" + fr.i.stack() + pa.msg[k:]
			} else {
				pa.msg += where
			}
			panic(pa)
		}
		fr.panicking = true
		fr.panic = r
		fr.runDefers()
		fr.block = fr.fn.Recover
	}()

	p := fr.i.path
	for {
		nonPhis := executePhis(fr)
		for _, instr := range nonPhis {
			p.steps++
			fr.curInstr = instr
			fr.i.lastFrame = fr
			if p.steps > fr.i.opts.MaxSteps {
				panic(pathAbort{kind: abortBudget, msg: "step budget exhausted"})
			}
			if visitInstr(fr, instr) == kReturn {
				return
			}
			// Inv: kNext (continue) or kJump (last instr)
		}
	}
}

// executePhis executes the phi-nodes at the start of the current
// block and returns the non-phi instructions.
func executePhis(fr *frame) []ssa.Instruction {
	firstNonPhi := -1
	for i, instr := range fr.block.Instrs {
		if _, ok := instr.(*ssa.Phi); !ok {
			firstNonPhi = i
			break
		}
	}
	// Inv: 0 <= firstNonPhi; every block contains a non-phi.

	nonPhis := fr.block.Instrs[firstNonPhi:]
	if firstNonPhi > 0 {
		phis := fr.block.Instrs[:firstNonPhi]
		predIndex := slices.Index(fr.block.Preds, fr.prevBlock)
		fr.phitemps = fr.phitemps[:0]
		for _, phi := range phis {
			phi := phi.(*ssa.Phi)
			fr.phitemps = append(fr.phitemps, fr.get(phi.Edges[predIndex]))
		}
		for i, phi := range phis {
			fr.set(phi.(*ssa.Phi), fr.phitemps[i])
		}
	}
	return nonPhis
}

// doRecover implements the recover() built-in.
func doRecover(caller *frame) value {
	// recover() must be exactly one level beneath the deferred
	// function (two levels beneath the panicking function) to
	// have any effect.  Thus we ignore both "defer recover()" and
	// "defer f() -> g() -> recover()".
	if caller != nil && !caller.panicking &&
		caller.caller != nil && caller.caller.panicking {
		caller.caller.panicking = false
		p := caller.caller.panic
		caller.caller.panic = nil

		switch p := p.(type) {
		case targetPanic:
			// The target program explicitly called panic().
			return p.v
		default:
			panic(fmt.Sprintf("unexpected panic type %T in target call to recover()", p))
		}
	}
	return iface{}
}

// ---- construction ----

// Config describes the program to execute.
type Config struct {
	Prog        *ssa.Program
	InitAllow   []string       // import paths whose package initialisers are executed
	ResetPkgs   []*ssa.Package // packages re-initialised before every path
	HarnessPkgs []string       // import paths in which nd*/vf* functions are the harness API
	Sizes       types.Sizes
}

var initMu sync.Mutex

func newInterpreter(cfg *Config, opts Options) (*interpreter, error) {
	i := &interpreter{
		prog:       cfg.Prog,
		globals:    make(map[*ssa.Global]*value),
		sizes:      cfg.Sizes,
		tt:         newTermTable(),
		opts:       opts,
		initAllow:  map[string]bool{},
		skipped:    map[*ssa.Package]bool{},
		harnessPkg: map[string]bool{},
		resetPkgs:  cfg.ResetPkgs,
	}
	for _, p := range cfg.InitAllow {
		i.initAllow[p] = true
	}
	for _, p := range cfg.HarnessPkgs {
		i.harnessPkg[p] = true
	}
	runtimePkg := i.prog.ImportedPackage("runtime")
	if runtimePkg == nil {
		return nil, fmt.Errorf("ssa.Program doesn't include runtime package")
	}
	i.runtimeErrorString = runtimePkg.Type("errorString").Object().Type()
	if ep := i.prog.ImportedPackage("errors"); ep != nil {
		i.errorStringType = types.NewPointer(ep.Type("errorString").Object().Type())
	}

	initMu.Lock()
	initReflect(i)
	initMu.Unlock()

	for _, pkg := range i.prog.AllPackages() {
		for _, m := range pkg.Members {
			if v, ok := m.(*ssa.Global); ok {
				cell := zero(mustDeref(v.Type()))
				i.globals[v] = &cell
			}
		}
	}
	s, err := newSolver(i.tt, opts.SolverArgv, opts.QueryTimeoutMs)
	if err != nil {
		return nil, err
	}
	i.solver = s
	i.resetSideTables()

	// Run the allowed package initialisers once.
	i.path = &pathState{}
	i.sched = newSched()
	var ierr error
	func() {
		defer func() {
			if r := recover(); r != nil {
				ierr = fmt.Errorf("package initialisation failed: %v", describePanic(i, r))
			}
		}()
		saved := i.opts.MaxSteps
		i.opts.MaxSteps = 1 << 60
		for _, pkg := range cfg.ResetPkgs {
			call(i, nil, token.NoPos, pkg.Func("init"), nil)
		}
		i.opts.MaxSteps = saved
	}()
	if ierr != nil {
		return nil, ierr
	}
	i.aliasGlobals()
	return i, nil
}

// globalAliases: globals of packages whose initialiser cannot be run (os) that are plain
// aliases of globals of initialised packages. They are set after initialisation and are
// exempt from the poison rule.
var globalAliases = map[string]string{
	"os.ErrInvalid":    "io/fs.ErrInvalid",
	"os.ErrPermission": "io/fs.ErrPermission",
	"os.ErrExist":      "io/fs.ErrExist",
	"os.ErrNotExist":   "io/fs.ErrNotExist",
	"os.ErrClosed":     "io/fs.ErrClosed",
}

func (i *interpreter) findGlobal(q string) *ssa.Global {
	k := strings.LastIndexByte(q, '.')
	pkg := i.prog.ImportedPackage(q[:k])
	if pkg == nil {
		return nil
	}
	g, _ := pkg.Members[q[k+1:]].(*ssa.Global)
	return g
}

func (i *interpreter) aliasGlobals() {
	i.aliased = map[*ssa.Global]bool{}
	for dst, src := range globalAliases {
		d, s := i.findGlobal(dst), i.findGlobal(src)
		if d != nil && s != nil {
			*i.globals[d] = *i.globals[s]
			i.aliased[d] = true
		}
	}
}

func describePanic(i *interpreter, r interface{}) string {
	switch x := r.(type) {
	case targetPanic:
		return "target panic: " + i.safePanicString(x.v)
	case pathAbort:
		return x.String()
	}
	return fmt.Sprintf("%v\n%s", r, debug.Stack())
}

func (i *interpreter) resetSideTables() {
	i.onceDone = map[*value]bool{}
	i.syncMaps = map[*value]*gmap{}
	i.locks = map[*value]int{}
	i.race = nil
	i.wgCount = nil
	i.pools = map[*value][]value{}
	i.extState = map[string]interface{}{}
	i.guards = map[*gmap]*value{}
	i.guardNames = map[*gmap]string{}
	i.publishedMaps = map[*gmap]string{}
	i.publishedArrs = map[*value]string{}
}

// resetForPath restores the initial state of the packages under test.
func (i *interpreter) resetForPath() {
	i.resetSideTables()
	i.path = &pathState{}
	i.sched = newSched()
	for _, pkg := range i.resetPkgs {
		for _, m := range pkg.Members {
			if g, ok := m.(*ssa.Global); ok {
				*i.globals[g] = zero(mustDeref(g.Type()))
			}
		}
	}
	saved := i.opts.MaxSteps
	i.opts.MaxSteps = 1 << 60
	for _, pkg := range i.resetPkgs {
		call(i, nil, token.NoPos, pkg.Func("init"), nil)
	}
	i.opts.MaxSteps = saved
}

// NewPool builds n interpreters (each runs the package initialisers once).
func NewPool(cfg *Config, n int, opts Options) (*Pool, error) {
	if cfg.Sizes == nil {
		cfg.Sizes = &types.StdSizes{WordSize: 8, MaxAlign: 8}
	}
	pl := &Pool{opts: opts}
	pl.interps = make([]*interpreter, n)
	errs := make([]error, n)
	var wg sync.WaitGroup
	for k := 0; k < n; k++ {
		wg.Add(1)
		go func(k int) {
			defer wg.Done()
			defer func() {
				if r := recover(); r != nil {
					errs[k] = fmt.Errorf("interpreter construction panicked: %v\n%s", r, debug.Stack())
				}
			}()
			pl.interps[k], errs[k] = newInterpreter(cfg, opts)
		}(k)
	}
	wg.Wait()
	for _, e := range errs {
		if e != nil {
			return nil, e
		}
	}
	return pl, nil
}

var _ = runtime.NumCPU
