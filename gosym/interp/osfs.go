package interp

// A model of the read-only part of package os that template loaders use: os.Stat,
// os.Lstat, os.Open, os.ReadFile and (*os.File).{Read,Stat,Close,Name,WriteTo}.
// It is off until the harness declares it (vfOSRoot(root, cwd)); then names are resolved
// against the real file system on this machine - the directory tree is an input of the
// check like the embedded tree of the embed model, the *spelling* of the name is what is
// symbolic:
//
//   - a concrete name is answered by the real os.Stat / os.ReadFile;
//   - a symbolic name is first cleaned by the real path/filepath.Clean (interpreted, so
//     it forks by shape); if the name is not already clean it is concretised (bounded by
//     MaxConcretize, otherwise the path is cut); a clean name is made absolute against
//     cwd and compared (symbolic string equality) with every entry below root and with
//     root's ancestors; a clean absolute name outside those is concretised.
//
// A name that does not resolve fails with ENOENT, or ENOTDIR when the path runs through a
// regular file (as the kernel reports it).
//
// Assumptions: no symbolic links below root (checked), the tree does not change during a
// run, permissions allow reading. Directories can be opened; reading one fails.

import (
	"errors"
	"go/types"
	"os"
	"path/filepath"
	"sort"
	"strings"
	"syscall"
)

type osEntry struct {
	path  string
	isDir bool
	size  int64
	mode  os.FileMode
	// symbolic links: the entry describes what the link leads to (what Stat and Open see);
	// lmode / lsize are the link's own (what Lstat sees); a dangling link leads nowhere
	link     bool
	dangling bool
	lmode    os.FileMode
	lsize    int64
}

// lstatView is the entry as os.Lstat reports it: the link itself, not what it leads to.
func (e *osEntry) lstatView() *osEntry {
	if !e.link {
		return e
	}
	return &osEntry{path: e.path, isDir: false, size: e.lsize, mode: e.lmode}
}

// listTree lists root as the reference for file-system loaders does: every entry below it
// relative to root with a leading "/", directories (and links that lead to directories,
// which are descended into) with a trailing "/", links to files as files, dangling links
// not at all; the root itself is "/".
func listTree(root string) []string {
	out := []string{"/"}
	var rec func(dir, rel string, links int)
	rec = func(dir, rel string, links int) {
		ents, err := os.ReadDir(dir)
		if err != nil {
			return
		}
		for _, de := range ents {
			p, r := filepath.Join(dir, de.Name()), rel+"/"+de.Name()
			info, err := os.Stat(p)
			if err != nil {
				continue
			}
			if !info.IsDir() {
				out = append(out, r)
				continue
			}
			out = append(out, r+"/")
			l := links
			if de.Type()&os.ModeSymlink != 0 {
				l++
			}
			if l <= 2 {
				rec(p, r, l)
			}
		}
	}
	if info, err := os.Stat(root); err != nil || !info.IsDir() {
		return nil
	}
	rec(root, "", 0)
	sort.Strings(out)
	return out
}

type osFileState struct {
	name  value
	data  []byte
	off   int
	isDir bool
	ent   osEntry
	closed bool
}

type osModel struct {
	root, cwd string
	entries   []osEntry
}

func init() {
	ndExternals["vfOSRoot"] = vfOSRoot
	ndExternals["vfListTree"] = func(fr *frame, a []value) value {
		root, _ := a[0].(string)
		out := listTree(root)
		vs := make([]value, len(out))
		for k, s := range out {
			vs[k] = s
		}
		return vs
	}
	ndExternals["vfFileContent"] = func(fr *frame, a []value) value {
		p, _ := a[0].(string)
		b, _ := os.ReadFile(p)
		return string(b)
	}
	externals["os.Stat"] = func(fr *frame, a []value) value { return fr.i.osStat(fr, a[0], "stat") }
	externals["os.Lstat"] = func(fr *frame, a []value) value { return fr.i.osStat(fr, a[0], "lstat") }
	externals["os.Open"] = func(fr *frame, a []value) value { return fr.i.osOpen(fr, a[0]) }
	externals["os.ReadFile"] = func(fr *frame, a []value) value {
		i := fr.i
		r := i.osOpen(fr, a[0]).(tuple)
		if e, _ := r[1].(iface); e.t != nil {
			return tuple{[]value(nil), r[1]}
		}
		st := i.osFile(r[0])
		if st.isDir {
			return tuple{[]value(nil), i.fsPathErrorMsg("read", st.name, "is a directory")}
		}
		out := make([]value, len(st.data))
		for k, c := range st.data {
			out[k] = c
		}
		return tuple{out, iface{}}
	}
	externals["(*os.File).Read"] = func(fr *frame, a []value) value {
		i := fr.i
		st := i.osFile(a[0])
		if st.closed {
			return tuple{0, i.fsPathErrorMsg("read", st.name, "file already closed")}
		}
		if st.isDir {
			return tuple{0, i.fsPathErrorMsg("read", st.name, "is a directory")}
		}
		buf := a[1].([]value)
		if len(buf) == 0 {
			return tuple{0, iface{}}
		}
		if st.off >= len(st.data) {
			return tuple{0, i.globalValue("io.EOF")}
		}
		n := 0
		for n < len(buf) && st.off < len(st.data) {
			buf[n] = st.data[st.off]
			n++
			st.off++
		}
		return tuple{n, iface{}}
	}
	externals["(*os.File).WriteTo"] = func(fr *frame, a []value) value {
		i := fr.i
		st := i.osFile(a[0])
		if st.isDir || st.closed {
			return tuple{int64(0), i.fsPathErrorMsg("read", st.name, "is a directory")}
		}
		rest := st.data[st.off:]
		st.off = len(st.data)
		b := make([]value, len(rest))
		for k, c := range rest {
			b[k] = c
		}
		r, ok := i.callMethod(fr, a[1].(iface), "Write", b)
		if !ok {
			panic(i.rtPanic("invalid memory address or nil pointer dereference (nil io.Writer)"))
		}
		t := r.(tuple)
		return tuple{int64(i.concInt(t[0])), t[1]}
	}
	externals["(*os.File).Close"] = func(fr *frame, a []value) value {
		i := fr.i
		if p, _ := a[0].(*value); p == nil {
			return i.globalValue("os.ErrInvalid")
		}
		st := i.osFile(a[0])
		if st.closed {
			return i.fsPathErrorMsg("close", st.name, "file already closed")
		}
		st.closed = true
		return iface{}
	}
	externals["(*os.File).Name"] = func(fr *frame, a []value) value { return fr.i.osFile(a[0]).name }
	externals["(*os.File).Stat"] = func(fr *frame, a []value) value {
		i := fr.i
		st := i.osFile(a[0])
		if st.closed {
			return tuple{iface{}, i.fsPathErrorMsg("stat", st.name, "file already closed")}
		}
		return tuple{i.osFileInfo(st.ent), iface{}}
	}
}

// vfOSRoot(root, cwd) switches the os model on for this path.
func vfOSRoot(fr *frame, a []value) value {
	root, _ := a[0].(string)
	cwd, _ := a[1].(string)
	if !filepath.IsAbs(root) || !filepath.IsAbs(cwd) {
		panic(unsupported("vfOSRoot needs absolute concrete directories"))
	}
	m := &osModel{root: filepath.Clean(root), cwd: filepath.Clean(cwd)}
	fr.i.extState["osmodel"] = m
	return nil
}

// walk lists the modelled tree (lazily: only a symbolic name needs it).
func (m *osModel) walk() {
	if m.entries != nil {
		return
	}
	rootInfo, err := os.Stat(m.root)
	if err != nil {
		panic(unsupported("os model: cannot walk %s: %v", m.root, err))
	}
	m.entries = append(m.entries, osEntry{path: m.root, isDir: rootInfo.IsDir(), size: rootInfo.Size(), mode: rootInfo.Mode()})
	var rec func(dir string, links int)
	rec = func(dir string, links int) {
		ents, err := os.ReadDir(dir)
		if err != nil {
			panic(unsupported("os model: cannot walk %s: %v", dir, err))
		}
		for _, de := range ents {
			p := filepath.Join(dir, de.Name())
			linfo, err := os.Lstat(p)
			if err != nil {
				panic(unsupported("os model: cannot walk %s: %v", p, err))
			}
			if linfo.IsDir() && de.Name() == ".git" {
				continue
			}
			e := osEntry{path: p, isDir: linfo.IsDir(), size: linfo.Size(), mode: linfo.Mode()}
			l := links
			if linfo.Mode()&os.ModeSymlink != 0 {
				// what the link leads to is what Stat, Open and a path through it see
				e.link, e.lmode, e.lsize = true, linfo.Mode(), linfo.Size()
				l++
				if info, err := os.Stat(p); err != nil {
					e.dangling, e.isDir = true, false
				} else {
					e.isDir, e.size, e.mode = info.IsDir(), info.Size(), info.Mode()
				}
			}
			m.entries = append(m.entries, e)
			if len(m.entries) > 400 {
				panic(unsupported("os model: more than 400 entries below %s", m.root))
			}
			if e.isDir {
				if l > 2 {
					panic(unsupported("os model: links to directories nested more than two deep below %s", m.root))
				}
				rec(p, l)
			}
		}
	}
	if rootInfo.IsDir() {
		rec(m.root, 0)
	}
	for d := filepath.Dir(m.root); ; d = filepath.Dir(d) {
		m.entries = append(m.entries, osEntry{path: d, isDir: true, mode: os.ModeDir | 0o755})
		if d == "/" {
			break
		}
	}
	sort.Slice(m.entries, func(x, y int) bool { return m.entries[x].path < m.entries[y].path })
}

func (i *interpreter) globalValue(q string) value {
	if g := i.findGlobal(q); g != nil {
		return *i.globals[g]
	}
	panic(unsupported("global %s not loaded", q))
}

func (i *interpreter) fsPathErrorMsg(op string, name value, msg string) value {
	fsPkg := i.prog.ImportedPackage("io/fs")
	pe := fsPkg.Type("PathError").Object().Type()
	var cell value = structure{op, name, i.newError(msg)}
	return iface{types.NewPointer(pe), &cell}
}

func (i *interpreter) osFiles() map[*value]*osFileState {
	m, _ := i.extState["osfiles"].(map[*value]*osFileState)
	if m == nil {
		m = map[*value]*osFileState{}
		i.extState["osfiles"] = m
	}
	return m
}

func (i *interpreter) osFile(recv value) *osFileState {
	p, _ := recv.(*value)
	if p == nil {
		panic(i.rtPanic("invalid memory address or nil pointer dereference (nil *os.File)"))
	}
	st := i.osFiles()[p]
	if st == nil {
		panic(unsupported("os.File not created by the os model"))
	}
	return st
}

func (i *interpreter) osFileInfo(e osEntry) value {
	osPkg := i.prog.ImportedPackage("os")
	fsT := osPkg.Type("fileStat").Object().Type()
	var cell value = zero(fsT)
	s := cell.(structure)
	s[0] = filepath.Base(e.path)
	s[1] = e.size
	s[2] = uint32(e.mode)
	return iface{types.NewPointer(fsT), &cell}
}

// osResolve returns the entry a name denotes (nil: does not exist). name is returned
// concretised when it had to be.
func (i *interpreter) osResolve(fr *frame, name value) (*osEntry, value) {
	e, nm, _ := i.osResolveK(fr, name, true)
	return e, nm
}

// osResolveK also reports why a name does not resolve: "notdir" when a proper prefix of
// the path is a regular file (ENOTDIR), else "notexist" (ENOENT).
// follow: whether a symbolic link in the last position is followed (Stat, Open) or
// reported itself (Lstat).
func (i *interpreter) osResolveK(fr *frame, name value, follow bool) (*osEntry, value, string) {
	m, _ := i.extState["osmodel"].(*osModel)
	if m == nil {
		panic(unsupported("os file access without vfOSRoot (the os model is off)"))
	}
	kind := "notexist"
	real := func(n string) *osEntry {
		p := n
		if !filepath.IsAbs(p) {
			p = filepath.Join(m.cwd, p)
		}
		if strings.IndexByte(n, 0) >= 0 || n == "" {
			return nil
		}
		stat := os.Stat
		if !follow {
			stat = os.Lstat
		}
		info, err := stat(p)
		if err != nil {
			if errors.Is(err, syscall.ENOTDIR) {
				kind = "notdir"
			}
			return nil
		}
		return &osEntry{path: filepath.Clean(p), isDir: info.IsDir(), size: info.Size(), mode: info.Mode()}
	}
	if s, ok := name.(string); ok {
		return real(s), name, kind
	}
	fp := i.prog.ImportedPackage("path/filepath")
	clean := call(i, fr, 0, fp.Func("Clean"), []value{name})
	if strLen(clean) != strLen(name) || !i.branch(i.strEqTerm(name, clean)) {
		s := i.concValue(name).(string)
		return real(s), s, kind
	}
	abs := clean
	if b := strBytes(clean); len(b) == 0 || !i.isByte(b[0], '/') {
		abs = call(i, fr, 0, fp.Func("Join"), []value{[]value{m.cwd, clean}})
	}
	if s, ok := abs.(string); ok {
		return real(s), name, kind
	}
	m.walk()
	n := strLen(abs)
	for k := range m.entries {
		e := &m.entries[k]
		if len(e.path) != n {
			continue
		}
		if i.branch(i.strEqTerm(abs, e.path)) {
			if !follow {
				return e.lstatView(), name, kind
			}
			if e.dangling {
				return nil, name, kind
			}
			return e, name, kind
		}
	}
	// a path that runs through a regular file
	for k := range m.entries {
		e := &m.entries[k]
		if e.isDir || n <= len(e.path)+1 {
			continue
		}
		head := normStr(strBytes(abs)[:len(e.path)+1])
		if i.branch(i.strEqTerm(head, e.path+"/")) {
			if e.dangling {
				return nil, name, "notexist"
			}
			return nil, name, "notdir"
		}
	}
	// not an entry: either below root (does not exist) or outside the modelled tree
	pfx := m.root + "/"
	if n > len(pfx) {
		head := normStr(strBytes(abs)[:len(pfx)])
		if i.branch(i.strEqTerm(head, pfx)) {
			return nil, name, kind
		}
	}
	s := i.concValue(name).(string)
	return real(s), s, kind
}

// isByte decides (forking if needed) whether a string byte equals c.
func (i *interpreter) isByte(b value, c byte) bool {
	switch x := b.(type) {
	case uint8:
		return x == c
	case symV:
		return i.branch(i.tt.eq(x.t, i.tt.bvConst(uint64(c), 8)))
	}
	return false
}

// osNoEntry builds the *PathError for a name that does not resolve: ENOENT or ENOTDIR.
func (i *interpreter) osNoEntry(op string, nm value, kind string) value {
	no := syscall.ENOENT
	if kind == "notdir" {
		no = syscall.ENOTDIR
	}
	fsPkg := i.prog.ImportedPackage("io/fs")
	pe := fsPkg.Type("PathError").Object().Type()
	errnoT := i.prog.ImportedPackage("syscall").Type("Errno").Object().Type()
	var cell value = structure{op, nm, iface{errnoT, uintptr(no)}}
	return iface{types.NewPointer(pe), &cell}
}

func (i *interpreter) osStat(fr *frame, name value, op string) value {
	e, nm, kind := i.osResolveK(fr, name, op != "lstat")
	if e == nil {
		return tuple{iface{}, i.osNoEntry(op, nm, kind)}
	}
	return tuple{i.osFileInfo(*e), iface{}}
}

func (i *interpreter) osOpen(fr *frame, name value) value {
	e, nm, kind := i.osResolveK(fr, name, true)
	osPkg := i.prog.ImportedPackage("os")
	fileT := osPkg.Type("File").Object().Type()
	if e == nil {
		return tuple{(*value)(nil), i.osNoEntry("open", nm, kind)}
	}
	st := &osFileState{name: nm, isDir: e.isDir, ent: *e}
	if !e.isDir {
		data, err := os.ReadFile(e.path)
		if err != nil {
			return tuple{(*value)(nil), i.fsPathErrorMsg("open", nm, "permission denied")}
		}
		st.data = data
	}
	var cell value = zero(fileT)
	p := &cell
	i.osFiles()[p] = st
	return tuple{p, iface{}}
}
