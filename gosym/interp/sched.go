package interp

// Deterministic cooperative scheduling of interpreted goroutines, and channels.
//
// Exactly one interpreted goroutine runs at a time (it holds the baton). A goroutine
// gives up the baton only when it blocks on a channel operation or terminates; the
// next runnable goroutine in FIFO order continues. This makes every run of a harness
// a deterministic function of its symbolic decisions, which forking by re-execution
// requires. It is exact for single-producer/single-consumer use such as jet's lexer.

import (
	"fmt"
)

type gor struct {
	id   int
	wake chan struct{}
	done bool
	// transfer slots for channel operations
	val value
	ok  bool
	// woken because the channel was closed while sending
	closedWhileSend bool
}

type sched struct {
	cur   *gor
	main  *gor
	runq  []*gor
	pend  []*gor // goroutines started by the harness in race mode that have not begun yet (race.go)
	all   []*gor
	beforeBlock func() // race mode: decides whether a pending goroutine starts now
	dead  bool        // the path is being torn down
	abort interface{} // reason (pathAbort or crash) raised on a non-main goroutine
}

func newSched() *sched {
	m := &gor{id: 0, wake: make(chan struct{}, 1)}
	return &sched{cur: m, main: m, all: []*gor{m}}
}

type channel struct {
	buf    []value
	cap    int
	closed bool
	recvq  []*gor
	sendq  []*gor
}

// switchTo hands the baton to g and parks the caller (unless it is finished).
func (s *sched) switchAway(self *gor, park bool) {
	var next *gor
	if len(s.runq) > 0 {
		next = s.runq[0]
		s.runq = s.runq[1:]
	} else if len(s.pend) > 0 {
		// nobody else can run: a goroutine that has not begun yet starts now
		next = s.pend[0]
		s.pend = s.pend[1:]
	}
	if next == nil {
		if !park {
			// a goroutine finished and nobody is runnable: main is blocked forever
			s.abort = pathAbort{kind: abortDeadlock, msg: "all goroutines are blocked (deadlock)"}
			s.dead = true
			s.cur = s.main
			s.main.wake <- struct{}{}
			return
		}
		// Deadlock: everything is blocked.
		if self == s.main {
			panic(pathAbort{kind: abortDeadlock, msg: "all goroutines are blocked (deadlock)"})
		}
		// a non-main goroutine blocks forever while main is blocked too
		s.abort = pathAbort{kind: abortDeadlock, msg: "all goroutines are blocked (deadlock)"}
		s.dead = true
		s.cur = s.main
		s.main.wake <- struct{}{}
		<-self.wake
		panic(pathAbort{kind: abortKilled})
	}
	s.cur = next
	next.wake <- struct{}{}
	if park {
		<-self.wake
		if s.dead {
			if self == s.main && s.abort != nil {
				panic(s.abort)
			}
			panic(pathAbort{kind: abortKilled})
		}
	}
}

func (s *sched) block(self *gor) {
	if s.beforeBlock != nil {
		s.beforeBlock()
	}
	s.switchAway(self, true)
}

func (s *sched) ready(g *gor) {
	s.runq = append(s.runq, g)
}

// spawn starts fn as a new interpreted goroutine; it first runs when the
// current goroutine blocks.
func (s *sched) spawn(i *interpreter, fn func(g *gor), gated bool) *gor {
	g := &gor{id: len(s.all), wake: make(chan struct{}, 1)}
	s.all = append(s.all, g)
	if gated {
		s.pend = append(s.pend, g)
	} else {
		s.ready(g)
	}
	go func() {
		<-g.wake
		if s.dead {
			g.done = true
			return
		}
		defer func() {
			r := recover()
			g.done = true
			if r != nil {
				if pa, ok := r.(pathAbort); ok && pa.kind == abortKilled {
					return
				}
				if !s.dead {
					// propagate to main
					if tp, ok := r.(targetPanic); ok {
						s.abort = pathAbort{kind: abortCrash, msg: "panic in goroutine: " + i.panicString(tp.v)}
					} else if pa, ok := r.(pathAbort); ok {
						s.abort = pa
					} else {
						s.abort = pathAbort{kind: abortEngine, msg: fmt.Sprintf("engine panic in goroutine: %v", r)}
					}
					s.dead = true
					if s.cur == g {
						s.cur = s.main
						s.main.wake <- struct{}{}
					}
				}
				return
			}
			if !s.dead {
				s.switchAway(g, false)
			}
		}()
		fn(g)
	}()
	return g
}

// quiesce lets every runnable goroutine run until all are blocked or finished.
// Called on the main goroutine when the harness returns.
func (s *sched) quiesce() {
	for len(s.runq) > 0 || len(s.pend) > 0 {
		if len(s.runq) == 0 {
			s.runq, s.pend = append(s.runq, s.pend[0]), s.pend[1:]
		}
		s.ready(s.main)
		s.switchAway(s.main, true)
	}
}

// live returns the number of unfinished non-main goroutines.
func (s *sched) live() int {
	n := 0
	for _, g := range s.all[1:] {
		if !g.done {
			n++
		}
	}
	return n
}

// kill tears down all parked goroutines of this path.
func (s *sched) kill(i *interpreter) {
	s.dead = true
	for _, g := range s.all[1:] {
		if !g.done {
			select {
			case g.wake <- struct{}{}:
			default:
			}
		}
	}
}

// ---- channel operations ----

func (i *interpreter) chanSend(fr *frame, ch *channel, v value) {
	s := i.sched
	self := s.cur
	if ch == nil {
		s.block(self) // blocks forever
		return
	}
	if ch.closed {
		panic(i.rtPanic("send on closed channel"))
	}
	if i.race != nil {
		// happens-before edge only: channel operations are not preemption points (jet's
		// only channels connect a parser to its own lexer goroutine)
		i.raceRelease(ch)
	}
	if len(ch.recvq) > 0 {
		r := ch.recvq[0]
		ch.recvq = ch.recvq[1:]
		r.val, r.ok = v, true
		s.ready(r)
		return
	}
	if len(ch.buf) < ch.cap {
		ch.buf = append(ch.buf, v)
		return
	}
	self.val = v
	self.closedWhileSend = false
	ch.sendq = append(ch.sendq, self)
	s.block(self)
	if self.closedWhileSend {
		panic(i.rtPanic("send on closed channel"))
	}
}

func (i *interpreter) chanRecv(fr *frame, ch *channel) (value, bool) {
	if i.race != nil && ch != nil {
		defer i.raceAcquire(ch)
	}
	s := i.sched
	self := s.cur
	if ch == nil {
		s.block(self)
		return nil, false
	}
	if len(ch.buf) > 0 {
		v := ch.buf[0]
		ch.buf = ch.buf[1:]
		if len(ch.sendq) > 0 {
			w := ch.sendq[0]
			ch.sendq = ch.sendq[1:]
			ch.buf = append(ch.buf, w.val)
			s.ready(w)
		}
		return v, true
	}
	if len(ch.sendq) > 0 {
		w := ch.sendq[0]
		ch.sendq = ch.sendq[1:]
		s.ready(w)
		return w.val, true
	}
	if ch.closed {
		return nil, false
	}
	ch.recvq = append(ch.recvq, self)
	s.block(self)
	return self.val, self.ok
}

func (i *interpreter) chanClose(ch *channel) {
	if ch == nil {
		panic(i.rtPanic("close of nil channel"))
	}
	if ch.closed {
		panic(i.rtPanic("close of closed channel"))
	}
	ch.closed = true
	i.raceRelease(ch)
	s := i.sched
	for _, r := range ch.recvq {
		r.val, r.ok = nil, false
		s.ready(r)
	}
	ch.recvq = nil
	for _, w := range ch.sendq {
		w.closedWhileSend = true
		s.ready(w)
	}
	ch.sendq = nil
}
