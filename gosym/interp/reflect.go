// Copyright 2013 The Go Authors. All rights reserved.
// Use of this source code is governed by a BSD-style
// license that can be found in the LICENSE file (LICENSE.xtools).

package interp

// A model of package reflect over go/types and the engine heap.
//
// The real reflect package (unsafe, runtime type descriptors) cannot be interpreted;
// it is replaced by this model. reflect.Type is the interface value iface{rtypeType,
// rtype{T}}; reflect.Value is a 4-field struct {rtype, value, addr, ro}:
//
//	f0: rtype{T}, or anything else for the zero (invalid) Value
//	f1: the value (ignored when addr != nil; the current value is *addr)
//	f2: *value address if the Value is addressable, else nil
//	f3: true if obtained through an unexported field (CanInterface false)
//
// Invariant: a Value whose T is an interface type holds an iface in f1.
// Panic values follow Go 1.23's reflect (strings vs *ValueError), because callers
// distinguish error panics from other panics.

import (
	"fmt"
	"go/token"
	"go/types"
	"reflect"
	"sort"
	"strconv"
	"strings"
	"unsafe"

	"golang.org/x/tools/go/ssa"
)

type opaqueType struct {
	types.Type
	name string
}

func (t *opaqueType) String() string { return t.name }

// A bogus "reflect" type-checker package.  Shared across interpreters.
var reflectTypesPackage = types.NewPackage("reflect", "reflect")

// rtype is the concrete type the interpreter uses to implement the
// reflect.Type interface.
var rtypeType = makeNamedType("rtype", &opaqueType{nil, "rtype"})

// error is an (interpreted) named type whose underlying type is string.
var errorType = makeNamedType("error", &opaqueType{nil, "error"})

func makeNamedType(name string, underlying types.Type) *types.Named {
	obj := types.NewTypeName(token.NoPos, reflectTypesPackage, name, nil)
	return types.NewNamed(obj, underlying, nil)
}

// ---- reflect.Value representation ----

type rval struct {
	t     types.Type // nil if invalid
	v     value
	addr  *value
	ro    bool
	valid bool
}

func makeRV(t types.Type, v value, addr *value, ro bool) value {
	return structure{rtype{t}, v, addr, ro}
}

// reflectValueIdentical models == on two reflect.Values (type word, data pointer and flags
// are compared): same type and flags, and the same variable (addressable values) or the
// same reference (pointer-shaped kinds: pointers, maps, channels, functions). Whether two
// boxed copies of a non-pointer-shaped value share their box is not modelled.
func (i *interpreter) reflectValueIdentical(x, y structure) bool {
	a, b := rv(x), rv(y)
	if !a.valid || !b.valid {
		return a.valid == b.valid
	}
	if !types.Identical(a.t, b.t) || a.ro != b.ro || (a.addr == nil) != (b.addr == nil) {
		return false
	}
	if a.addr != nil {
		return a.addr == b.addr
	}
	switch a.t.Underlying().(type) {
	case *types.Pointer, *types.Map, *types.Chan, *types.Signature:
		defer func() {
			if recover() != nil {
				panic(unsupported("== on reflect.Values holding %s", a.t))
			}
		}()
		return a.v == b.v
	}
	panic(unsupported("== on reflect.Values holding boxed %s values", a.t))
}

func invalidRV() value {
	return structure{iface{}, iface{}, iface{}, iface{}}
}

func makeReflectValue(t types.Type, v value) value {
	if t == nil {
		return invalidRV()
	}
	return makeRV(t, v, nil, false)
}

// rv decodes a reflect.Value.
func rv(x value) rval {
	s := x.(structure)
	rt, ok := s[0].(rtype)
	if !ok {
		return rval{}
	}
	r := rval{t: rt.t, valid: true}
	if a, ok := s[2].(*value); ok && a != nil {
		r.addr = a
		r.v = load(rt.t, a)
	} else {
		r.v = s[1]
	}
	if b, ok := s[3].(bool); ok {
		r.ro = b
	}
	return r
}

func (r rval) kind() reflect.Kind {
	if !r.valid {
		return reflect.Invalid
	}
	return reflectKind(r.t)
}

// makeReflectType boxes up an rtype in a reflect.Type interface.
func makeReflectType(rt rtype) value {
	return iface{rtypeType, rt}
}

func typeOfRT(v value) types.Type {
	itf := v.(iface)
	if itf.t == nil {
		return nil
	}
	return itf.v.(rtype).t
}

// valueError builds the panic value &reflect.ValueError{Method, Kind}.
func (i *interpreter) valueError(method string, k reflect.Kind) targetPanic {
	rp := i.prog.ImportedPackage("reflect")
	if rp != nil {
		if ve := rp.Type("ValueError"); ve != nil {
			var cell value = structure{method, uint(k)}
			return targetPanic{iface{types.NewPointer(ve.Object().Type()), &cell}}
		}
	}
	return targetPanic{iface{errorType, "reflect: call of " + method + " on " + k.String() + " Value"}}
}

func strPanic(i *interpreter, msg string) targetPanic {
	return targetPanic{iface{types.Typ[types.String], msg}}
}

// typeString renders a type the way reflect.Type.String (and fmt's %T) does: package
// names rather than paths, "interface {}", "struct { A T; B U }".
func typeString(t types.Type) string {
	q := func(p *types.Package) string { return p.Name() }
	switch t := t.(type) {
	case *types.Pointer:
		return "*" + typeString(t.Elem())
	case *types.Slice:
		return "[]" + typeString(t.Elem())
	case *types.Array:
		return "[" + strconv.FormatInt(t.Len(), 10) + "]" + typeString(t.Elem())
	case *types.Map:
		return "map[" + typeString(t.Key()) + "]" + typeString(t.Elem())
	case *types.Chan:
		switch t.Dir() {
		case types.SendOnly:
			return "chan<- " + typeString(t.Elem())
		case types.RecvOnly:
			return "<-chan " + typeString(t.Elem())
		}
		return "chan " + typeString(t.Elem())
	case *types.Struct:
		if t.NumFields() == 0 {
			return "struct {}"
		}
		var sb strings.Builder
		sb.WriteString("struct {")
		for k := 0; k < t.NumFields(); k++ {
			if k > 0 {
				sb.WriteString(";")
			}
			f := t.Field(k)
			sb.WriteString(" ")
			if !f.Embedded() {
				sb.WriteString(f.Name() + " ")
			}
			sb.WriteString(typeString(f.Type()))
			if tag := t.Tag(k); tag != "" {
				sb.WriteString(" " + strconv.Quote(tag))
			}
		}
		sb.WriteString(" }")
		return sb.String()
	case *types.Interface:
		if t.NumMethods() == 0 && t.NumEmbeddeds() == 0 {
			return "interface {}"
		}
		var sb strings.Builder
		sb.WriteString("interface {")
		for k := 0; k < t.NumMethods(); k++ {
			if k > 0 {
				sb.WriteString(";")
			}
			m := t.Method(k)
			sb.WriteString(" " + m.Name() + strings.TrimPrefix(typeString(m.Type()), "func"))
		}
		sb.WriteString(" }")
		return sb.String()
	case *types.Signature:
		var sb strings.Builder
		sb.WriteString("func(")
		for k := 0; k < t.Params().Len(); k++ {
			if k > 0 {
				sb.WriteString(", ")
			}
			pt := t.Params().At(k).Type()
			if t.Variadic() && k == t.Params().Len()-1 {
				sb.WriteString("..." + typeString(pt.(*types.Slice).Elem()))
			} else {
				sb.WriteString(typeString(pt))
			}
		}
		sb.WriteString(")")
		switch n := t.Results().Len(); {
		case n == 1:
			sb.WriteString(" " + typeString(t.Results().At(0).Type()))
		case n > 1:
			sb.WriteString(" (")
			for k := 0; k < n; k++ {
				if k > 0 {
					sb.WriteString(", ")
				}
				sb.WriteString(typeString(t.Results().At(k).Type()))
			}
			sb.WriteString(")")
		}
		return sb.String()
	case *types.Alias:
		return typeString(types.Unalias(t))
	case *types.Basic:
		if t.Kind() == types.UnsafePointer {
			return "unsafe.Pointer"
		}
		return strings.TrimPrefix(t.Name(), "untyped ")
	}
	return types.TypeString(t, q)
}

func reflectKind(t types.Type) reflect.Kind {
	switch t := t.(type) {
	case *types.Named, *types.Alias:
		return reflectKind(t.Underlying())
	case *types.Basic:
		switch t.Kind() {
		case types.Bool:
			return reflect.Bool
		case types.Int:
			return reflect.Int
		case types.Int8:
			return reflect.Int8
		case types.Int16:
			return reflect.Int16
		case types.Int32:
			return reflect.Int32
		case types.Int64:
			return reflect.Int64
		case types.Uint:
			return reflect.Uint
		case types.Uint8:
			return reflect.Uint8
		case types.Uint16:
			return reflect.Uint16
		case types.Uint32:
			return reflect.Uint32
		case types.Uint64:
			return reflect.Uint64
		case types.Uintptr:
			return reflect.Uintptr
		case types.Float32:
			return reflect.Float32
		case types.Float64:
			return reflect.Float64
		case types.Complex64:
			return reflect.Complex64
		case types.Complex128:
			return reflect.Complex128
		case types.String:
			return reflect.String
		case types.UnsafePointer:
			return reflect.UnsafePointer
		}
	case *types.Array:
		return reflect.Array
	case *types.Chan:
		return reflect.Chan
	case *types.Signature:
		return reflect.Func
	case *types.Interface:
		return reflect.Interface
	case *types.Map:
		return reflect.Map
	case *types.Pointer:
		return reflect.Ptr
	case *types.Slice:
		return reflect.Slice
	case *types.Struct:
		return reflect.Struct
	}
	panic(fmt.Sprint("unexpected type: ", t))
}

func isIfaceType(t types.Type) bool {
	_, ok := t.Underlying().(*types.Interface)
	return ok
}

// assignTo converts r for assignment to a location of type dst (reflect's assignTo).
func (i *interpreter) assignTo(r rval, dst types.Type, context string) value {
	if !r.valid {
		panic(i.valueError(context, reflect.Invalid))
	}
	if r.ro && context != "reflect.Value.MapIndex" && context != "reflect.MapIndex" {
		// reflect.flag.mustBeExported
		if context == "reflect.Value.Call" || context == "reflect.Set" || context == "reflect.Value.SetMapIndex" {
			panic(strPanic(i, "reflect: "+context+" using value obtained using unexported field"))
		}
	}
	if !types.AssignableTo(r.t, dst) {
		panic(strPanic(i, context+": value of type "+typeString(r.t)+" is not assignable to type "+typeString(dst)))
	}
	if isIfaceType(dst) && !isIfaceType(r.t) {
		return iface{r.t, r.v}
	}
	return r.v
}

// ---- package-level functions ----

func ext۰reflect۰New(fr *frame, args []value) value {
	t := typeOfRT(args[0])
	if t == nil {
		panic(strPanic(fr.i, "reflect: New(nil)"))
	}
	alloc := zero(t)
	return makeRV(types.NewPointer(t), &alloc, nil, false)
}

func ext۰reflect۰SliceOf(fr *frame, args []value) value {
	return makeReflectType(rtype{types.NewSlice(typeOfRT(args[0]))})
}

func ext۰reflect۰PtrTo(fr *frame, args []value) value {
	return makeReflectType(rtype{types.NewPointer(typeOfRT(args[0]))})
}

func ext۰reflect۰TypeOf(fr *frame, args []value) value {
	itf := args[0].(iface)
	if itf.t == nil {
		return iface{}
	}
	return makeReflectType(rtype{itf.t})
}

func ext۰reflect۰ValueOf(fr *frame, args []value) value {
	itf := args[0].(iface)
	if itf.t == nil {
		return invalidRV()
	}
	return makeRV(itf.t, itf.v, nil, false)
}

func ext۰reflect۰Zero(fr *frame, args []value) value {
	t := typeOfRT(args[0])
	if t == nil {
		panic(strPanic(fr.i, "reflect: Zero(nil)"))
	}
	return makeRV(t, zero(t), nil, false)
}

func ext۰reflect۰Indirect(fr *frame, args []value) value {
	r := rv(args[0])
	if r.kind() != reflect.Ptr {
		return args[0]
	}
	return ext۰reflect۰Value۰Elem(fr, args)
}

func ext۰reflect۰MakeSlice(fr *frame, args []value) value {
	t := typeOfRT(args[0])
	st, ok := t.Underlying().(*types.Slice)
	if !ok {
		panic(strPanic(fr.i, "reflect.MakeSlice of non-slice type"))
	}
	n, c := int(fr.i.concInt(args[1])), int(fr.i.concInt(args[2]))
	if n < 0 || c < n {
		panic(strPanic(fr.i, "reflect.MakeSlice: len/cap out of range"))
	}
	s := make([]value, c)
	for k := range s {
		s[k] = zero(st.Elem())
	}
	return makeRV(t, s[:n], nil, false)
}

func ext۰reflect۰MakeMap(fr *frame, args []value) value {
	t := typeOfRT(args[0])
	mt, ok := t.Underlying().(*types.Map)
	if !ok {
		panic(strPanic(fr.i, "reflect.MakeMap of non-map type"))
	}
	return makeRV(t, makeMap(mt.Key(), 0), nil, false)
}

func ext۰reflect۰DeepEqual(fr *frame, args []value) value {
	a, b := args[0].(iface), args[1].(iface)
	if a.t == nil || b.t == nil {
		return a.t == nil && b.t == nil
	}
	if !types.Identical(a.t, b.t) {
		return false
	}
	return fr.i.deepEqual(a.t, a.v, b.v, 0)
}

func (i *interpreter) deepEqual(t types.Type, x, y value, depth int) bool {
	if depth > 50 {
		panic(unsupported("reflect.DeepEqual recursion too deep"))
	}
	switch u := t.Underlying().(type) {
	case *types.Slice:
		xs, ys := x.([]value), y.([]value)
		if (xs == nil) != (ys == nil) || len(xs) != len(ys) {
			return false
		}
		for k := range xs {
			if !i.deepEqual(u.Elem(), xs[k], ys[k], depth+1) {
				return false
			}
		}
		return true
	case *types.Array:
		xs, ys := x.(array), y.(array)
		for k := range xs {
			if !i.deepEqual(u.Elem(), xs[k], ys[k], depth+1) {
				return false
			}
		}
		return true
	case *types.Struct:
		xs, ys := x.(structure), y.(structure)
		for k := range xs {
			if !i.deepEqual(u.Field(k).Type(), xs[k], ys[k], depth+1) {
				return false
			}
		}
		return true
	case *types.Map:
		xm, ym := x.(*gmap), y.(*gmap)
		if (xm == nil) != (ym == nil) || xm.len() != ym.len() {
			return false
		}
		for _, e := range xm.liveEntries() {
			v2, ok := ym.lookup(i, e.key)
			if !ok || !i.deepEqual(u.Elem(), e.val, v2, depth+1) {
				return false
			}
		}
		return true
	case *types.Pointer:
		xp, yp := x.(*value), y.(*value)
		if xp == yp {
			return true
		}
		if xp == nil || yp == nil {
			return false
		}
		return i.deepEqual(u.Elem(), *xp, *yp, depth+1)
	case *types.Interface:
		xi, yi := x.(iface), y.(iface)
		if xi.t == nil || yi.t == nil {
			return xi.t == nil && yi.t == nil
		}
		if !types.Identical(xi.t, yi.t) {
			return false
		}
		return i.deepEqual(xi.t, xi.v, yi.v, depth+1)
	case *types.Signature:
		return isNilRef(x) && isNilRef(y)
	}
	return i.truth(equalsV(i, t, x, y))
}

// ---- reflect.Type (rtype) methods ----

func rt(args []value) types.Type { return args[0].(rtype).t }

func ext۰reflect۰rtype۰Bits(fr *frame, args []value) value {
	basic, ok := rt(args).Underlying().(*types.Basic)
	if !ok {
		panic(strPanic(fr.i, "reflect: Bits of non-arithmetic Type "+typeString(rt(args))))
	}
	return int(fr.i.sizes.Sizeof(basic)) * 8
}

func ext۰reflect۰rtype۰Elem(fr *frame, args []value) value {
	switch u := rt(args).Underlying().(type) {
	case *types.Pointer:
		return makeReflectType(rtype{u.Elem()})
	case *types.Slice:
		return makeReflectType(rtype{u.Elem()})
	case *types.Array:
		return makeReflectType(rtype{u.Elem()})
	case *types.Map:
		return makeReflectType(rtype{u.Elem()})
	case *types.Chan:
		return makeReflectType(rtype{u.Elem()})
	}
	panic(strPanic(fr.i, "reflect: Elem of invalid type "+typeString(rt(args))))
}

func ext۰reflect۰rtype۰Key(fr *frame, args []value) value {
	if u, ok := rt(args).Underlying().(*types.Map); ok {
		return makeReflectType(rtype{u.Key()})
	}
	panic(strPanic(fr.i, "reflect: Key of non-map type "+typeString(rt(args))))
}

func ext۰reflect۰rtype۰Len(fr *frame, args []value) value {
	if u, ok := rt(args).Underlying().(*types.Array); ok {
		return int(u.Len())
	}
	panic(strPanic(fr.i, "reflect: Len of non-array type "+typeString(rt(args))))
}

func makeStructField(st *types.Struct, k int, index []int) value {
	f := st.Field(k)
	pkgPath := ""
	if !f.Exported() && f.Pkg() != nil {
		pkgPath = f.Pkg().Path()
	}
	idx := make([]value, len(index))
	for n, x := range index {
		idx[n] = x
	}
	return structure{
		f.Name(),
		pkgPath,
		makeReflectType(rtype{f.Type()}),
		st.Tag(k),
		uintptr(0),
		idx,
		f.Anonymous(),
	}
}

func ext۰reflect۰rtype۰Field(fr *frame, args []value) value {
	st, ok := rt(args).Underlying().(*types.Struct)
	if !ok {
		panic(strPanic(fr.i, "reflect: Field of non-struct type "+typeString(rt(args))))
	}
	k := int(fr.i.concInt(args[1]))
	if k < 0 || k >= st.NumFields() {
		panic(strPanic(fr.i, "reflect: Field index out of bounds"))
	}
	return makeStructField(st, k, []int{k})
}

// fieldPath finds the index path of field name in t (embedding-aware).
func fieldPath(t types.Type, name string) ([]int, *types.Var) {
	var pkg *types.Package
	if !token.IsExported(name) {
		if n, ok := t.(*types.Named); ok && n.Obj() != nil {
			pkg = n.Obj().Pkg()
		}
	}
	obj, index, _ := types.LookupFieldOrMethod(t, false, pkg, name)
	if v, ok := obj.(*types.Var); ok && v.IsField() {
		return index, v
	}
	if pkg == nil && !token.IsExported(name) {
		// unexported field of an unnamed struct: search directly
		if st, ok := t.Underlying().(*types.Struct); ok {
			for k := 0; k < st.NumFields(); k++ {
				if st.Field(k).Name() == name {
					return []int{k}, st.Field(k)
				}
			}
		}
	}
	return nil, nil
}

func ext۰reflect۰rtype۰FieldByName(fr *frame, args []value) value {
	t := rt(args)
	st, ok := t.Underlying().(*types.Struct)
	if !ok {
		panic(strPanic(fr.i, "reflect: FieldByName of non-struct type "+typeString(t)))
	}
	name := fr.i.concValue(args[1]).(string)
	index, _ := fieldPath(t, name)
	if index == nil {
		return tuple{zero(structFieldType(fr.i)), false}
	}
	// walk to the struct that declares the field
	cur := st
	for _, k := range index[:len(index)-1] {
		ft := cur.Field(k).Type()
		if p, ok := ft.Underlying().(*types.Pointer); ok {
			ft = p.Elem()
		}
		cur = ft.Underlying().(*types.Struct)
	}
	return tuple{makeStructField(cur, index[len(index)-1], index), true}
}

func structFieldType(i *interpreter) types.Type {
	return i.prog.ImportedPackage("reflect").Type("StructField").Object().Type()
}

func sigOf(fr *frame, t types.Type, what string) *types.Signature {
	sig, ok := t.Underlying().(*types.Signature)
	if !ok {
		panic(strPanic(fr.i, "reflect: "+what+" of non-func type "+typeString(t)))
	}
	return sig
}

func ext۰reflect۰rtype۰In(fr *frame, args []value) value {
	sig := sigOf(fr, rt(args), "In")
	k := int(fr.i.concInt(args[1]))
	if k < 0 || k >= sig.Params().Len() {
		panic(fr.i.rtPanic(fmt.Sprintf("index out of range [%d] with length %d", k, sig.Params().Len())))
	}
	return makeReflectType(rtype{sig.Params().At(k).Type()})
}

func ext۰reflect۰rtype۰Kind(fr *frame, args []value) value {
	return uint(reflectKind(rt(args)))
}

func ext۰reflect۰rtype۰NumField(fr *frame, args []value) value {
	st, ok := rt(args).Underlying().(*types.Struct)
	if !ok {
		panic(strPanic(fr.i, "reflect: NumField of non-struct type "+typeString(rt(args))))
	}
	return st.NumFields()
}

func ext۰reflect۰rtype۰NumIn(fr *frame, args []value) value {
	return sigOf(fr, rt(args), "NumIn").Params().Len()
}

func ext۰reflect۰rtype۰IsVariadic(fr *frame, args []value) value {
	return sigOf(fr, rt(args), "IsVariadic").Variadic()
}

func numMethod(i *interpreter, t types.Type) int {
	if it, ok := t.Underlying().(*types.Interface); ok {
		return it.NumMethods()
	}
	ms := i.prog.MethodSets.MethodSet(t)
	n := 0
	for k := 0; k < ms.Len(); k++ {
		if ms.At(k).Obj().Exported() {
			n++
		}
	}
	return n
}

func ext۰reflect۰rtype۰NumMethod(fr *frame, args []value) value {
	return numMethod(fr.i, rt(args))
}

// MethodByName on a Type: (Method, bool). Only Name, Type and Index are filled in (Func is
// left invalid: callers in the code under test only test for presence).
func ext۰reflect۰rtype۰MethodByName(fr *frame, args []value) value {
	i := fr.i
	t := rt(args)
	name := i.concValue(args[1]).(string)
	mt := i.prog.ImportedPackage("reflect").Type("Method").Object().Type()
	m := zero(mt).(structure)
	if !token.IsExported(name) {
		return tuple{m, false}
	}
	ms := i.prog.MethodSets.MethodSet(t)
	sel := ms.Lookup(nil, name)
	if sel == nil {
		return tuple{m, false}
	}
	idx := 0
	for k := 0; k < ms.Len(); k++ {
		if n := ms.At(k).Obj().Name(); token.IsExported(n) && n < name {
			idx++
		}
	}
	m[0] = name
	m[2] = makeReflectType(rtype{sel.Type()})
	m[4] = idx
	return tuple{m, true}
}

func ext۰reflect۰rtype۰NumOut(fr *frame, args []value) value {
	return sigOf(fr, rt(args), "NumOut").Results().Len()
}

func ext۰reflect۰rtype۰Out(fr *frame, args []value) value {
	sig := sigOf(fr, rt(args), "Out")
	k := int(fr.i.concInt(args[1]))
	return makeReflectType(rtype{sig.Results().At(k).Type()})
}

func ext۰reflect۰rtype۰Size(fr *frame, args []value) value {
	return uintptr(fr.i.sizes.Sizeof(rt(args)))
}

func ext۰reflect۰rtype۰String(fr *frame, args []value) value {
	return typeString(rt(args))
}

func ext۰reflect۰rtype۰Name(fr *frame, args []value) value {
	switch t := rt(args).(type) {
	case *types.Named:
		return t.Obj().Name()
	case *types.Basic:
		return t.Name()
	}
	return ""
}

func ext۰reflect۰rtype۰PkgPath(fr *frame, args []value) value {
	if t, ok := rt(args).(*types.Named); ok && t.Obj().Pkg() != nil {
		return t.Obj().Pkg().Path()
	}
	return ""
}

func ext۰reflect۰rtype۰Implements(fr *frame, args []value) value {
	u := typeOfRT(args[1])
	if u == nil {
		panic(strPanic(fr.i, "reflect: nil type passed to Type.Implements"))
	}
	it, ok := u.Underlying().(*types.Interface)
	if !ok {
		panic(strPanic(fr.i, "reflect: non-interface type passed to Type.Implements"))
	}
	return types.Implements(rt(args), it)
}

func ext۰reflect۰rtype۰AssignableTo(fr *frame, args []value) value {
	u := typeOfRT(args[1])
	if u == nil {
		panic(strPanic(fr.i, "reflect: nil type passed to Type.AssignableTo"))
	}
	return types.AssignableTo(rt(args), u)
}

func ext۰reflect۰rtype۰ConvertibleTo(fr *frame, args []value) value {
	u := typeOfRT(args[1])
	if u == nil {
		panic(strPanic(fr.i, "reflect: nil type passed to Type.ConvertibleTo"))
	}
	return reflectConvertible(rt(args), u)
}

// reflectConvertible mirrors reflect's convertOp != nil.
func reflectConvertible(src, dst types.Type) bool {
	if isIfaceType(dst) {
		if isIfaceType(src) {
			return types.AssignableTo(src, dst) || types.Implements(src, dst.Underlying().(*types.Interface))
		}
		return types.Implements(src, dst.Underlying().(*types.Interface))
	}
	if isIfaceType(src) {
		return false
	}
	return types.ConvertibleTo(src, dst)
}

func ext۰reflect۰rtype۰Comparable(fr *frame, args []value) value {
	return types.Comparable(rt(args))
}

// ---- reflect.Value methods ----

func ext۰reflect۰Value۰Kind(fr *frame, args []value) value {
	return uint(rv(args[0]).kind())
}

func ext۰reflect۰Value۰IsValid(fr *frame, args []value) value {
	return rv(args[0]).valid
}

func ext۰reflect۰Value۰Type(fr *frame, args []value) value {
	r := rv(args[0])
	if !r.valid {
		panic(fr.i.valueError("reflect.Value.Type", reflect.Invalid))
	}
	return makeReflectType(rtype{r.t})
}

func ext۰reflect۰Value۰String(fr *frame, args []value) value {
	r := rv(args[0])
	if !r.valid {
		return "<invalid Value>"
	}
	if r.kind() == reflect.String {
		return r.v
	}
	return "<" + typeString(r.t) + " Value>"
}

func ext۰reflect۰Value۰Int(fr *frame, args []value) value {
	r := rv(args[0])
	switch r.kind() {
	case reflect.Int, reflect.Int8, reflect.Int16, reflect.Int32, reflect.Int64:
		return conv(fr.i, types.Typ[types.Int64], r.t, r.v)
	}
	panic(fr.i.valueError("reflect.Value.Int", r.kind()))
}

func ext۰reflect۰Value۰Uint(fr *frame, args []value) value {
	r := rv(args[0])
	switch r.kind() {
	case reflect.Uint, reflect.Uint8, reflect.Uint16, reflect.Uint32, reflect.Uint64, reflect.Uintptr:
		return conv(fr.i, types.Typ[types.Uint64], r.t, r.v)
	}
	panic(fr.i.valueError("reflect.Value.Uint", r.kind()))
}

func ext۰reflect۰Value۰Float(fr *frame, args []value) value {
	r := rv(args[0])
	switch r.kind() {
	case reflect.Float32, reflect.Float64:
		return conv(fr.i, types.Typ[types.Float64], r.t, r.v)
	}
	panic(fr.i.valueError("reflect.Value.Float", r.kind()))
}

func ext۰reflect۰Value۰Bool(fr *frame, args []value) value {
	r := rv(args[0])
	if r.kind() != reflect.Bool {
		panic(fr.i.valueError("reflect.Value.Bool", r.kind()))
	}
	return r.v
}

func ext۰reflect۰Value۰Bytes(fr *frame, args []value) value {
	r := rv(args[0])
	if r.kind() == reflect.Slice {
		if e, ok := r.t.Underlying().(*types.Slice).Elem().Underlying().(*types.Basic); ok && e.Kind() == types.Uint8 {
			return r.v
		}
		panic(strPanic(fr.i, "reflect.Value.Bytes of non-byte slice"))
	}
	panic(fr.i.valueError("reflect.Value.Bytes", r.kind()))
}

func ext۰reflect۰Value۰Len(fr *frame, args []value) value {
	r := rv(args[0])
	switch v := r.v.(type) {
	case string:
		return len(v)
	case symStr:
		return len(v.b)
	case array:
		return len(v)
	case *channel:
		if v == nil {
			return 0
		}
		return len(v.buf)
	case []value:
		return len(v)
	case *gmap:
		return v.len()
	case *value:
		if r.valid {
			if at, ok := mustDerefOK(r.t); ok {
				if a, ok := at.Underlying().(*types.Array); ok {
					return int(a.Len())
				}
			}
		}
	}
	panic(fr.i.valueError("reflect.Value.Len", r.kind()))
}

func mustDerefOK(t types.Type) (types.Type, bool) {
	if p, ok := t.Underlying().(*types.Pointer); ok {
		return p.Elem(), true
	}
	return nil, false
}

func ext۰reflect۰Value۰Cap(fr *frame, args []value) value {
	r := rv(args[0])
	switch v := r.v.(type) {
	case array:
		return len(v)
	case []value:
		return cap(v)
	case *channel:
		if v == nil {
			return 0
		}
		return v.cap
	}
	panic(fr.i.valueError("reflect.Value.Cap", r.kind()))
}

func ext۰reflect۰Value۰CanAddr(fr *frame, args []value) value {
	return rv(args[0]).addr != nil
}

func ext۰reflect۰Value۰CanSet(fr *frame, args []value) value {
	r := rv(args[0])
	return r.addr != nil && !r.ro
}

func ext۰reflect۰Value۰CanInterface(fr *frame, args []value) value {
	r := rv(args[0])
	if !r.valid {
		panic(fr.i.valueError("reflect.Value.CanInterface", reflect.Invalid))
	}
	return !r.ro
}

func ext۰reflect۰Value۰Addr(fr *frame, args []value) value {
	r := rv(args[0])
	if r.addr == nil {
		panic(strPanic(fr.i, "reflect.Value.Addr of unaddressable value"))
	}
	return makeRV(types.NewPointer(r.t), r.addr, nil, r.ro)
}

func ext۰reflect۰Value۰Elem(fr *frame, args []value) value {
	r := rv(args[0])
	switch r.kind() {
	case reflect.Interface:
		x := r.v.(iface)
		if x.t == nil {
			return invalidRV()
		}
		return makeRV(x.t, x.v, nil, r.ro)
	case reflect.Ptr:
		p := r.v.(*value)
		if p == nil {
			return invalidRV()
		}
		return makeRV(r.t.Underlying().(*types.Pointer).Elem(), nil, p, r.ro)
	}
	panic(fr.i.valueError("reflect.Value.Elem", r.kind()))
}

func ext۰reflect۰Value۰NumField(fr *frame, args []value) value {
	r := rv(args[0])
	if r.kind() != reflect.Struct {
		panic(fr.i.valueError("reflect.Value.NumField", r.kind()))
	}
	return len(r.v.(structure))
}

func (i *interpreter) rvField(r rval, k int, method string) value {
	if r.kind() != reflect.Struct {
		panic(i.valueError(method, r.kind()))
	}
	st := r.t.Underlying().(*types.Struct)
	if k < 0 || k >= st.NumFields() {
		panic(strPanic(i, "reflect: Field index out of range"))
	}
	f := st.Field(k)
	ro := r.ro || (!f.Exported() && !f.Embedded()) || (f.Embedded() && !f.Exported())
	if r.addr != nil {
		return makeRV(f.Type(), nil, &(*r.addr).(structure)[k], ro)
	}
	return makeRV(f.Type(), r.v.(structure)[k], nil, ro)
}

func ext۰reflect۰Value۰Field(fr *frame, args []value) value {
	return fr.i.rvField(rv(args[0]), int(fr.i.concInt(args[1])), "reflect.Value.Field")
}

func (i *interpreter) rvFieldByIndex(cur value, index []int) value {
	for n, k := range index {
		r := rv(cur)
		if n > 0 && r.kind() == reflect.Ptr {
			if _, ok := r.t.Underlying().(*types.Pointer).Elem().Underlying().(*types.Struct); ok {
				p := r.v.(*value)
				if p == nil {
					panic(strPanic(i, "reflect: indirection through nil pointer to embedded struct"))
				}
				cur = makeRV(r.t.Underlying().(*types.Pointer).Elem(), nil, p, r.ro)
				r = rv(cur)
			}
		}
		cur = i.rvField(r, k, "reflect.Value.Field")
	}
	return cur
}

func ext۰reflect۰Value۰FieldByIndex(fr *frame, args []value) value {
	idx := args[1].([]value)
	if len(idx) == 1 {
		return fr.i.rvField(rv(args[0]), int(fr.i.concInt(idx[0])), "reflect.Value.Field")
	}
	r := rv(args[0])
	if r.kind() != reflect.Struct {
		panic(fr.i.valueError("reflect.Value.FieldByIndex", r.kind()))
	}
	index := make([]int, len(idx))
	for n, x := range idx {
		index[n] = int(fr.i.concInt(x))
	}
	return fr.i.rvFieldByIndex(args[0], index)
}

func ext۰reflect۰Value۰FieldByName(fr *frame, args []value) value {
	r := rv(args[0])
	if r.kind() != reflect.Struct {
		panic(fr.i.valueError("reflect.Value.FieldByName", r.kind()))
	}
	name := fr.i.concValue(args[1]).(string)
	index, _ := fieldPath(r.t, name)
	if index == nil {
		return invalidRV()
	}
	return fr.i.rvFieldByIndex(args[0], index)
}

func ext۰reflect۰Value۰Index(fr *frame, args []value) value {
	i := fr.i
	r := rv(args[0])
	idx := args[1]
	var n int
	elemAt := func(l int, what string) int {
		if sv, ok := idx.(symV); ok {
			tt := i.tt
			inb := tt.and(tt.bvCmp("bvsle", tt.bvConst(0, 64), sv.t), tt.bvCmp("bvslt", sv.t, tt.bvConst(uint64(l), 64)))
			if !i.branch(inb) {
				panic(strPanic(i, "reflect: "+what+" index out of range"))
			}
			return int(i.concretize(sv))
		}
		k := int(asInt64(idx))
		if k < 0 || k >= l {
			panic(strPanic(i, "reflect: "+what+" index out of range"))
		}
		return k
	}
	switch r.kind() {
	case reflect.Slice:
		s := r.v.([]value)
		n = elemAt(len(s), "slice")
		return makeRV(r.t.Underlying().(*types.Slice).Elem(), nil, &s[n], r.ro)
	case reflect.Array:
		et := r.t.Underlying().(*types.Array).Elem()
		if r.addr != nil {
			a := (*r.addr).(array)
			n = elemAt(len(a), "array")
			return makeRV(et, nil, &a[n], r.ro)
		}
		a := r.v.(array)
		n = elemAt(len(a), "array")
		return makeRV(et, a[n], nil, r.ro)
	case reflect.String:
		b := strBytes(r.v)
		n = elemAt(len(b), "string")
		return makeRV(types.Typ[types.Uint8], b[n], nil, r.ro)
	}
	panic(i.valueError("reflect.Value.Index", r.kind()))
}

func ext۰reflect۰Value۰Slice(fr *frame, args []value) value {
	i := fr.i
	r := rv(args[0])
	// symbolic bounds: one verification condition for "in range", then a finite concretisation
	if n, ok := rvLenForSlice(r); ok {
		lo64, okLo := i.boundedInt(args[1], 0, int64(n))
		hi64, okHi := i.boundedInt(args[2], 0, int64(n))
		if !okLo || !okHi {
			if r.kind() == reflect.String {
				panic(strPanic(i, "reflect.Value.Slice: string slice index out of bounds"))
			}
			panic(strPanic(i, "reflect.Value.Slice: slice index out of bounds"))
		}
		args = []value{args[0], int(lo64), int(hi64)}
	}
	lo, hi := int(i.concInt(args[1])), int(i.concInt(args[2]))
	switch r.kind() {
	case reflect.String:
		n := strLen(r.v)
		if lo < 0 || hi < lo || hi > n {
			panic(strPanic(i, "reflect.Value.Slice: string slice index out of bounds"))
		}
		return makeRV(r.t, slice(i, r.v, lo, hi, nil), nil, r.ro)
	case reflect.Slice:
		s := r.v.([]value)
		if lo < 0 || hi < lo || hi > cap(s) {
			panic(strPanic(i, "reflect.Value.Slice: slice index out of bounds"))
		}
		return makeRV(r.t, s[lo:hi], nil, r.ro)
	case reflect.Array:
		if r.addr == nil {
			panic(strPanic(i, "reflect.Value.Slice: slice of unaddressable array"))
		}
		a := (*r.addr).(array)
		if lo < 0 || hi < lo || hi > len(a) {
			panic(strPanic(i, "reflect.Value.Slice: slice index out of bounds"))
		}
		return makeRV(types.NewSlice(r.t.Underlying().(*types.Array).Elem()), []value(a)[lo:hi], nil, r.ro)
	}
	panic(i.valueError("reflect.Value.Slice", r.kind()))
}

func ext۰reflect۰Value۰IsNil(fr *frame, args []value) value {
	r := rv(args[0])
	switch r.kind() {
	case reflect.Chan, reflect.Func, reflect.Interface, reflect.Map, reflect.Ptr, reflect.Slice, reflect.UnsafePointer:
	default:
		panic(fr.i.valueError("reflect.Value.IsNil", r.kind()))
	}
	switch x := r.v.(type) {
	case *value:
		return x == nil
	case *channel:
		return x == nil
	case *gmap:
		return x == nil
	case iface:
		return x.t == nil
	case []value:
		return x == nil
	case *ssa.Function:
		return x == nil
	case *ssa.Builtin:
		return x == nil
	case *closure:
		return x == nil
	case *nativeFunc:
		return x == nil
	case unsafe.Pointer:
		return x == nil
	}
	panic(fmt.Sprintf("reflect.(Value).IsNil(%T)", r.v))
}

// isZeroT returns the term for "x is the zero value of t".
func (i *interpreter) isZeroT(t types.Type, x value) *Term {
	tt := i.tt
	switch u := t.Underlying().(type) {
	case *types.Basic:
		switch xv := x.(type) {
		case symV:
			if xv.k == types.Bool {
				return tt.not(xv.t)
			}
			if xv.k == types.Float64 {
				// reflect (Go 1.23): v.Float() == 0, so both +0 and -0 are zero
				return tt.eq(xv.t, tt.fpConst(0))
			}
			return tt.eq(xv.t, tt.bvConst(0, xv.t.sort.w))
		case symStr:
			return tt.boolConst(len(xv.b) == 0)
		case float64:
			return tt.boolConst(xv == 0)
		case float32:
			return tt.boolConst(xv == 0)
		case complex128:
			return tt.boolConst(xv == 0)
		case complex64:
			return tt.boolConst(xv == 0)
		case unsafe.Pointer:
			return tt.boolConst(xv == nil)
		}
		return tt.boolConst(equals(t, x, zero(u)))
	case *types.Array:
		r := tt.boolConst(true)
		for _, e := range x.(array) {
			r = tt.and(r, i.isZeroT(u.Elem(), e))
		}
		return r
	case *types.Struct:
		r := tt.boolConst(true)
		for k, e := range x.(structure) {
			r = tt.and(r, i.isZeroT(u.Field(k).Type(), e))
		}
		return r
	case *types.Interface:
		return tt.boolConst(x.(iface).t == nil)
	case *types.Pointer:
		return tt.boolConst(x.(*value) == nil)
	case *types.Slice:
		return tt.boolConst(x.([]value) == nil)
	case *types.Map:
		return tt.boolConst(x.(*gmap) == nil)
	case *types.Chan:
		return tt.boolConst(x.(*channel) == nil)
	case *types.Signature:
		return tt.boolConst(isNilRef(x))
	}
	panic(unsupported("IsZero of %v", t))
}

func ext۰reflect۰Value۰IsZero(fr *frame, args []value) value {
	r := rv(args[0])
	if !r.valid {
		panic(fr.i.valueError("reflect.Value.IsZero", reflect.Invalid))
	}
	return fromTerm(fr.i.isZeroT(r.t, r.v), types.Bool)
}

func ext۰reflect۰Value۰Interface(fr *frame, args []value) value {
	r := rv(args[0])
	if !r.valid {
		panic(fr.i.valueError("reflect.Value.Interface", reflect.Invalid))
	}
	if r.ro {
		panic(strPanic(fr.i, "reflect.Value.Interface: cannot return value obtained from unexported field or method"))
	}
	if r.kind() == reflect.Interface {
		return r.v
	}
	return iface{r.t, r.v}
}

func (i *interpreter) objID(p interface{}) uintptr {
	ids, _ := i.extState["objids"].(map[interface{}]uintptr)
	if ids == nil {
		ids = map[interface{}]uintptr{}
		i.extState["objids"] = ids
	}
	if id, ok := ids[p]; ok {
		return id
	}
	id := uintptr(0xc000000000 + 64*(len(ids)+1))
	ids[p] = id
	return id
}

func ext۰reflect۰Value۰Pointer(fr *frame, args []value) value {
	i := fr.i
	r := rv(args[0])
	switch v := r.v.(type) {
	case *value:
		if v == nil {
			return uintptr(0)
		}
		return i.objID(v)
	case *channel:
		if v == nil {
			return uintptr(0)
		}
		return i.objID(v)
	case []value:
		if cap(v) == 0 {
			if v == nil {
				return uintptr(0)
			}
			return uintptr(0xc000000008)
		}
		return i.objID(&v[:1][0])
	case *gmap:
		if v == nil {
			return uintptr(0)
		}
		return i.objID(v)
	case *ssa.Function:
		if v == nil {
			return uintptr(0)
		}
		return i.objID(v)
	case *closure:
		return i.objID(v.Fn)
	case *nativeFunc:
		return i.objID(v)
	}
	panic(i.valueError("reflect.Value.Pointer", r.kind()))
}

func ext۰reflect۰Value۰MapIndex(fr *frame, args []value) value {
	i := fr.i
	r := rv(args[0])
	if r.kind() != reflect.Map {
		panic(i.valueError("reflect.Value.MapIndex", r.kind()))
	}
	mt := r.t.Underlying().(*types.Map)
	k := i.assignTo(rv(args[1]), mt.Key(), "reflect.Value.MapIndex")
	m := r.v.(*gmap)
	i.guardCheck(m, false, "reflect MapIndex")
	if v, ok := m.lookup(i, k); ok {
		return makeRV(mt.Elem(), v, nil, r.ro || rv(args[1]).ro)
	}
	return invalidRV()
}

func ext۰reflect۰Value۰SetMapIndex(fr *frame, args []value) value {
	i := fr.i
	r := rv(args[0])
	if r.kind() != reflect.Map {
		panic(i.valueError("reflect.Value.SetMapIndex", r.kind()))
	}
	if r.ro {
		panic(strPanic(i, "reflect: reflect.Value.SetMapIndex using value obtained using unexported field"))
	}
	mt := r.t.Underlying().(*types.Map)
	k := i.assignTo(rv(args[1]), mt.Key(), "reflect.Value.SetMapIndex")
	m := r.v.(*gmap)
	e := rv(args[2])
	if !e.valid {
		m.delete(i, k)
		return nil
	}
	ev := i.assignTo(e, mt.Elem(), "reflect.Value.SetMapIndex")
	if m == nil {
		panic(targetPanic{iface{i.runtimeErrorString, "assignment to entry in nil map"}})
	}
	i.guardCheck(m, true, "reflect SetMapIndex")
	i.publishedWrite(m, "reflect SetMapIndex")
	i.publish(m, ev)
	m.insert(i, k, ev)
	return nil
}

func ext۰reflect۰Value۰MapKeys(fr *frame, args []value) value {
	r := rv(args[0])
	if r.kind() != reflect.Map {
		panic(fr.i.valueError("reflect.Value.MapKeys", r.kind()))
	}
	kt := r.t.Underlying().(*types.Map).Key()
	keys := []value{}
	for _, e := range r.v.(*gmap).liveEntries() {
		keys = append(keys, makeRV(kt, e.key, nil, r.ro))
	}
	return keys
}

// MapIter: the object is a *value holding the real struct shape; iteration state
// lives in a per-path side table.
type mapIterState struct {
	m       rval
	it      *gmapIter
	cur     *gentry
	started bool
}

func (i *interpreter) mapIters() map[*value]*mapIterState {
	m, _ := i.extState["mapiters"].(map[*value]*mapIterState)
	if m == nil {
		m = map[*value]*mapIterState{}
		i.extState["mapiters"] = m
	}
	return m
}

func ext۰reflect۰Value۰MapRange(fr *frame, args []value) value {
	i := fr.i
	r := rv(args[0])
	if r.kind() != reflect.Map {
		panic(i.valueError("reflect.Value.MapRange", r.kind()))
	}
	mit := i.prog.ImportedPackage("reflect").Type("MapIter").Object().Type()
	cell := zero(mit)
	p := &cell
	i.mapIters()[p] = &mapIterState{m: r, it: &gmapIter{m: r.v.(*gmap)}}
	return p
}

func ext۰reflect۰MapIter۰Next(fr *frame, args []value) value {
	i := fr.i
	p := args[0].(*value)
	st := i.mapIters()[p]
	if st == nil {
		panic(strPanic(i, "MapIter.Next called on an iterator that does not have an associated map Value"))
	}
	t := st.it.next()
	st.started = true
	if !t[0].(bool) {
		st.cur = nil
		return false
	}
	st.cur = &gentry{key: t[1], val: t[2]}
	return true
}

func ext۰reflect۰MapIter۰Key(fr *frame, args []value) value {
	i := fr.i
	st := i.mapIters()[args[0].(*value)]
	if st == nil || !st.started {
		panic(strPanic(i, "MapIter.Key called before Next"))
	}
	if st.cur == nil {
		panic(strPanic(i, "MapIter.Key called on exhausted iterator"))
	}
	return makeRV(st.m.t.Underlying().(*types.Map).Key(), st.cur.key, nil, st.m.ro)
}

func ext۰reflect۰MapIter۰Value(fr *frame, args []value) value {
	i := fr.i
	st := i.mapIters()[args[0].(*value)]
	if st == nil || !st.started {
		panic(strPanic(i, "MapIter.Value called before Next"))
	}
	if st.cur == nil {
		panic(strPanic(i, "MapIter.Value called on exhausted iterator"))
	}
	return makeRV(st.m.t.Underlying().(*types.Map).Elem(), st.cur.val, nil, st.m.ro)
}

// SetIterKey / SetIterValue: v.Set(iter.Key()) / v.Set(iter.Value()) without the allocation.
func ext۰reflect۰Value۰SetIterKey(fr *frame, args []value) value {
	k := ext۰reflect۰MapIter۰Key(fr, []value{args[1]})
	return ext۰reflect۰Value۰Set(fr, []value{args[0], k})
}

func ext۰reflect۰Value۰SetIterValue(fr *frame, args []value) value {
	v := ext۰reflect۰MapIter۰Value(fr, []value{args[1]})
	return ext۰reflect۰Value۰Set(fr, []value{args[0], v})
}

func ext۰reflect۰Value۰NumMethod(fr *frame, args []value) value {
	r := rv(args[0])
	if !r.valid {
		panic(fr.i.valueError("reflect.Value.NumMethod", reflect.Invalid))
	}
	return numMethod(fr.i, r.t)
}

func ext۰reflect۰Value۰Set(fr *frame, args []value) value {
	i := fr.i
	r := rv(args[0])
	if r.addr == nil {
		panic(strPanic(i, "reflect: reflect.Value.Set using unaddressable value"))
	}
	if r.ro {
		panic(strPanic(i, "reflect: reflect.Value.Set using value obtained using unexported field"))
	}
	x := rv(args[1])
	if !x.valid {
		panic(i.valueError("reflect.Set", reflect.Invalid))
	}
	v := i.assignTo(x, r.t, "reflect.Set")
	store(r.t, r.addr, copyVal(v))
	return nil
}

// copyVal makes an unaliased copy of aggregates (struct/array values).
func copyVal(v value) value {
	switch x := v.(type) {
	case structure:
		c := make(structure, len(x))
		for k := range x {
			c[k] = copyVal(x[k])
		}
		return c
	case array:
		c := make(array, len(x))
		for k := range x {
			c[k] = copyVal(x[k])
		}
		return c
	}
	return v
}

func ext۰reflect۰Value۰Recv(fr *frame, args []value) value {
	i := fr.i
	r := rv(args[0])
	if r.kind() != reflect.Chan {
		panic(i.valueError("reflect.Value.Recv", r.kind()))
	}
	ct := r.t.Underlying().(*types.Chan)
	if ct.Dir() == types.SendOnly {
		panic(strPanic(i, "reflect: recv on send-only channel"))
	}
	v, ok := i.chanRecv(fr, r.v.(*channel))
	if !ok {
		return tuple{makeRV(ct.Elem(), zero(ct.Elem()), nil, false), false}
	}
	return tuple{makeRV(ct.Elem(), v, nil, false), true}
}

// TryRecv: a receive that does not block. If it would block the result is the zero Value
// and false; on a closed channel the element type's zero value and false.
func ext۰reflect۰Value۰TryRecv(fr *frame, args []value) value {
	i := fr.i
	r := rv(args[0])
	if r.kind() != reflect.Chan {
		panic(i.valueError("reflect.Value.TryRecv", r.kind()))
	}
	ct := r.t.Underlying().(*types.Chan)
	if ct.Dir() == types.SendOnly {
		panic(strPanic(i, "reflect: recv on send-only channel"))
	}
	ch, _ := r.v.(*channel)
	if ch == nil || (len(ch.buf) == 0 && len(ch.sendq) == 0 && !ch.closed) {
		return tuple{invalidRV(), false}
	}
	v, ok := i.chanRecv(fr, ch)
	if !ok {
		return tuple{makeRV(ct.Elem(), zero(ct.Elem()), nil, false), false}
	}
	return tuple{makeRV(ct.Elem(), v, nil, false), true}
}

func ext۰reflect۰Value۰Convert(fr *frame, args []value) value {
	i := fr.i
	r := rv(args[0])
	dst := typeOfRT(args[1])
	if !r.valid {
		panic(i.valueError("reflect.Value.Convert", reflect.Invalid))
	}
	if r.ro {
		panic(strPanic(i, "reflect: reflect.Value.Convert using value obtained using unexported field"))
	}
	if !reflectConvertible(r.t, dst) {
		panic(strPanic(i, "reflect.Value.Convert: value of type "+typeString(r.t)+" cannot be converted to type "+typeString(dst)))
	}
	return makeRV(dst, i.convertValue(r, dst), nil, false)
}

// convertValue performs a Go conversion of r to dst (already known convertible).
func (i *interpreter) convertValue(r rval, dst types.Type) value {
	if isIfaceType(dst) {
		if isIfaceType(r.t) {
			return r.v
		}
		return iface{r.t, r.v}
	}
	us, ud := r.t.Underlying(), dst.Underlying()
	if types.Identical(us, ud) {
		return r.v
	}
	if ps, ok := us.(*types.Pointer); ok {
		if pd, ok := ud.(*types.Pointer); ok && types.Identical(ps.Elem().Underlying(), pd.Elem().Underlying()) {
			return r.v
		}
	}
	if _, ok := us.(*types.Slice); ok {
		if pd, ok := ud.(*types.Pointer); ok {
			if _, ok := pd.Elem().Underlying().(*types.Array); ok {
				return sliceToArrayPointer(i, dst, r.t, r.v)
			}
		}
		if ad, ok := ud.(*types.Array); ok {
			s := r.v.([]value)
			if int64(len(s)) < ad.Len() {
				panic(strPanic(i, "reflect: cannot convert slice with length "+fmt.Sprint(len(s))+" to array with length "+fmt.Sprint(ad.Len())))
			}
			a := make(array, ad.Len())
			copy(a, s)
			return a
		}
	}
	return conv(i, dst, r.t, r.v)
}

// lookupMethodValue finds method name on r and returns it as a func Value.
func (i *interpreter) methodByName(r rval, name string) value {
	if !token.IsExported(name) {
		return invalidRV()
	}
	t := r.t
	recv := r.v
	if isIfaceType(t) {
		itf := r.v.(iface)
		it := t.Underlying().(*types.Interface)
		var m *types.Func
		for k := 0; k < it.NumMethods(); k++ {
			if it.Method(k).Name() == name {
				m = it.Method(k)
			}
		}
		if m == nil {
			return invalidRV()
		}
		sig := m.Type().(*types.Signature)
		nf := &nativeFunc{name: name, sig: sig, fn: func(fr *frame, args []value) value {
			if itf.t == nil {
				panic(strPanic(i, "reflect: Method on nil interface value"))
			}
			f := lookupMethod(i, itf.t, m)
			return call(i, fr, token.NoPos, f, append([]value{itf.v}, args...))
		}}
		if itf.t == nil {
			// reflect panics already at MethodByName? No: at Call. Keep lazily.
		}
		return makeRV(types.NewSignatureType(nil, nil, nil, sig.Params(), sig.Results(), sig.Variadic()), nf, nil, r.ro)
	}
	ms := i.prog.MethodSets.MethodSet(t)
	sel := ms.Lookup(nil, name)
	if sel == nil {
		return invalidRV()
	}
	fn := i.prog.MethodValue(sel)
	if fn == nil {
		return invalidRV()
	}
	sig := sel.Type().(*types.Signature)
	nf := &nativeFunc{name: name, sig: sig, fn: func(fr *frame, args []value) value {
		return call(i, fr, token.NoPos, fn, append([]value{copyVal(recv)}, args...))
	}}
	return makeRV(types.NewSignatureType(nil, nil, nil, sig.Params(), sig.Results(), sig.Variadic()), nf, nil, r.ro)
}

func ext۰reflect۰Value۰MethodByName(fr *frame, args []value) value {
	r := rv(args[0])
	if !r.valid {
		panic(fr.i.valueError("reflect.Value.MethodByName", reflect.Invalid))
	}
	name := fr.i.concValue(args[1]).(string)
	return fr.i.methodByName(r, name)
}

// Method(i): the i-th method of the value's method set (exported methods in name order).
func ext۰reflect۰Value۰Method(fr *frame, args []value) value {
	i := fr.i
	r := rv(args[0])
	if !r.valid {
		panic(i.valueError("reflect.Value.Method", reflect.Invalid))
	}
	var names []string
	if isIfaceType(r.t) {
		it := r.t.Underlying().(*types.Interface)
		for k := 0; k < it.NumMethods(); k++ {
			if n := it.Method(k).Name(); token.IsExported(n) {
				names = append(names, n)
			}
		}
	} else {
		ms := i.prog.MethodSets.MethodSet(r.t)
		for k := 0; k < ms.Len(); k++ {
			if n := ms.At(k).Obj().Name(); token.IsExported(n) {
				names = append(names, n)
			}
		}
	}
	sort.Strings(names)
	idx := int(i.concInt(args[1]))
	if idx < 0 || idx >= len(names) {
		panic(strPanic(i, "reflect: Method index out of range"))
	}
	if isIfaceType(r.t) && r.v.(iface).t == nil {
		panic(strPanic(i, "reflect: Method on nil interface value"))
	}
	return i.methodByName(r, names[idx])
}

func ext۰reflect۰Value۰Call(fr *frame, args []value) value {
	i := fr.i
	r := rv(args[0])
	if r.kind() != reflect.Func {
		panic(i.valueError("reflect.Value.Call", r.kind()))
	}
	if r.ro {
		panic(strPanic(i, "reflect: reflect.Value.Call using value obtained using unexported field"))
	}
	if isNilRef(r.v) {
		panic(strPanic(i, "reflect: call of nil function"))
	}
	sig := r.t.Underlying().(*types.Signature)
	in := args[1].([]value)
	n := sig.Params().Len()
	if sig.Variadic() {
		if len(in) < n-1 {
			panic(strPanic(i, "reflect: Call with too few input arguments"))
		}
	} else {
		if len(in) < n {
			panic(strPanic(i, "reflect: Call with too few input arguments"))
		}
		if len(in) > n {
			panic(strPanic(i, "reflect: Call with too many input arguments"))
		}
	}
	for _, x := range in {
		if !rv(x).valid {
			panic(strPanic(i, "reflect: Call using zero Value argument"))
		}
	}
	fixed := n
	if sig.Variadic() {
		fixed = n - 1
	}
	var cargs []value
	for k := 0; k < fixed; k++ {
		x := rv(in[k])
		pt := sig.Params().At(k).Type()
		if !types.AssignableTo(x.t, pt) {
			panic(strPanic(i, "reflect: Call using "+typeString(x.t)+" as type "+typeString(pt)))
		}
		cargs = append(cargs, copyVal(i.assignTo(x, pt, "reflect.Value.Call")))
	}
	if sig.Variadic() {
		et := sig.Params().At(n - 1).Type().(*types.Slice).Elem()
		rest := []value{}
		for k := fixed; k < len(in); k++ {
			x := rv(in[k])
			if !types.AssignableTo(x.t, et) {
				panic(strPanic(i, "reflect: cannot use "+typeString(x.t)+" as type "+typeString(et)+" in Call"))
			}
			rest = append(rest, copyVal(i.assignTo(x, et, "reflect.Value.Call")))
		}
		cargs = append(cargs, rest)
	}
	res := call(i, fr, token.NoPos, r.v, cargs)
	out := []value{}
	switch sig.Results().Len() {
	case 0:
	case 1:
		out = append(out, makeRV(sig.Results().At(0).Type(), res, nil, false))
	default:
		tup := res.(tuple)
		for k := 0; k < sig.Results().Len(); k++ {
			out = append(out, makeRV(sig.Results().At(k).Type(), tup[k], nil, false))
		}
	}
	return out
}

func ext۰reflect۰valueInterface(fr *frame, args []value) value {
	return ext۰reflect۰Value۰Interface(fr, args)
}

func ext۰reflect۰error۰Error(fr *frame, args []value) value {
	return args[0]
}

func ext۰reflect۰ValueError۰Error(fr *frame, args []value) value {
	p := args[0].(*value)
	s := (*p).(structure)
	k := reflect.Kind(asInt64(s[1]))
	if k == reflect.Invalid {
		return "reflect: call of " + s[0].(string) + " on zero Value"
	}
	return "reflect: call of " + s[0].(string) + " on " + k.String() + " Value"
}

func ext۰reflect۰Kind۰String(fr *frame, args []value) value {
	return reflect.Kind(asInt64(args[0])).String()
}

// newMethod creates a new method of the specified name, package and receiver type.
func newMethod(pkg *ssa.Package, recvType types.Type, name string) *ssa.Function {
	sig := types.NewSignature(types.NewVar(token.NoPos, nil, "recv", recvType), nil, nil, false)
	fn := pkg.Prog.NewFunction(name, sig, "fake reflect method")
	fn.Pkg = pkg
	return fn
}

var rtypeMethodNames = []string{
	"Bits", "Elem", "Field", "FieldByName", "In", "Kind", "NumField", "NumIn", "NumMethod", "NumOut",
	"Out", "Size", "String", "Key", "Len", "IsVariadic", "Name", "PkgPath", "Implements",
	"AssignableTo", "ConvertibleTo", "Comparable", "MethodByName",
}

func initReflect(i *interpreter) {
	i.reflectPackage = &ssa.Package{
		Prog:    i.prog,
		Pkg:     reflectTypesPackage,
		Members: make(map[string]ssa.Member),
	}

	// Clobber the type-checker's notion of reflect.Value's underlying type so that
	// it matches the model's 4-field shape (zero values, loads and stores use it).
	if r := i.prog.ImportedPackage("reflect"); r != nil {
		rV := r.Pkg.Scope().Lookup("Value").Type().(*types.Named)
		i.reflectValueType = rV
		if st, ok := rV.Underlying().(*types.Struct); !ok || st.NumFields() != 4 || st.Field(0).Name() != "t" {
			// delete bodies of the old methods
			mset := i.prog.MethodSets.MethodSet(rV)
			for j := 0; j < mset.Len(); j++ {
				i.prog.MethodValue(mset.At(j)).Blocks = nil
			}
			pset := i.prog.MethodSets.MethodSet(types.NewPointer(rV))
			for j := 0; j < pset.Len(); j++ {
				if f := i.prog.MethodValue(pset.At(j)); f != nil && f.Synthetic == "" {
					f.Blocks = nil
				}
			}
			tEface := types.NewInterfaceType(nil, nil).Complete()
			rV.SetUnderlying(types.NewStruct([]*types.Var{
				types.NewField(token.NoPos, r.Pkg, "t", tEface, false), // a lie
				types.NewField(token.NoPos, r.Pkg, "v", tEface, false),
				types.NewField(token.NoPos, r.Pkg, "a", tEface, false),
				types.NewField(token.NoPos, r.Pkg, "ro", tEface, false),
			}, nil))
		}
	}

	i.rtypeMethods = methodSet{}
	for _, n := range rtypeMethodNames {
		i.rtypeMethods[n] = newMethod(i.reflectPackage, rtypeType, n)
	}
	i.errorMethods = methodSet{
		"Error": newMethod(i.reflectPackage, errorType, "Error"),
	}
}

var _ = strings.Contains

func rvLenForSlice(r rval) (int, bool) {
	switch v := r.v.(type) {
	case string:
		return len(v), true
	case symStr:
		return len(v.b), true
	case []value:
		return cap(v), true
	case array:
		return len(v), true
	}
	return 0, false
}

// boundedInt returns the concrete value of v if it lies in [lo, hi] (forking over the
// values in that range when v is symbolic); ok is false on the out-of-range side.
func (i *interpreter) boundedInt(v value, lo, hi int64) (int64, bool) {
	sv, isSym := v.(symV)
	if !isSym {
		n := asInt64(v)
		return n, n >= lo && n <= hi
	}
	tt := i.tt
	w := sv.t.sort.w
	var in *Term
	if kindSigned(sv.k) {
		in = tt.and(tt.bvCmp("bvsle", tt.bvConst(uint64(lo), w), sv.t), tt.bvCmp("bvsle", sv.t, tt.bvConst(uint64(hi), w)))
	} else {
		in = tt.and(tt.bvCmp("bvule", tt.bvConst(uint64(lo), w), sv.t), tt.bvCmp("bvule", sv.t, tt.bvConst(uint64(hi), w)))
	}
	if !i.branch(in) {
		return 0, false
	}
	return i.concretize(sv), true
}
