package interp

// A minimal model of package testing, used only by `gosym selftest`: the repository's
// own Test functions are executed (concretely) inside the engine and their verdicts
// compared with the native `go test` verdicts. This validates the executor and the
// environment model against inputs that were not written by the authors of the checks.
//
// A *testing.T is a zero value of the real struct; none of the real testing code runs.
// Failures are recorded on the path; Fatal/FailNow/Skip unwind to the enclosing
// vfRunTest / t.Run by an interpreted panic carrying a sentinel, so that deferred
// functions of the test run as they do under runtime.Goexit.

import (
	"go/types"
	"sync/atomic"
)

type testUnwind struct{ skip bool }

// SelftestSubtests counts the sub-tests (t.Run / testing.RunTests entries) executed by
// vfRunTest drivers in this process.
var SelftestSubtests int64

type testRun struct {
	failed  bool
	msgs    []string
	subs    int
	skipped int
}

func (i *interpreter) testState() *testRun {
	if i.test == nil {
		i.test = &testRun{}
	}
	return i.test
}

func (i *interpreter) testFail(msg string) {
	t := i.testState()
	t.failed = true
	if len(t.msgs) < 8 {
		if len(msg) > 3000 {
			msg = msg[:3000] + "..."
		}
		t.msgs = append(t.msgs, msg)
	}
}

func (i *interpreter) testMsgf(fr *frame, format value, args value) string {
	s := i.sprintf(fr, format, args.([]value))
	return i.evalToString(s, nil, map[*Term]uint64{})
}

func (i *interpreter) testMsg(fr *frame, args value) string {
	s := i.sprint(fr, args.([]value), true)
	return i.evalToString(s, nil, map[*Term]uint64{})
}

// runTestFunc calls f(t) with a fresh T and absorbs a Fatal/Skip unwind.
func (i *interpreter) runTestFunc(fr *frame, f value, tType types.Type) {
	cell := zero(tType)
	t := &cell
	defer func() {
		if r := recover(); r != nil {
			if tp, ok := r.(targetPanic); ok {
				if itf, ok := tp.v.(iface); ok {
					if _, ok := itf.v.(testUnwind); ok {
						return
					}
				}
			}
			panic(r)
		}
	}()
	call(i, fr, 0, f, []value{t})
}

func testTType(f value) types.Type {
	var sig *types.Signature
	switch f := f.(type) {
	case *closure:
		sig = f.Fn.Signature
	default:
		if fn, ok := f.(interface{ Type() types.Type }); ok {
			sig, _ = fn.Type().(*types.Signature)
		}
	}
	if sig == nil || sig.Params().Len() != 1 {
		panic(unsupported("test function of unexpected shape"))
	}
	return sig.Params().At(0).Type().(*types.Pointer).Elem()
}

func (i *interpreter) testUnwindPanic(skip bool) targetPanic {
	return targetPanic{v: iface{t: i.errorStringType, v: testUnwind{skip: skip}}}
}

func init() {
	fail := func(fr *frame, msg string) { fr.i.testFail(msg) }
	for _, recv := range []string{"(*testing.common)"} {
		r := recv
		externals[r+".Errorf"] = func(fr *frame, a []value) value { fail(fr, fr.i.testMsgf(fr, a[1], a[2])); return nil }
		externals[r+".Error"] = func(fr *frame, a []value) value { fail(fr, fr.i.testMsg(fr, a[1])); return nil }
		externals[r+".Fatalf"] = func(fr *frame, a []value) value {
			fail(fr, fr.i.testMsgf(fr, a[1], a[2]))
			panic(fr.i.testUnwindPanic(false))
		}
		externals[r+".Fatal"] = func(fr *frame, a []value) value {
			fail(fr, fr.i.testMsg(fr, a[1]))
			panic(fr.i.testUnwindPanic(false))
		}
		externals[r+".Fail"] = func(fr *frame, a []value) value { fail(fr, "Fail()"); return nil }
		externals[r+".FailNow"] = func(fr *frame, a []value) value {
			fail(fr, "FailNow()")
			panic(fr.i.testUnwindPanic(false))
		}
		externals[r+".Failed"] = func(fr *frame, a []value) value { return fr.i.testState().failed }
		externals[r+".Log"] = func(fr *frame, a []value) value { return nil }
		externals[r+".Logf"] = func(fr *frame, a []value) value { return nil }
		externals[r+".Helper"] = func(fr *frame, a []value) value { return nil }
		externals[r+".Name"] = func(fr *frame, a []value) value { return "selftest" }
		externals[r+".Skip"] = func(fr *frame, a []value) value {
			fr.i.testState().skipped++
			panic(fr.i.testUnwindPanic(true))
		}
		externals[r+".Skipf"] = externals[r+".Skip"]
		externals[r+".SkipNow"] = externals[r+".Skip"]
	}
	externals["(*testing.T).Parallel"] = func(fr *frame, a []value) value { return nil }
	externals["(*testing.T).Run"] = func(fr *frame, a []value) value {
		i := fr.i
		st := i.testState()
		st.subs++
		before := st.failed
		st.failed = false
		i.runTestFunc(fr, a[2], testTType(a[2]))
		ok := !st.failed
		st.failed = st.failed || before
		return ok
	}
	externals["testing.Short"] = func(fr *frame, a []value) value { return false }
	externals["testing.Verbose"] = func(fr *frame, a []value) value { return false }
	// RunTests(matchString, []InternalTest{{Name, F}}) bool
	externals["testing.RunTests"] = func(fr *frame, a []value) value {
		i := fr.i
		st := i.testState()
		before := st.failed
		st.failed = false
		for _, it := range a[1].([]value) {
			s := it.(structure)
			st.subs++
			i.runTestFunc(fr, s[1], testTType(s[1]))
		}
		ok := !st.failed
		st.failed = st.failed || before
		return ok
	}
	// vfRunTest(name, f): the driver generated by `gosym selftest`.
	ndExternals["vfRunTest"] = func(fr *frame, a []value) value {
		i := fr.i
		i.test = &testRun{}
		i.runTestFunc(fr, a[1], testTType(a[1]))
		i.sched.quiesce()
		st := i.test
		atomic.AddInt64(&SelftestSubtests, int64(st.subs))
		i.path.notes = append(i.path.notes, sprintTest(st))
		if st.failed {
			msg := "test failed in the engine"
			if len(st.msgs) > 0 {
				msg = st.msgs[0]
			}
			i.recordViolation("selftest-failed", msg, nil)
		}
		return nil
	}
}

func sprintTest(st *testRun) string {
	s := "PASS"
	if st.failed {
		s = "FAIL"
	}
	return s + " subtests=" + itoa(st.subs) + " skipped=" + itoa(st.skipped)
}

func itoa(n int) string {
	if n == 0 {
		return "0"
	}
	var b []byte
	for n > 0 {
		b = append([]byte{byte('0' + n%10)}, b...)
		n /= 10
	}
	return string(b)
}
