#!/bin/bash
# Usage: tools/recheck_seeded.sh [<id-variant> ...]   (default: all)
# Re-runs the quick check of each kept seeded change against /repo with the change applied
# (git -C /repo apply; check; git -C /repo checkout -- .) and refreshes check_result /
# check_summary in its meta.json. /repo must be clean.
set -u
cd /verif
export GOFLAGS=-mod=mod GOPROXY=off GOSUMDB=off GOTOOLCHAIN=local
[ -z "$(git -C /repo status --porcelain)" ] || { echo "/repo is not clean"; exit 2; }
LIST="$@"; [ -n "$LIST" ] || LIST=$(ls seeded | grep '^C[0-9][0-9]-')
for d in $LIST; do
  OUT=/verif/seeded/$d; ID=${d%%-*}
  [ -f $OUT/patch.diff ] || continue
  git -C /repo apply $OUT/patch.diff || { echo "$d: patch does not apply"; continue; }
  timeout 1800 ./bin/gosym check $ID --tier ${TIER:-quick} --no-evidence >$OUT/check.log 2>&1; RC=$?
  git -C /repo checkout -- .
  case $RC in 1) R=detected;; 0) R=MISSED;; *) R=inconclusive;; esac
  grep -a "VIOLATION\|harness=\|INCONCLUSIVE" $OUT/check.log | head -6 | cut -c1-300 > $OUT/check_summary.txt
  python3 - $OUT $R $RC <<'PY'
import json,sys,os
out,r,rc=sys.argv[1:]
p=os.path.join(out,'meta.json'); m=json.load(open(p))
m['check_result']=r; m['check_exit']=int(rc)
m['check_summary']=open(os.path.join(out,'check_summary.txt')).read().splitlines()
json.dump(m,open(p,'w'),indent=1)
PY
  echo "$d $R"
done
