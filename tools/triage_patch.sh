#!/bin/bash
# Usage: tools/triage_patch.sh <Cxx> <patch.diff>   - full quick check against a scratch worktree (GOSYM_REPO); /repo untouched
set -u
ID=$1; P=$2
W=/tmp/mut/tri.$$
git -C /repo worktree add -q --detach $W HEAD
git -C $W apply $P || { git -C /repo worktree remove --force $W; echo "$ID $P apply-failed"; exit 2; }
GOSYM_REPO=$W GOSYM_VERIF=${VERIF_DIR:-/verif} timeout 1500 ${VERIF_DIR:-/verif}/bin/gosym check $ID --tier quick --no-evidence > /tmp/tri.$$.log 2>&1; RC=$?
git -C /repo worktree remove --force $W
case $RC in 1) R=detected;; 0) R=MISSED;; *) R=inconclusive;; esac
echo "$ID $P $R $(grep -a -m1 'harness=' /tmp/tri.$$.log | cut -c1-120)"
rm -f /tmp/tri.$$.log
