#!/usr/bin/env python3
import json,glob,os
rows=[]
for d in sorted(glob.glob('/verif/seeded/*/meta.json')):
    m=json.load(open(d))
    rows.append(m)
out=["# Seeded changes and the checks' verdicts\n",
"Each change was written by a sub-agent that saw only the property text; it compiles, passes the existing suite, and its demonstration fails with the change and passes without (confirmed in a scratch worktree by `tools/eval_seeded.sh`). `check` is the verdict of the property's quick check with the change applied to /repo (undone afterwards).\n",
"| seeded | summary | needs | check |","|---|---|---|---|"]
for m in rows:
    c=m['confirmed']
    ok = c['existing_suite_with_change']=='pass' and c['demo_with_change']=='fail' and c['demo_without_change']=='pass'
    out.append("| %s-%s | %s | %s | %s%s |"%(m['property'],m['variant'],(m.get('summary') or '').replace('|','/'),(m.get('needs') or '').replace('|','/'),m['check_result'],'' if ok else ' (NOT CONFIRMED)'))
det=sum(1 for m in rows if m['check_result']=='detected'); 
out.append("\n%d seeded changes kept, %d detected by the property's quick check."%(len(rows),det))
open('/verif/seeded/RESULTS.md','w').write("\n".join(out)+"\n")
print(out[-1])
