#!/bin/bash
# Usage: tools/recheck_seeded_wt.sh <id-variant>   - like recheck_seeded.sh for one kept change, but the
# change is applied to a scratch worktree of /repo (GOSYM_REPO) so several can run side by side; /repo untouched.
set -u
cd /verif
export GOFLAGS=-mod=mod GOPROXY=off GOSUMDB=off GOTOOLCHAIN=local
d=$1; OUT=/verif/seeded/$d; ID=${d%%-*}
[ -f $OUT/patch.diff ] || exit 0
W=/tmp/mut/rc.$$
git -C /repo worktree add -q --detach $W HEAD
git -C $W apply $OUT/patch.diff || { git -C /repo worktree remove --force $W; echo "$d: patch does not apply"; exit 0; }
GOSYM_REPO=$W GOSYM_VERIF=/verif timeout 1800 ./bin/gosym check $ID --tier ${TIER:-quick} --no-evidence >$OUT/check.log 2>&1; RC=$?
git -C /repo worktree remove --force $W
case $RC in 1) R=detected;; 0) R=MISSED;; *) R=inconclusive;; esac
grep -a "VIOLATION\|harness=\|INCONCLUSIVE" $OUT/check.log | head -6 | cut -c1-300 | sed "s#$W#/repo#g" > $OUT/check_summary.txt
python3 - $OUT $R $RC <<'PY'
import json,sys,os
out,r,rc=sys.argv[1:]
p=os.path.join(out,'meta.json'); m=json.load(open(p))
m['check_result']=r; m['check_exit']=int(rc)
m['check_summary']=open(os.path.join(out,'check_summary.txt')).read().splitlines()
json.dump(m,open(p,'w'),indent=1)
PY
echo "$d $R"
