#!/bin/bash
# Usage: tools/eval_seeded.sh <Cxx> <variant> [srcdir]
# Confirms a seeded change independently (scratch worktree: suite passes with it, demo
# fails with it and passes without), then applies it to /repo, runs the quick check of
# the property and undoes it. Results are written to /verif/seeded/<id>-<variant>/meta.json.
set -u
ID=$1; V=$2; SRC=${3:-/tmp/mutout/$ID/$V}
export GOFLAGS=-mod=mod GOPROXY=off GOSUMDB=off GOTOOLCHAIN=local
OUT=/verif/seeded/$ID-$V
[ -f "$SRC/patch.diff" ] || { echo "no patch in $SRC"; exit 2; }
mkdir -p "$OUT"
cp "$SRC/patch.diff" "$OUT/patch.diff"
DEMO=$(ls "$SRC"/*_test.go 2>/dev/null | head -1)
[ -n "$DEMO" ] && cp "$DEMO" "$OUT/demo_test.go.txt"
[ -f "$SRC/meta.json" ] && cp "$SRC/meta.json" "$OUT/agent_meta.json"
DEMODIR=$(python3 -c "import json,sys; print(json.load(open('$SRC/meta.json')).get('demo_dir','.') or '.')" 2>/dev/null || echo .)
RACE=""
grep -q -- "-race" "$SRC/meta.json" 2>/dev/null && RACE="-race"
W=$(mktemp -d /tmp/seedchk.XXXXXX)
git -C /repo worktree add -q --detach "$W/wt" HEAD
cd "$W/wt"
R_APPLY=ok; git apply "$OUT/patch.diff" 2>"$W/apply.err" || R_APPLY=fail
R_SUITE=skip; R_DEMO_WITH=skip; R_DEMO_WITHOUT=skip
if [ $R_APPLY = ok ]; then
  if go build ./... >/dev/null 2>&1 && go test -vet=off -count=1 ./... >"$W/suite.log" 2>&1; then R_SUITE=pass; else R_SUITE=FAIL; fi
  if [ -n "$DEMO" ]; then
    cp "$DEMO" "$DEMODIR/zz_demo_test.go"
    if timeout 300 go test $RACE -vet=off -count=1 -run . "./$DEMODIR" >"$W/demo_with.log" 2>&1; then R_DEMO_WITH=pass; else R_DEMO_WITH=fail; fi
    git checkout -q -- . 
    if timeout 300 go test $RACE -vet=off -count=1 -run . "./$DEMODIR" >"$W/demo_without.log" 2>&1; then R_DEMO_WITHOUT=pass; else R_DEMO_WITHOUT=fail; fi
  fi
fi
cd /verif
git -C /repo worktree remove --force "$W/wt"; rm -rf "$W"
# now the check against /repo with the change applied
R_CHECK=skip; RC=0
if [ $R_APPLY = ok ] && [ -z "$(git -C /repo status --porcelain)" ]; then
  git -C /repo apply "$OUT/patch.diff"
  timeout 1500 ./bin/gosym check $ID --tier ${TIER:-quick} --no-evidence >"$OUT/check.log" 2>&1; RC=$?
  git -C /repo checkout -- .
  case $RC in 1) R_CHECK=detected;; 0) R_CHECK=MISSED;; *) R_CHECK=inconclusive;; esac
fi
grep -a "VIOLATION\|harness=\|INCONCLUSIVE" "$OUT/check.log" 2>/dev/null | head -6 | cut -c1-300 > "$OUT/check_summary.txt"
python3 - "$OUT" "$ID" "$V" "$R_APPLY" "$R_SUITE" "$R_DEMO_WITH" "$R_DEMO_WITHOUT" "$R_CHECK" "$RC" <<'PY'
import json,sys,os
out,pid,v,ap,su,dw,dwo,ck,rc=sys.argv[1:]
meta={}
p=os.path.join(out,'agent_meta.json')
if os.path.exists(p):
    try: meta=json.load(open(p))
    except Exception: pass
res={"property":pid,"variant":v,"summary":meta.get("summary"),"needs":meta.get("needs"),"files":meta.get("files"),
     "confirmed":{"patch_applies":ap,"existing_suite_with_change":su,"demo_with_change":dw,"demo_without_change":dwo},
     "ran":["git apply in a scratch worktree; go build ./... && go test -vet=off -count=1 ./...; demo with and without the change",
            "git -C /repo apply patch.diff; ./bin/gosym check %s --tier quick; git -C /repo checkout -- ."%pid],
     "check_result":ck,"check_exit":int(rc),
     "check_summary":open(os.path.join(out,'check_summary.txt')).read().splitlines()}
json.dump(res,open(os.path.join(out,'meta.json'),'w'),indent=1)
print(pid,v,"apply=%s suite=%s demo_with=%s demo_without=%s check=%s"%(ap,su,dw,dwo,ck))
PY
