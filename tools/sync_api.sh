#!/bin/sh
# Copies the harness API (api.go, api_native.go) from harness/jet into the other
# harness directories with the package clause rewritten.
set -e
cd "$(dirname "$0")/.."
for d in utils:utils multi:multi httpfs:httpfs embedfs:embedfs; do
  dir=${d%%:*}; pkg=${d##*:}
  mkdir -p harness/$dir
  for f in api.go api_native.go; do
    sed "s/^package jet$/package $pkg/" harness/jet/$f > harness/$dir/$f
  done
done
