#!/usr/bin/env python3
"""Splices the generated parts (seeded-change table, false-alarm log) into DESIGN.md."""
import json,glob,re,os
root='/verif'
rows=[]
for d in sorted(glob.glob(root+'/seeded/*/meta.json')):
    m=json.load(open(d))
    hs=[]
    for l in m.get('check_summary',[]):
        mm=re.search(r'harness=(\S+)',l)
        if mm and mm.group(1) not in hs: hs.append(mm.group(1))
    rows.append((m['property']+'-'+m['variant'], (m.get('summary') or '').replace('|','/').replace('\n',' ')[:230], m['check_result'], ', '.join(hs) or ('-' if m['check_result']!='detected' else '?'), m.get('note','')))
tab=["| seeded change | what was changed | verdict | caught by |","|---|---|---|---|"]
for r in rows:
    v=r[2]
    if r[4]: v+=' (see note)'
    tab.append("| %s | %s | %s | %s |"%(r[0],r[1],v,r[3]))
det=sum(1 for r in rows if r[2]=='detected')
noted="".join("\n* `%s`: %s"%(r[0],r[4]) for r in rows if r[4])
seeded="\n".join(tab)+"\n\n%d changes kept, %d detected by the quick check of their property.\n"%(len(rows),det)+("\nNotes:"+noted+"\n" if noted else "")
notes=open(root+'/notes_false_alarms.md').read()
s=open(root+'/DESIGN.md').read()
def splice(s,tag,body):
    a='<!-- BEGIN %s -->'%tag; b='<!-- END %s -->'%tag
    if a not in s: raise SystemExit('marker missing: '+tag)
    i=s.index(a)+len(a); j=s.index(b)
    return s[:i]+"\n"+body+"\n"+s[j:]
s=splice(s,'SEEDED',seeded)
s=splice(s,'FALSEALARMS',notes)
open(root+'/DESIGN.md','w').write(s)
print('ok',len(rows),det)
