#!/bin/bash
# Usage: tools/eval_seeded_wt.sh <Cxx> <variant> <srcdir>
# Like eval_seeded.sh, but the check also runs against a scratch worktree (GOSYM_REPO), so several
# changes can be evaluated side by side and /repo is never touched.
set -u
ID=$1; V=$2; SRC=$3
export GOFLAGS=-mod=mod GOPROXY=off GOSUMDB=off GOTOOLCHAIN=local
OUT=/verif/seeded/$ID-$V
[ -f "$SRC/patch.diff" ] || { echo "no patch in $SRC"; exit 2; }
mkdir -p "$OUT"
cp "$SRC/patch.diff" "$OUT/patch.diff"
DEMO=$(ls "$SRC"/*_test.go 2>/dev/null | head -1)
[ -n "$DEMO" ] && cp "$DEMO" "$OUT/demo_test.go.txt"
[ -f "$SRC/meta.json" ] && cp "$SRC/meta.json" "$OUT/agent_meta.json"
DEMODIR=$(python3 -c "import json,sys; print(json.load(open('$SRC/meta.json')).get('demo_dir','.') or '.')" 2>/dev/null || echo .)
RACE=""
grep -q -- "-race" "$SRC/meta.json" 2>/dev/null && RACE="-race"
W=$(mktemp -d /tmp/seedchk.XXXXXX)
git -C /repo worktree add -q --detach "$W/wt" HEAD
cd "$W/wt"
R_APPLY=ok; git apply "$OUT/patch.diff" 2>"$W/apply.err" || R_APPLY=fail
R_SUITE=skip; R_DEMO_WITH=skip; R_DEMO_WITHOUT=skip; R_CHECK=skip; RC=0
if [ $R_APPLY = ok ]; then
  if go build ./... >/dev/null 2>&1 && go test -vet=off -count=1 ./... >"$W/suite.log" 2>&1; then R_SUITE=pass; else R_SUITE=FAIL; fi
  if [ -n "$DEMO" ]; then
    cp "$DEMO" "$DEMODIR/zz_demo_test.go"
    if timeout 300 go test $RACE -vet=off -count=1 -run . "./$DEMODIR" >"$W/demo_with.log" 2>&1; then R_DEMO_WITH=pass; else R_DEMO_WITH=fail; fi
    git apply -R "$OUT/patch.diff"
    if timeout 300 go test $RACE -vet=off -count=1 -run . "./$DEMODIR" >"$W/demo_without.log" 2>&1; then R_DEMO_WITHOUT=pass; else R_DEMO_WITHOUT=fail; fi
    rm -f "$DEMODIR/zz_demo_test.go"
    git apply "$OUT/patch.diff"
  fi
  cd /verif
  GOSYM_REPO="$W/wt" GOSYM_VERIF=/verif timeout 1500 ./bin/gosym check $ID --tier ${TIER:-quick} --no-evidence >"$OUT/check.log" 2>&1; RC=$?
  case $RC in 1) R_CHECK=detected;; 0) R_CHECK=MISSED;; *) R_CHECK=inconclusive;; esac
fi
cd /verif
git -C /repo worktree remove --force "$W/wt"; rm -rf "$W"
grep -a "VIOLATION\|harness=\|INCONCLUSIVE" "$OUT/check.log" 2>/dev/null | head -6 | cut -c1-300 | sed "s#$W/wt#/repo#g" > "$OUT/check_summary.txt"
python3 - "$OUT" "$ID" "$V" "$R_APPLY" "$R_SUITE" "$R_DEMO_WITH" "$R_DEMO_WITHOUT" "$R_CHECK" "$RC" <<'PY'
import json,sys,os
out,pid,v,ap,su,dw,dwo,ck,rc=sys.argv[1:]
meta={}
p=os.path.join(out,'agent_meta.json')
if os.path.exists(p):
    try: meta=json.load(open(p))
    except Exception: pass
res={"property":pid,"variant":v,"summary":meta.get("summary"),"needs":meta.get("needs"),"files":meta.get("files"),
     "confirmed":{"patch_applies":ap,"existing_suite_with_change":su,"demo_with_change":dw,"demo_without_change":dwo},
     "ran":["git apply in a scratch worktree of /repo; go build ./... && go test -vet=off -count=1 ./...; demo with and without the change",
            "GOSYM_REPO=<that worktree> ./bin/gosym check %s --tier quick (first pass; the registered check was afterwards re-run with the patch applied to /repo where noted)"%pid],
     "check_result":ck,"check_exit":int(rc),
     "check_summary":open(os.path.join(out,'check_summary.txt')).read().splitlines()}
json.dump(res,open(os.path.join(out,'meta.json'),'w'),indent=1)
print(pid,v,"apply=%s suite=%s demo_with=%s demo_without=%s check=%s"%(ap,su,dw,dwo,ck))
PY
