#!/bin/sh
# (Re)creates the symbolic links of the fixture tree fixtures/oslinks (a link to a file, a
# link to a directory, a dangling link) - in case a copy of /verif turned them into copies.
set -e
cd "$(dirname "$0")/../fixtures"
mkdir -p oslinks/real
[ -f oslinks/page.jet ] || printf 'P' > oslinks/page.jet
[ -f oslinks/real/part.jet ] || printf 'part' > oslinks/real/part.jet
cd oslinks
rm -rf shared alias.jet gone.jet
ln -s real shared
ln -s page.jet alias.jet
ln -s nowhere.jet gone.jet
