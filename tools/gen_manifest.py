#!/usr/bin/env python3
"""Generates /verif/MANIFEST.json from the table below (single source of truth)."""
import json, os, subprocess

ROOT = os.path.dirname(os.path.dirname(os.path.abspath(__file__)))

ENV = "GOFLAGS=-mod=mod GOPROXY=off GOSUMDB=off GOTOOLCHAIN=local"

# id -> (level text, level note, design ref)
CLAIMED = {
}

NOT_YET = "check not built yet in this round; will be decided by the same solver-based engine (see DESIGN.md section 6)"

def load_claims():
    p = os.path.join(ROOT, "tools", "claims.json")
    return json.load(open(p))

def main():
    claims = load_claims()
    props = [json.loads(l) for l in open(os.path.join(ROOT, "properties.jsonl"))]
    checks, na = [], []
    for p in props:
        pid = p["id"]
        c = claims.get(pid)
        if c and c.get("claimed"):
            checks.append({
                "property_id": pid,
                "quick_cmd": f"./bin/gosym check {pid} --tier quick",
                "thorough_cmd": f"./bin/gosym check {pid} --tier thorough",
                "evidence_file": f"evidence/{pid}.json",
                "replay_cmd_template": "./bin/gosym replay {path}",
                "engine": "gosym",
                "level_claimed": {
                    "category": "model_checking",
                    "text": c["text"],
                    "design_ref": c.get("design_ref", "DESIGN.md section 5, " + pid),
                },
                "level_note": c["note"],
                "technique": c.get("technique", "bounded symbolic execution of the real code's go/ssa form; every branch, implicit-panic site and harness assertion decided by z3 (SMT, bit-vectors) for all values within the stated bounds; counterexamples replayed natively"),
            })
        else:
            na.append({"property_id": pid, "reason": (c or {}).get("reason", NOT_YET)})
    m = {
        "version": 1,
        "setup_cmd": f"sh tools/mk_fixtures.sh && cd gosym && {ENV} go build -o ../bin/gosym ./cmd/gosym",
        "hooks": {
            "guard": "verif",
            "enable": "no source hooks: harness files are injected into the packages under test with go/packages Overlay (engine) and go test -overlay (native replay); nothing in /repo is guarded",
            "baseline_off_cmd": f"cd /repo && {ENV} go test -mod=mod -json -vet=off -count=1 -timeout 25m ./...",
            "source_commits": [],
            "add_only": True,
        },
        "engines": [{
            "name": "gosym",
            "path": "gosym",
            "serves_properties": [c["property_id"] for c in checks],
            "kind_free_text": "symbolic executor for Go SSA (adapted golang.org/x/tools/go/ssa/interp v0.29.0) + z3 over SMT-LIB2; forking by re-execution; native replay through go test -overlay",
        }],
        "checks": checks,
        "not_applicable": na,
        "notes": "Exit codes of every check: 0 = all obligations discharged within the bounds; 1 = replay-confirmed violation (VIOLATION line); 2 = inconclusive (solver unknown, unsupported construct, spurious model, harness no longer type-checks) - never reported as success.",
    }
    json.dump(m, open(os.path.join(ROOT, "MANIFEST.json"), "w"), indent=1)
    print("claimed:", [c["property_id"] for c in checks])

if __name__ == "__main__":
    main()
