#!/bin/bash
# Usage: tools/try_patch.sh <patch.diff> <harness>...   (engine only, scratch worktree, no native replay)
set -u
P=$1; shift
W=/tmp/mut/try.$$
git -C /repo worktree add -q --detach $W HEAD
git -C $W apply $P || { git -C /repo worktree remove --force $W; exit 2; }
GOSYM_REPO=$W GOSYM_VERIF=/verif timeout ${TO:-900} /verif/bin/gosym run -workers ${WORKERS:-12} -max-paths 1000000 "$@" 2>&1 | grep -a "^==\|VIOLATION-CAND\|PROBLEM" | cut -c1-${CUT:-330} | awk '!seen[substr($0,1,120)]++' | head -${HEAD:-12}
git -C /repo worktree remove --force $W
